package c16

// FuzzC16 (native, coverage-guided, thorough tier): arbitrary bytes are decoded by the registered codec into one of the request types of
// the key-value and tables API and handed to the REAL handlers (regattaserver.KVServer / TablesServer) in front of a REAL in-process
// storage.Engine (raft apply loop included), so that coverage feedback reaches validation, proposal and state-machine code.
// Oracle: (1) nothing panics - a panic in the handler fails the target, a panic on the raft apply goroutine kills the fuzz worker, both
// are reported with the input saved; (2) a request the classifier recognises as invalid by one of the documented rules is refused with
// a non-OK status (the documented code when it violates exactly one rule) and leaves the table unchanged; (3) the engine still serves a
// trivial read afterwards.  Everything the documentation does not rule on is liveness-only.

import (
	"context"
	"fmt"
	"sync"
	"testing"
	"time"

	"github.com/jamf/regatta/regattapb"
	"github.com/jamf/regatta/regattaserver"
	"google.golang.org/grpc"
	"google.golang.org/grpc/codes"
	"google.golang.org/grpc/encoding"
	"google.golang.org/grpc/metadata"
	"google.golang.org/grpc/status"

	"verifharness/internal/enginefx"
)

var (
	fzOnce sync.Once
	fzFx   *enginefx.Fixture
	fzKV   *regattaserver.KVServer
	fzTab  *regattaserver.TablesServer
	fzErr  error
	fzN    int
)

func fzSetup() {
	fzFx, fzErr = enginefx.Start(enginefx.Opts{MaxInMemLogSize: 6 * 1024 * 1024})
	if fzErr != nil {
		return
	}
	if _, fzErr = fzFx.CreateTable("t"); fzErr != nil {
		return
	}
	fzKV = &regattaserver.KVServer{Storage: fzFx.E}
	fzTab = &regattaserver.TablesServer{Tables: fzFx.E, AuthFunc: func(ctx context.Context) (context.Context, error) { return ctx, nil }}
}

type fzStream struct {
	grpc.ServerStream
	ctx context.Context
	n   int
}

func (s *fzStream) Context() context.Context            { return s.ctx }
func (s *fzStream) Send(*regattapb.RangeResponse) error { s.n++; return nil }
func (s *fzStream) SetHeader(metadata.MD) error         { return nil }
func (s *fzStream) SendHeader(metadata.MD) error        { return nil }
func (s *fzStream) SetTrailer(metadata.MD)              {}
func (s *fzStream) SendMsg(any) error                   { return nil }
func (s *fzStream) RecvMsg(any) error                   { return nil }

func fzDigest() (string, error) {
	ctx, cancel := context.WithTimeout(context.Background(), 20*time.Second)
	defer cancel()
	r, err := fzFx.E.Range(ctx, &regattapb.RangeRequest{Table: []byte("t"), Key: []byte{0}, RangeEnd: []byte{0}, Linearizable: true})
	if err != nil {
		return "", err
	}
	h := fmt.Sprintf("%d:%v:", len(r.Kvs), r.More)
	for _, kv := range r.Kvs {
		h += fmt.Sprintf("%x=%d/%x;", kv.Key, len(kv.Value), tail(kv.Value))
	}
	return h, nil
}

func tail(b []byte) []byte {
	if len(b) > 8 {
		return b[len(b)-8:]
	}
	return b
}

// rules violated by a range-like request (documented ones only)
func rangeRules(q *regattapb.RangeRequest) (n int, code codes.Code) {
	add := func(c codes.Code) { n++; code = c }
	if q.Limit < 0 {
		add(codes.InvalidArgument)
	}
	if q.KeysOnly && q.CountOnly {
		add(codes.InvalidArgument)
	}
	if q.MinModRevision > 0 || q.MaxModRevision > 0 || q.MinCreateRevision > 0 || q.MaxCreateRevision > 0 {
		add(codes.Unimplemented)
	}
	if len(q.Table) == 0 {
		add(codes.InvalidArgument)
	} else if string(q.Table) != "t" && !fzName(string(q.Table)) {
		add(codes.NotFound)
	}
	if len(q.Key) == 0 {
		add(codes.InvalidArgument)
	}
	if len(q.Key) > maxKey {
		add(0)
	}
	return
}

// fzName: tables the target itself may create and delete (their existence depends on earlier iterations, so no rule is derived from them).
func fzName(n string) bool { return len(n) >= 2 && len(n) <= 6 && n[:2] == "fz" }

func opsRules(ops []*regattapb.RequestOp) (n int) {
	for _, op := range ops {
		if p := op.GetRequestPut(); p != nil {
			if len(p.Key) == 0 || len(p.Key) > maxKey || len(p.Value) > maxValue {
				n++
			}
		}
	}
	return
}

func FuzzC16(f *testing.F) {
	seed := func(which uint8, m interface{ MarshalVT() ([]byte, error) }) {
		b, _ := m.MarshalVT()
		f.Add(which, b)
	}
	seed(0, &regattapb.RangeRequest{Table: []byte("t"), Key: []byte("a"), RangeEnd: []byte{0}, Limit: 3})
	seed(0, &regattapb.RangeRequest{Table: []byte("t"), Key: []byte("a"), Linearizable: true, KeysOnly: true})
	seed(1, &regattapb.RangeRequest{Table: []byte("t"), Key: []byte{0}, RangeEnd: []byte{0}, CountOnly: true})
	seed(2, &regattapb.PutRequest{Table: []byte("t"), Key: []byte("a"), Value: []byte("v"), PrevKv: true})
	seed(3, &regattapb.DeleteRangeRequest{Table: []byte("t"), Key: []byte("b"), RangeEnd: []byte("a"), PrevKv: true, Count: true})
	seed(3, &regattapb.DeleteRangeRequest{Table: []byte("t"), Key: []byte("a"), RangeEnd: []byte{0}, Count: true})
	seed(4, &regattapb.TxnRequest{Table: []byte("t"),
		Compare: []*regattapb.Compare{{Key: []byte("a"), RangeEnd: []byte("c"), Result: regattapb.Compare_GREATER, TargetUnion: &regattapb.Compare_Value{Value: []byte("v")}}},
		Success: []*regattapb.RequestOp{{Request: &regattapb.RequestOp_RequestPut{RequestPut: &regattapb.RequestOp_Put{Key: []byte("a"), Value: []byte("w"), PrevKv: true}}},
			{Request: &regattapb.RequestOp_RequestRange{RequestRange: &regattapb.RequestOp_Range{Key: []byte("a"), RangeEnd: []byte{0}, Limit: 2, KeysOnly: true}}}},
		Failure: []*regattapb.RequestOp{{Request: &regattapb.RequestOp_RequestDeleteRange{RequestDeleteRange: &regattapb.RequestOp_DeleteRange{Key: []byte("c"), RangeEnd: []byte("a"), PrevKv: true, Count: true}}}}})
	seed(4, &regattapb.TxnRequest{Table: []byte("t"), Success: []*regattapb.RequestOp{{Request: &regattapb.RequestOp_RequestRange{RequestRange: &regattapb.RequestOp_Range{Key: []byte("a")}}}}})
	seed(5, &regattapb.CreateTableRequest{Name: "fz1"})
	seed(6, &regattapb.DeleteTableRequest{Name: "fz1"})
	f.Add(uint8(4), []byte{0x0a, 0x01, 't', 0x1a, 0x00, 0x22, 0x02, 0x0a, 0x00})
	codec := encoding.GetCodec("proto")
	f.Fuzz(func(t *testing.T, which uint8, data []byte) {
		fzOnce.Do(fzSetup)
		if fzErr != nil {
			t.Skip("fixture: " + fzErr.Error())
		}
		if len(data) > 64*1024 {
			return
		}
		ctx, cancel := context.WithTimeout(context.Background(), 20*time.Second)
		defer cancel()
		buf := append([]byte(nil), data...)
		var err error
		invalid, code, mutating := 0, codes.Code(0), false
		var before string
		snap := func() {
			if invalid > 0 && mutating {
				before, _ = fzDigest()
			}
		}
		switch which % 7 {
		case 0, 1:
			q := &regattapb.RangeRequest{}
			if codec.Unmarshal(buf, q) != nil {
				return
			}
			invalid, code = rangeRules(q)
			if len(q.RangeEnd) > maxKey {
				invalid++
				code = 0
			}
			if which%7 == 0 {
				_, err = fzKV.Range(ctx, q)
			} else {
				err = fzKV.IterateRange(q, &fzStream{ctx: ctx})
			}
		case 2:
			q := &regattapb.PutRequest{}
			if codec.Unmarshal(buf, q) != nil {
				return
			}
			mutating = true
			invalid, code = rangeRules(&regattapb.RangeRequest{Table: q.Table, Key: q.Key})
			if len(q.Value) > maxValue {
				invalid++
				code = 0
			}
			snap()
			_, err = fzKV.Put(ctx, q)
		case 3:
			q := &regattapb.DeleteRangeRequest{}
			if codec.Unmarshal(buf, q) != nil {
				return
			}
			mutating = true
			invalid, code = rangeRules(&regattapb.RangeRequest{Table: q.Table, Key: q.Key})
			snap()
			_, err = fzKV.DeleteRange(ctx, q)
		case 4:
			q := &regattapb.TxnRequest{}
			if codec.Unmarshal(buf, q) != nil {
				return
			}
			mutating = true
			if len(q.Table) == 0 {
				invalid, code = 1, codes.InvalidArgument
			} else if string(q.Table) != "t" && !fzName(string(q.Table)) {
				invalid, code = 1, codes.NotFound
			}
			if n := opsRules(q.Success) + opsRules(q.Failure); n > 0 {
				invalid += n
				code = 0
			}
			snap()
			_, err = fzKV.Txn(ctx, q)
		case 5:
			q := &regattapb.CreateTableRequest{}
			if codec.Unmarshal(buf, q) != nil {
				return
			}
			if q.Name == "" {
				invalid, code = 1, codes.InvalidArgument
			} else if !fzName(q.Name) || fzN > 40 {
				return // only names reserved for this purpose, and only a few shards
			}
			fzN++
			_, err = fzTab.Create(ctx, q)
		default:
			q := &regattapb.DeleteTableRequest{}
			if codec.Unmarshal(buf, q) != nil {
				return
			}
			if q.Name == "" {
				invalid, code = 1, codes.InvalidArgument
			} else if !fzName(q.Name) {
				return
			}
			_, err = fzTab.Delete(ctx, q)
		}
		if invalid > 0 {
			if err == nil {
				t.Fatalf("VERIF-FAIL signature=C16/fuzz-invalid-request-accepted request kind %d violating %d documented rule(s) was answered OK", which%7, invalid)
			}
			if invalid == 1 && code != 0 && status.Code(err) != code {
				t.Fatalf("VERIF-FAIL signature=C16/fuzz-wrong-status request kind %d: status %v, documented %v (%v)", which%7, status.Code(err), code, err)
			}
			if mutating && before != "" {
				if after, derr := fzDigest(); derr == nil && after != before {
					t.Fatalf("VERIF-FAIL signature=C16/fuzz-refused-request-had-effect request kind %d was refused (%v) but the table changed", which%7, err)
				}
			}
		}
		// still serving
		c2, cancel2 := context.WithTimeout(context.Background(), 30*time.Second)
		defer cancel2()
		if _, rerr := fzFx.E.Range(c2, &regattapb.RangeRequest{Table: []byte("t"), Key: []byte("liveness"), Linearizable: true}); rerr != nil && status.Code(rerr) != codes.DeadlineExceeded && c2.Err() == nil {
			t.Fatalf("VERIF-FAIL signature=C16/fuzz-engine-stopped-serving after request kind %d: %v", which%7, rerr)
		}
	})
}
