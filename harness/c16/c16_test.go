// C16 — invalid requests are rejected without effect; no request can crash a server.
package c16

import (
	"bytes"
	"context"
	"fmt"
	"io"
	"os"
	"sort"
	"strings"
	"sync"
	"testing"
	"time"

	"github.com/jamf/regatta/regattapb"
	"google.golang.org/grpc"
	"google.golang.org/grpc/codes"
	"google.golang.org/grpc/status"
	"pgregory.net/rapid"

	"verifharness/internal/binfx"
	"verifharness/internal/model"
	"verifharness/internal/vt"
)

const prop = "C16"

// rawCodec sends pre-encoded request bytes as they are (so that hand-crafted wire messages are possible) and decodes
// responses with the generated code. Its name is "proto": the server picks its own registered codec.
type rawCodec struct{}

type vtMsg interface {
	MarshalVT() ([]byte, error)
	UnmarshalVT([]byte) error
}

func (rawCodec) Marshal(v any) ([]byte, error) {
	switch x := v.(type) {
	case []byte:
		return x, nil
	case vtMsg:
		return x.MarshalVT()
	}
	return nil, fmt.Errorf("rawCodec: cannot marshal %T", v)
}
func (rawCodec) Unmarshal(b []byte, v any) error {
	if x, ok := v.(vtMsg); ok {
		return x.UnmarshalVT(b)
	}
	return fmt.Errorf("rawCodec: cannot unmarshal into %T", v)
}
func (rawCodec) Name() string { return "proto" }

// Req is one request of a case: exact wire bytes + what the generator knows about it.
type Req struct {
	Target string `json:"target"` // leader | follower
	Method string `json:"method"` // Range | IterateRange | Put | DeleteRange | Txn | TablesCreate | TablesDelete | TablesList
	Wire   []byte `json:"wire"`
	// Class: valid | invalid (must be refused; Code = the exact status code when exactly one documented defect is present, else 0 = any non-OK) | hostile (only liveness is asserted)
	Class   string   `json:"class"`
	Code    uint32   `json:"code,omitempty"`
	Defects []string `json:"defects,omitempty"`
}

type Case struct {
	Reqs []Req `json:"reqs"`
}

var tables = []string{"t1", "t2"}

const (
	maxKey   = 1024
	maxValue = 2 * 1024 * 1024
)

func genKey(t *rapid.T, label string) []byte {
	return []byte(rapid.SampledFrom([]string{"a", "b", "c", "d\x00", "\xff"}).Draw(t, label))
}

type defect struct {
	name string
	code codes.Code // 0 = any non-OK
}

func big(n int) []byte { return bytes.Repeat([]byte{'x'}, n) }

func genReq(t *rapid.T) Req {
	r := Req{Target: rapid.SampledFrom([]string{"leader", "leader", "follower"}).Draw(t, "target"), Class: "valid"}
	table := []byte(rapid.SampledFrom(tables).Draw(t, "table"))
	var defects []defect
	inject := rapid.IntRange(0, 2).Draw(t, "inject") // 0: valid, 1: one defect, 2: maybe several
	want := func(label string) bool {
		if inject == 0 {
			return false
		}
		if inject == 1 && len(defects) > 0 {
			return false
		}
		return rapid.IntRange(0, 3).Draw(t, "d."+label) == 0
	}
	method := rapid.SampledFrom([]string{"Range", "Range", "IterateRange", "Put", "Put", "DeleteRange", "Txn", "Txn", "Txn", "TablesCreate", "TablesDelete", "TablesList"}).Draw(t, "method")
	r.Method = method
	hostile := false
	switch method {
	case "Range", "IterateRange":
		q := &regattapb.RangeRequest{Table: table, Key: genKey(t, "key")}
		if rapid.Bool().Draw(t, "isrange") {
			q.RangeEnd = rapid.SampledFrom([][]byte{{0}, []byte("c"), []byte("zz")}).Draw(t, "end")
		}
		q.Limit = int64(rapid.IntRange(0, 3).Draw(t, "limit"))
		if rapid.IntRange(0, 5).Draw(t, "hugelimit") == 0 {
			// any positive limit is valid, also absurdly large ones
			q.Limit = rapid.SampledFrom([]int64{1<<31 - 1, 1 << 31, 1 << 40, 1<<63 - 1}).Draw(t, "huge")
		}
		q.Linearizable = rapid.Bool().Draw(t, "lin")
		switch rapid.IntRange(0, 3).Draw(t, "flags") {
		case 0:
			q.KeysOnly = true
		case 1:
			q.CountOnly = true
		}
		// the handler checks in this order: limit, flags, revision filters, table, key; with several defects only non-OK is asserted
		if want("neglimit") {
			q.Limit = -int64(rapid.IntRange(1, 5).Draw(t, "neg"))
			defects = append(defects, defect{"negative-limit", codes.InvalidArgument})
		}
		if want("bothflags") {
			q.KeysOnly, q.CountOnly = true, true
			defects = append(defects, defect{"keys_only+count_only", codes.InvalidArgument})
		}
		if want("revfilter") {
			switch rapid.IntRange(0, 3).Draw(t, "which") {
			case 0:
				q.MinModRevision = 1
			case 1:
				q.MaxModRevision = 7
			case 2:
				q.MinCreateRevision = 2
			default:
				q.MaxCreateRevision = 9
			}
			defects = append(defects, defect{"revision-filter", codes.Unimplemented})
		}
		if want("notable") {
			q.Table = nil
			defects = append(defects, defect{"missing-table", codes.InvalidArgument})
		} else if want("unknowntable") {
			q.Table = unknownTable(t, table)
			defects = append(defects, defect{"unknown-table", codes.NotFound})
		}
		if want("nokey") {
			q.Key = nil
			defects = append(defects, defect{"missing-key", codes.InvalidArgument})
		} else if want("longkey") {
			q.Key = big(maxKey + rapid.IntRange(1, 50).Draw(t, "over"))
			defects = append(defects, defect{"key-too-long", 0})
		}
		r.Wire, _ = q.MarshalVT()
	case "Put":
		q := &regattapb.PutRequest{Table: table, Key: genKey(t, "key"), Value: []byte(fmt.Sprintf("v%d", rapid.IntRange(0, 99).Draw(t, "v"))), PrevKv: rapid.Bool().Draw(t, "prev")}
		if rapid.IntRange(0, 30).Draw(t, "maxval") == 0 {
			q.Value = big(maxValue) // exactly the limit: valid
		}
		if rapid.IntRange(0, 10).Draw(t, "maxkey") == 0 {
			q.Key = big(maxKey) // exactly the limit: valid
		}
		if want("notable") {
			q.Table = nil
			defects = append(defects, defect{"missing-table", codes.InvalidArgument})
		} else if want("unknowntable") {
			q.Table = unknownTable(t, table)
			defects = append(defects, defect{"unknown-table", codes.NotFound})
		}
		if want("nokey") {
			q.Key = nil
			defects = append(defects, defect{"missing-key", codes.InvalidArgument})
		} else if want("longkey") {
			q.Key = big(maxKey + rapid.IntRange(1, 50).Draw(t, "over"))
			defects = append(defects, defect{"key-too-long", 0})
		}
		if want("bigvalue") {
			q.Value = big(maxValue + rapid.IntRange(1, 100).Draw(t, "overv"))
			defects = append(defects, defect{"value-too-big", 0})
		}
		r.Wire, _ = q.MarshalVT()
	case "DeleteRange":
		q := &regattapb.DeleteRangeRequest{Table: table, Key: genKey(t, "key"), PrevKv: rapid.Bool().Draw(t, "prev"), Count: rapid.Bool().Draw(t, "count")}
		if rapid.Bool().Draw(t, "isrange") {
			q.RangeEnd = rapid.SampledFrom([][]byte{{0}, []byte("c"), []byte("zz")}).Draw(t, "end")
		}
		if want("notable") {
			q.Table = nil
			defects = append(defects, defect{"missing-table", codes.InvalidArgument})
		} else if want("unknowntable") {
			q.Table = unknownTable(t, table)
			defects = append(defects, defect{"unknown-table", codes.NotFound})
		}
		if want("nokey") {
			q.Key = nil
			defects = append(defects, defect{"missing-key", codes.InvalidArgument})
		} else if want("longkey") {
			q.Key = big(maxKey + rapid.IntRange(1, 50).Draw(t, "over"))
			defects = append(defects, defect{"key-too-long", 0})
		}
		if inject > 0 && len(defects) == 0 && rapid.IntRange(0, 7).Draw(t, "hostileend") == 0 {
			// a range end longer than a key may be: handled or refused, never a crash
			q.RangeEnd = big(maxKey + rapid.SampledFrom([]int{1, 2, 200, 2000}).Draw(t, "endover"))
			hostile = true
		}
		r.Wire, _ = q.MarshalVT()
	case "Txn":
		q := &regattapb.TxnRequest{Table: table}
		if rapid.Bool().Draw(t, "hascmp") {
			c := &regattapb.Compare{Key: genKey(t, "ckey"), Result: regattapb.Compare_CompareResult(rapid.IntRange(0, 3).Draw(t, "res"))}
			if rapid.Bool().Draw(t, "cval") {
				c.TargetUnion = &regattapb.Compare_Value{Value: []byte(fmt.Sprintf("v%d", rapid.IntRange(0, 99).Draw(t, "cv")))}
			}
			q.Compare = append(q.Compare, c)
		}
		genOps := func(label string) []*regattapb.RequestOp {
			var ops []*regattapb.RequestOp
			n := rapid.IntRange(0, 3).Draw(t, label+".n")
			for i := 0; i < n; i++ {
				switch rapid.IntRange(0, 2).Draw(t, label+".kind") {
				case 0:
					rg := &regattapb.RequestOp_Range{Key: genKey(t, label+".k")}
					if rapid.Bool().Draw(t, label+".isrange") {
						rg.RangeEnd = []byte{0}
						if rapid.IntRange(0, 5).Draw(t, label+".hugelimit") == 0 {
							rg.Limit = rapid.SampledFrom([]int64{1 << 31, 1 << 40, 1<<63 - 1}).Draw(t, label+".huge")
						}
					}
					ops = append(ops, &regattapb.RequestOp{Request: &regattapb.RequestOp_RequestRange{RequestRange: rg}})
				case 1:
					ops = append(ops, &regattapb.RequestOp{Request: &regattapb.RequestOp_RequestPut{RequestPut: &regattapb.RequestOp_Put{Key: genKey(t, label+".k"), Value: []byte(fmt.Sprintf("t%d", rapid.IntRange(0, 99).Draw(t, label+".v"))), PrevKv: rapid.Bool().Draw(t, label+".prev")}}})
				default:
					d := &regattapb.RequestOp_DeleteRange{Key: genKey(t, label+".k"), PrevKv: rapid.Bool().Draw(t, label+".prev"), Count: rapid.Bool().Draw(t, label+".count")}
					ops = append(ops, &regattapb.RequestOp{Request: &regattapb.RequestOp_RequestDeleteRange{RequestDeleteRange: d}})
				}
			}
			return ops
		}
		q.Success, q.Failure = genOps("succ"), genOps("fail")
		if want("notable") {
			q.Table = nil
			defects = append(defects, defect{"missing-table", codes.InvalidArgument})
		} else if want("unknowntable") {
			q.Table = unknownTable(t, table)
			defects = append(defects, defect{"unknown-table", codes.NotFound})
		}
		// defects nested in a branch: the limits hold on every path that can create a record
		if want("nestedput") {
			bad := &regattapb.RequestOp_Put{Key: genKey(t, "nk"), Value: []byte("nested")}
			switch rapid.IntRange(0, 2).Draw(t, "nestedwhich") {
			case 0:
				bad.Key = nil
				defects = append(defects, defect{"nested-put-missing-key", 0})
			case 1:
				bad.Key = big(maxKey + rapid.IntRange(1, 1000).Draw(t, "nover"))
				defects = append(defects, defect{"nested-put-key-too-long", 0})
			default:
				bad.Value = big(maxValue + rapid.IntRange(1, 100).Draw(t, "noverv"))
				defects = append(defects, defect{"nested-put-value-too-big", 0})
			}
			op := &regattapb.RequestOp{Request: &regattapb.RequestOp_RequestPut{RequestPut: bad}}
			// place it in the success branch only, the failure branch only, or both (the request violates the limits whichever
			// branch the predicates select); its position varies and it may follow an operation with an unset oneof (which the
			// state machine skips)
			place := func(ops []*regattapb.RequestOp) []*regattapb.RequestOp {
				switch rapid.IntRange(0, 3).Draw(t, "nestedpos") {
				case 0:
					return append([]*regattapb.RequestOp{op}, ops...)
				case 1:
					return append([]*regattapb.RequestOp{{}, op}, ops...)
				default:
					return append(ops, op)
				}
			}
			switch rapid.IntRange(0, 3).Draw(t, "nestedbranch") {
			case 0:
				q.Success = place(q.Success)
			case 1:
				q.Failure = place(q.Failure)
			default:
				q.Success = place(q.Success)
				q.Failure = place(q.Failure)
			}
		} else if inject > 0 && rapid.IntRange(0, 5).Draw(t, "hostileop") == 0 {
			// shapes the documentation does not rule on (nested reads with odd options, empty oneof): only liveness is asserted
			hostile = true
			overlong := func(label string) []byte { return big(maxKey + rapid.SampledFrom([]int{1, 2, 200, 2000}).Draw(t, label)) }
			switch rapid.IntRange(0, 7).Draw(t, "hostilewhich") {
			case 4:
				// BOUNDS (not keys of records) longer than a key may be - the documentation limits keys and values, not range ends and
				// predicate keys: handled or refused, never a crash (seeded change C16-G: the state machine failed on them)
				q.Success = append(q.Success, &regattapb.RequestOp{Request: &regattapb.RequestOp_RequestDeleteRange{RequestDeleteRange: &regattapb.RequestOp_DeleteRange{Key: genKey(t, "hk"), RangeEnd: overlong("hover")}}})
			case 5:
				q.Compare = append(q.Compare, &regattapb.Compare{Key: overlong("hover"), Result: regattapb.Compare_EQUAL, TargetUnion: &regattapb.Compare_Value{Value: []byte("x")}})
				q.Failure = append(q.Failure, &regattapb.RequestOp{Request: &regattapb.RequestOp_RequestPut{RequestPut: &regattapb.RequestOp_Put{Key: genKey(t, "hk"), Value: []byte("h")}}})
			case 6:
				q.Compare = append(q.Compare, &regattapb.Compare{Key: genKey(t, "hk"), RangeEnd: overlong("hover"), Result: regattapb.Compare_NOT_EQUAL, TargetUnion: &regattapb.Compare_Value{Value: []byte("x")}})
				q.Success = append(q.Success, &regattapb.RequestOp{Request: &regattapb.RequestOp_RequestPut{RequestPut: &regattapb.RequestOp_Put{Key: genKey(t, "hk2"), Value: []byte("h")}}})
			case 7:
				q.Success = append(q.Success, &regattapb.RequestOp{Request: &regattapb.RequestOp_RequestRange{RequestRange: &regattapb.RequestOp_Range{Key: genKey(t, "hk"), RangeEnd: overlong("hover")}}},
					&regattapb.RequestOp{Request: &regattapb.RequestOp_RequestPut{RequestPut: &regattapb.RequestOp_Put{Key: genKey(t, "hk2"), Value: []byte("h")}}})
			case 0:
				q.Success = append(q.Success, &regattapb.RequestOp{})
			case 1:
				q.Failure = append(q.Failure, &regattapb.RequestOp{Request: &regattapb.RequestOp_RequestRange{RequestRange: &regattapb.RequestOp_Range{Key: genKey(t, "hk"), RangeEnd: []byte{0}, Limit: -3, KeysOnly: true, CountOnly: true}}})
			case 2:
				q.Success = append(q.Success, &regattapb.RequestOp{Request: &regattapb.RequestOp_RequestDeleteRange{RequestDeleteRange: &regattapb.RequestOp_DeleteRange{Key: nil, Count: true}}})
			default:
				q.Compare = append(q.Compare, &regattapb.Compare{Key: nil, Result: 77, Target: 5})
			}
		}
		r.Wire, _ = q.MarshalVT()
	case "TablesCreate", "TablesDelete":
		name := rapid.SampledFrom([]string{"x1", "x2"}).Draw(t, "tname")
		if want("noname") {
			name = ""
			defects = append(defects, defect{"missing-name", codes.InvalidArgument})
		}
		if r.Target == "follower" {
			defects = append(defects, defect{"table-mutation-on-follower", codes.Unimplemented})
		}
		if method == "TablesCreate" {
			r.Wire, _ = (&regattapb.CreateTableRequest{Name: name}).MarshalVT()
		} else {
			r.Wire, _ = (&regattapb.DeleteTableRequest{Name: name}).MarshalVT()
		}
	case "TablesList":
		r.Wire, _ = (&regattapb.ListTablesRequest{}).MarshalVT()
	}
	// a KV request on one of the scratch tables the Tables calls of this case create and delete: whether the table exists is known
	// only at run time - NotFound while it does not (also right after it was deleted), served while it does
	if len(defects) == 0 && !hostile && r.Target == "leader" && (method == "Range" || method == "Put") && rapid.IntRange(0, 5).Draw(t, "xtable") == 0 {
		name := rapid.SampledFrom([]string{"x1", "x2"}).Draw(t, "xname")
		if method == "Range" {
			r.Wire, _ = (&regattapb.RangeRequest{Table: []byte(name), Key: []byte("k"), Linearizable: true}).MarshalVT()
		} else {
			r.Wire, _ = (&regattapb.PutRequest{Table: []byte(name), Key: []byte("k"), Value: []byte("v")}).MarshalVT()
		}
		r.Class = "xtable"
		r.Defects = []string{name}
		return r
	}
	// arbitrary garbage now and then: must be handled or refused, never crash
	if inject > 0 && rapid.IntRange(0, 25).Draw(t, "garbage") == 0 {
		r.Wire = rapid.SliceOfN(rapid.Byte(), 0, 40).Draw(t, "bytes")
		hostile = true
		defects = nil
	}
	switch {
	case hostile:
		r.Class = "hostile"
	case len(defects) > 0:
		r.Class = "invalid"
		if len(defects) == 1 {
			r.Code = uint32(defects[0].code)
		}
	}
	for _, d := range defects {
		r.Defects = append(r.Defects, d.name)
	}
	return r
}

// unknownTable: a table that was never created - an unrelated name, or a name that merely RESEMBLES an existing one (path-like
// decorations, case, whitespace, a prefix / an extension of it).  The catalogue is keyed by the exact name.
func unknownTable(t *rapid.T, existing []byte) []byte {
	e := string(existing)
	if rapid.IntRange(0, 3).Draw(t, "unknownbytes") == 0 {
		// the table of a KV request is a protobuf `bytes` field: any byte string names a (here: unknown) table - not valid UTF-8,
		// control characters, NUL, very long (seeded change C16-F: the name used verbatim as a metrics label)
		return rapid.SampledFrom([][]byte{{0xff}, []byte(e + "\xfe"), {0xc3, 0x28}, {0xe2, 0x82}, []byte("\xf0\x28\x8c\x28"), {0}, []byte(e + "\x00"), []byte("\x00" + e), []byte("a\nb"), []byte("\r\n"), {0x7f}, {0x80},
			bytes.Repeat([]byte("n"), 4096), bytes.Repeat([]byte{0xff}, 300), []byte("%s%d%!"), []byte("{}\"\\")}).Draw(t, "unknownrawname")
	}
	return []byte(rapid.SampledFrom([]string{"nope", "nope", e + "/", e + "/.", "./" + e, "/" + e, "x/../" + e, "../tables/" + e, e + "//", strings.ToUpper(e), e + " ", " " + e, e + "x", e[:max(1, len(e)-1)] + "?"}).Draw(t, "unknownname"))
}

// errCouldNotJudge: a comparison read timed out (saturated machine); never reported.
var errCouldNotJudge = &vt.Failure{Signature: "harness/could-not-judge"}

func genCase(t *rapid.T) Case {
	n := rapid.IntRange(3, 25).Draw(t, "n")
	c := Case{}
	for i := 0; i < n; i++ {
		c.Reqs = append(c.Reqs, genReq(t))
	}
	return c
}

// ---- fixture: one leader and one follower process per test process ---------------------------------------

var (
	fxOnce   sync.Once
	leader   *binfx.Proc
	follower *binfx.Proc
	fxErr    error
)

func fixture() error {
	fxOnce.Do(func() {
		leader, fxErr = binfx.Start(binfx.Opts{Role: "leader"})
		if fxErr != nil {
			return
		}
		follower, fxErr = binfx.Start(binfx.Opts{Role: "follower", LeaderRepl: leader.Repl})
		if fxErr != nil {
			return
		}
		tc := regattapb.NewTablesClient(leader.Conn)
		for _, tb := range tables {
			ctx, cancel := context.WithTimeout(context.Background(), 10*time.Second)
			_, err := tc.Create(ctx, &regattapb.CreateTableRequest{Name: tb})
			cancel()
			if err != nil {
				fxErr = fmt.Errorf("create table %s: %w", tb, err)
				return
			}
		}
		for _, tb := range tables {
			if fxErr = leader.WaitTable(tb, 20*time.Second); fxErr != nil {
				return
			}
			if fxErr = follower.WaitTable(tb, 30*time.Second); fxErr != nil {
				return
			}
		}
	})
	return fxErr
}

func TestMain(m *testing.M) {
	code := m.Run()
	if follower != nil {
		follower.Kill()
	}
	if leader != nil {
		leader.Kill()
	}
	os.Exit(code)
}

func proc(target string) *binfx.Proc {
	if target == "follower" {
		return follower
	}
	return leader
}

func readAll(p *binfx.Proc, table string) ([]model.Pair, error) {
	kv := regattapb.NewKVClient(p.Conn)
	ctx, cancel := context.WithTimeout(context.Background(), 20*time.Second)
	defer cancel()
	st, err := kv.IterateRange(ctx, &regattapb.RangeRequest{Table: []byte(table), Key: []byte{0}, RangeEnd: []byte{0}, Linearizable: true})
	if err != nil {
		return nil, err
	}
	var out []model.Pair
	for {
		m, err := st.Recv()
		if err == io.EOF {
			return out, nil
		}
		if err != nil {
			return nil, err
		}
		for _, kv := range m.Kvs {
			out = append(out, model.Pair{K: kv.Key, V: kv.Value})
		}
	}
}

// digest of a table: number of pairs + keys + value lengths/hashes (values of 2 MiB are compared by length and checksum)
func same(a, b []model.Pair) error {
	if len(a) != len(b) {
		return fmt.Errorf("%d pairs vs %d pairs", len(a), len(b))
	}
	for i := range a {
		if !bytes.Equal(a[i].K, b[i].K) || !bytes.Equal(a[i].V, b[i].V) {
			return fmt.Errorf("pair %d: %q (%d value bytes) vs %q (%d value bytes)", i, clip(a[i].K), len(a[i].V), clip(b[i].K), len(b[i].V))
		}
	}
	return nil
}

func clip(b []byte) []byte {
	if len(b) > 20 {
		return b[:20]
	}
	return b
}

var methodPath = map[string]string{
	"Range": "/regatta.v1.KV/Range", "Put": "/regatta.v1.KV/Put", "DeleteRange": "/regatta.v1.KV/DeleteRange", "Txn": "/regatta.v1.KV/Txn",
	"TablesCreate": "/regatta.v1.Tables/Create", "TablesDelete": "/regatta.v1.Tables/Delete", "TablesList": "/regatta.v1.Tables/List",
}

// send issues the request with its exact wire bytes and returns the status code (+ decoded response for valid KV calls).
func send(p *binfx.Proc, r Req) (codes.Code, any, error) {
	ctx, cancel := context.WithTimeout(context.Background(), 30*time.Second)
	defer cancel()
	opts := []grpc.CallOption{grpc.ForceCodec(rawCodec{})}
	if r.Method == "IterateRange" {
		desc := &grpc.StreamDesc{ServerStreams: true}
		st, err := p.Conn.NewStream(ctx, desc, "/regatta.v1.KV/IterateRange", opts...)
		if err != nil {
			return status.Code(err), nil, err
		}
		if err := st.SendMsg(r.Wire); err != nil {
			return status.Code(err), nil, err
		}
		_ = st.CloseSend()
		merged := &regattapb.RangeResponse{}
		for {
			m := &regattapb.RangeResponse{}
			err := st.RecvMsg(m)
			if err == io.EOF {
				return codes.OK, merged, nil
			}
			if err != nil {
				return status.Code(err), nil, err
			}
			merged.Kvs = append(merged.Kvs, m.Kvs...)
			merged.Count += m.Count
			merged.More = m.More
		}
	}
	var resp vtMsg
	switch r.Method {
	case "Range":
		resp = &regattapb.RangeResponse{}
	case "Put":
		resp = &regattapb.PutResponse{}
	case "DeleteRange":
		resp = &regattapb.DeleteRangeResponse{}
	case "Txn":
		resp = &regattapb.TxnResponse{}
	case "TablesCreate":
		resp = &regattapb.CreateTableResponse{}
	case "TablesDelete":
		resp = &regattapb.DeleteTableResponse{}
	case "TablesList":
		resp = &regattapb.ListTablesResponse{}
	}
	err := p.Conn.Invoke(ctx, methodPath[r.Method], r.Wire, resp, opts...)
	return status.Code(err), resp, err
}

func resetState() error {
	kv := regattapb.NewKVClient(leader.Conn)
	for _, tb := range tables {
		ctx, cancel := context.WithTimeout(context.Background(), 20*time.Second)
		_, err := kv.DeleteRange(ctx, &regattapb.DeleteRangeRequest{Table: []byte(tb), Key: []byte{0}, RangeEnd: []byte{0}})
		cancel()
		if err != nil {
			return err
		}
	}
	tc := regattapb.NewTablesClient(leader.Conn)
	for _, x := range []string{"x1", "x2"} {
		ctx, cancel := context.WithTimeout(context.Background(), 10*time.Second)
		_, _ = tc.Delete(ctx, &regattapb.DeleteTableRequest{Name: x})
		cancel()
	}
	return nil
}

// run judges one case.  Two kinds of failure are not verdicts about regatta: a server process that was killed from outside (SIGKILL -
// nothing a request can make a process do to itself) and a harness-side deadline that expired while re-reading a table (wall clock).
func run(c Case, o *vt.Obs) *vt.Failure {
	f := runInner(c, o)
	if f == nil {
		return nil
	}
	for _, p := range []*binfx.Proc{leader, follower} {
		if p != nil && p.KilledFromOutside() {
			vt.Inconclusive(fmt.Sprintf("C16 the %s process was killed from outside (SIGKILL): %s", p.Role, f.Signature))
			return nil
		}
	}
	if strings.HasSuffix(f.Signature, "/table-unreadable") && strings.Contains(f.Msg, "DeadlineExceeded") && leader.Alive() && follower.Alive() {
		vt.Inconclusive("C16 re-reading a table ran into the harness deadline: " + f.Msg)
		return nil
	}
	return f
}

func runInner(c Case, o *vt.Obs) *vt.Failure {
	if err := fixture(); err != nil {
		vt.Inconclusive("C16 fixture: " + err.Error())
		return nil
	}
	if !leader.Alive() || !follower.Alive() {
		vt.Inconclusive("C16: a server process died in an earlier case")
		return nil
	}
	if err := resetState(); err != nil {
		vt.Inconclusive("C16 reset: " + err.Error())
		return nil
	}
	models := map[string]*model.Map{"t1": model.New(), "t2": model.New()}
	xtables := map[string]bool{}
	alive := func(step int, r Req) *vt.Failure {
		for _, p := range []*binfx.Proc{leader, follower} {
			if !p.Alive() {
				return vt.Failf(prop+"/process-terminated", step, "the %s process terminated after %s %v (class %s) sent to the %s: %v\n%s", p.Role, r.Method, r.Defects, r.Class, r.Target, p.ExitErr(), p.LogTail(3000))
			}
		}
		return nil
	}
	unchanged := func(step int, r Req) *vt.Failure {
		for _, tb := range tables {
			got, err := readAll(leader, tb)
			if err != nil {
				if f := alive(step, r); f != nil {
					return f
				}
				if c := status.Code(err); c == codes.DeadlineExceeded || c == codes.Unavailable {
					return errCouldNotJudge
				}
				return vt.Failf(prop+"/table-unreadable", step, "table %s after %s: %v", tb, r.Method, err)
			}
			if err := same(got, models[tb].Pairs); err != nil {
				return vt.Failf(prop+"/refused-request-had-effect", step, "%s %v to the %s was answered with a non-OK status but table %s changed: %v", r.Method, r.Defects, r.Target, tb, err)
			}
		}
		return nil
	}
	resync := func() {
		for _, tb := range tables {
			if got, err := readAll(leader, tb); err == nil {
				m := model.New()
				for _, p := range got {
					m.Put(p.K, p.V)
				}
				models[tb] = m
			}
		}
	}
	nested, toFollower := false, false
	cutShort := false
reqs:
	for i, r := range c.Reqs {
		code, resp, err := send(proc(r.Target), r)
		if f := alive(i, r); f != nil {
			return f
		}
		if code == codes.DeadlineExceeded || code == codes.Unavailable || code == codes.Canceled {
			// could not be judged: the client-side deadline (30 s) expired or the transport was unavailable - a saturated machine, a stream
			// being re-established.  (Seen in a thorough run next to a dozen other jobs: reported as "valid request refused" - a false
			// alarm.)  Neither status is the documented answer to anything; the case ends here, the next one starts from a reset.
			time.Sleep(2 * time.Second)
			// ... unless the transport went away because the request brought the process down (it takes a moment until the exit is seen)
			if f := alive(i, r); f != nil {
				return f
			}
			o.Label("case-cut-short-by-a-timeout-or-unavailable-transport")
			cutShort = true
			break reqs
		}
		switch r.Class {
		case "invalid":
			for _, d := range r.Defects {
				if len(d) > 6 && d[:6] == "nested" && len(r.Defects) == 1 {
					nested = true
				}
			}
			if r.Target == "follower" {
				toFollower = true
			}
			if code == codes.OK {
				resync0 := unchanged(i, r) // for the message: did it also change data?
				effect := "no visible effect"
				if resync0 != nil {
					effect = "and it changed a table"
				}
				return vt.Failf(prop+"/invalid-request-accepted:"+r.Defects[0], i, "%s with defects %v sent to the %s was accepted with status OK (%s)", r.Method, r.Defects, r.Target, effect)
			}
			if r.Code != 0 && code != codes.Code(r.Code) {
				// a follower prefixes leader errors but keeps the code
				return vt.Failf(prop+"/wrong-status-code:"+r.Defects[0], i, "%s with defect %v sent to the %s: status %s (%v), documented %s", r.Method, r.Defects, r.Target, code, err, codes.Code(r.Code))
			}
			if f := unchanged(i, r); f != nil {
				if f == errCouldNotJudge {
					o.Label("case-cut-short-by-a-timeout-or-unavailable-transport")
					cutShort = true
					break reqs
				}
				return f
			}
		case "xtable":
			name := r.Defects[0]
			if xtables[name] {
				// the table was created by an accepted call of this case; it is served once its shard has started - NotFound is not an answer
				if code == codes.NotFound {
					return vt.Failf(prop+"/valid-request-refused", i, "%s on table %q, which an accepted Tables.Create of this case created and nothing deleted: NotFound", r.Method, name)
				}
				o.Label("request-on-a-table-created-in-this-case")
			} else {
				if code != codes.NotFound {
					return vt.Failf(prop+"/invalid-request-accepted:unknown-table", i, "%s on table %q, which does not exist (never created in this case, or deleted by an accepted Tables.Delete): status %s (%v), documented NotFound", r.Method, name, code, err)
				}
				o.Label("request-on-a-table-deleted-or-never-created-in-this-case")
			}
		case "hostile":
			// handled or refused; the state is re-read
			resync()
			o.Label("hostile-request")
		case "valid":
			if code != codes.OK {
				// catalogue calls have legitimate non-OK outcomes (exists / not found)
				if r.Method == "TablesCreate" || r.Method == "TablesDelete" {
					continue
				}
				if d := os.Getenv("VERIF_DUMP_LOGS"); d != "" {
					_ = os.WriteFile(d+"/follower.log", []byte(follower.LogTail(5000000)), 0o644)
					_ = os.WriteFile(d+"/leader.log", []byte(leader.LogTail(5000000)), 0o644)
				}
				return vt.Failf(prop+"/valid-request-refused", i, "valid %s sent to the %s: %v\n--- follower log tail:\n%s\n--- leader log tail:\n%s", r.Method, r.Target, err, grepLog(follower.LogTail(400000)), grepLog(leader.LogTail(200000)))
			}
			if f := applyValid(i, r, resp, models, xtables); f != nil {
				return f
			}
		}
	}
	// at the end the follower converges to the leader for what was written through either API
	if nested {
		o.Label("single-defect-nested-in-a-txn-branch")
	}
	if toFollower {
		o.Label("defect-sent-to-the-follower")
	}
	o.NonTrivial = (nested || toFollower) && !cutShort
	o.Describe = func() string {
		s := ""
		for i, r := range c.Reqs {
			s += fmt.Sprintf("#%d %s->%s class=%s defects=%v wire=%dB\n", i, r.Method, r.Target, r.Class, r.Defects, len(r.Wire))
		}
		return s
	}
	return nil
}

// applyValid applies a valid, accepted request to the model and compares what can be compared.
func applyValid(step int, r Req, resp any, models map[string]*model.Map, xtables map[string]bool) *vt.Failure {
	switch r.Method {
	case "Put":
		q := &regattapb.PutRequest{}
		_ = q.UnmarshalVT(r.Wire)
		m := models[string(q.Table)]
		prev, had := m.Get(q.Key)
		m.Put(q.Key, q.Value)
		pr := resp.(*regattapb.PutResponse)
		if q.PrevKv && had && (pr.PrevKv == nil || !bytes.Equal(pr.PrevKv.Value, prev)) {
			return vt.Failf(prop+"/valid-response-differs", step, "put %q: prev_kv %v, model had %q", q.Key, pr.PrevKv, clip(prev))
		}
	case "DeleteRange":
		q := &regattapb.DeleteRangeRequest{}
		_ = q.UnmarshalVT(r.Wire)
		m := models[string(q.Table)]
		n := 0
		if q.RangeEnd == nil {
			if m.Del(q.Key) {
				n = 1
			}
		} else {
			n = len(m.DelRange(q.Key, q.RangeEnd))
		}
		dr := resp.(*regattapb.DeleteRangeResponse)
		if q.Count && dr.Deleted != int64(n) {
			return vt.Failf(prop+"/valid-response-differs", step, "delete %q..%q: deleted=%d, model %d", q.Key, q.RangeEnd, dr.Deleted, n)
		}
	case "Txn":
		q := &regattapb.TxnRequest{}
		_ = q.UnmarshalVT(r.Wire)
		if r.Target == "follower" && q.IsReadonly() {
			return nil // answered from the follower's own, possibly lagging copy: some prefix (C05/C10/C11 territory)
		}
		m := models[string(q.Table)]
		ok, ops := m.ApplyTxn(q.Compare, q.Success, q.Failure)
		tr := resp.(*regattapb.TxnResponse)
		if tr.Succeeded != ok {
			return vt.Failf(prop+"/valid-response-differs", step, "txn succeeded=%v, model %v", tr.Succeeded, ok)
		}
		if r.Target == "leader" { // the follower answers read-only txns from its own (possibly lagging) copy
			if err := model.CheckOps(ops, tr.Responses); err != nil {
				return vt.Failf(prop+"/valid-response-differs", step, "txn: %v", err)
			}
		}
	case "Range", "IterateRange":
		q := &regattapb.RangeRequest{}
		_ = q.UnmarshalVT(r.Wire)
		if r.Target == "follower" && !q.Linearizable {
			return nil // serializable read on the follower: some prefix, checked by C05/C11
		}
		if r.Target == "follower" {
			return nil
		}
		m := models[string(q.Table)]
		want := m.Read(&regattapb.RequestOp_Range{Key: q.Key, RangeEnd: q.RangeEnd, Limit: q.Limit, KeysOnly: q.KeysOnly, CountOnly: q.CountOnly})
		rr := resp.(*regattapb.RangeResponse)
		got := &regattapb.ResponseOp_Range{Kvs: rr.Kvs, Count: rr.Count, More: rr.More}
		if err := model.CheckRangeResponse(want, got, true); err != nil {
			return vt.Failf(prop+"/valid-response-differs", step, "%s %q..%q: %v", r.Method, q.Key, q.RangeEnd, err)
		}
	case "TablesCreate":
		q := &regattapb.CreateTableRequest{}
		_ = q.UnmarshalVT(r.Wire)
		xtables[q.Name] = true
	case "TablesDelete":
		q := &regattapb.DeleteTableRequest{}
		_ = q.UnmarshalVT(r.Wire)
		delete(xtables, q.Name)
	case "TablesList":
		lr := resp.(*regattapb.ListTablesResponse)
		var got []string
		for _, t := range lr.Tables {
			got = append(got, t.Name)
		}
		sort.Strings(got)
		if r.Target == "leader" {
			want := append([]string(nil), tables...)
			for x := range xtables {
				want = append(want, x)
			}
			sort.Strings(want)
			if fmt.Sprint(got) != fmt.Sprint(want) {
				return vt.Failf(prop+"/valid-response-differs", step, "table listing %v, expected %v", got, want)
			}
		}
	}
	return nil
}

func TestC16(t *testing.T)        { vt.Check(t, prop, genCase, run) }
func TestC16Replay(t *testing.T)  { vt.Replay(t, prop, run) }
func TestC16Regress(t *testing.T) { vt.Regress(t, prop, "testdata", run) }

func grepLog(s string) string {
	out := ""
	for _, ln := range strings.Split(s, "\n") {
		if strings.Contains(ln, "replication") || strings.Contains(ln, "rror") || strings.Contains(ln, "anic") {
			if len(ln) > 400 {
				ln = ln[:400]
			}
			out += ln + "\n"
		}
	}
	if len(out) > 6000 {
		out = out[len(out)-6000:]
	}
	return out
}
