//go:build verif

package c14

import "os"

func removeFile(p string) { _ = os.Remove(p) }
