//go:build verif

package c14

// TestC14Cluster: the catalogue rules on a REAL 3-node cluster (three storage.Engine instances in one process, one metadata raft group:
// real kv.RaftStore proposals, real raft batching of proposals committed together, stale local reads).  Rounds of catalogue calls issued
// CONCURRENTLY, one per node: CreateTable / DeleteTable over two names.  Oracle: every id ever assigned is unique and larger than every
// id whose create had finished before this create started; per round and name the outcomes must be those of some sequential order of the
// calls on the catalogue the round started with (a call may also have failed without effect - lost a race); after the round every
// node's listing converges to the catalogue that order leaves (name -> id of the create that won).

import (
	"context"
	"errors"
	"fmt"
	"sort"
	"sync"
	"sync/atomic"
	"testing"
	"time"

	serrors "github.com/jamf/regatta/storage/errors"
	"github.com/jamf/regatta/storage/kv"
	"pgregory.net/rapid"

	"verifharness/internal/enginefx"
	"verifharness/internal/vt"
)

type CCall struct {
	Kind string `json:"kind"` // create | delete | ""
	Name string `json:"name"`
}

type CatClusterCase struct {
	Rounds [][]CCall `json:"rounds"` // per round one call per node
}

func genCatCluster(t *rapid.T) CatClusterCase {
	c := CatClusterCase{}
	n := rapid.IntRange(2, 5).Draw(t, "rounds")
	for i := 0; i < n; i++ {
		var r []CCall
		for node := 0; node < 3; node++ {
			r = append(r, CCall{Kind: rapid.SampledFrom([]string{"create", "create", "create", "delete", ""}).Draw(t, "kind"), Name: rapid.SampledFrom([]string{"a", "a", "b"}).Draw(t, "name")})
		}
		c.Rounds = append(c.Rounds, r)
	}
	return c
}

var (
	cl14Once sync.Once
	cl14Fx   []*enginefx.Fixture
	cl14Err  error
	cl14No   int
)

type cout struct {
	err        error
	id         uint64
	start, end int64
}

func runCatCluster(c CatClusterCase, o *vt.Obs) *vt.Failure {
	cl14Once.Do(func() { cl14Fx, cl14Err = enginefx.StartCluster(3, enginefx.Opts{}) })
	if cl14Err != nil {
		vt.Inconclusive("C14 cluster fixture: " + cl14Err.Error())
		return nil
	}
	cl14No++
	prefix := fmt.Sprintf("c%d-", cl14No)
	defer func() {
		for _, n := range []string{"a", "b"} {
			_ = cl14Fx[0].E.DeleteTable(prefix + n)
		}
		for k := 0; k < 2; k++ {
			for _, f := range cl14Fx {
				_ = f.E.Manager.VerifReconcile()
			}
		}
	}()
	var clock atomic.Int64
	catalogue := map[string]uint64{} // name -> id
	type assigned struct {
		id         uint64
		start, end int64
		name       string
	}
	var ids []assigned
	contended := 0
	for ri, round := range c.Rounds {
		outs := make([]cout, 3)
		var wg sync.WaitGroup
		start := make(chan struct{})
		for node, call := range round {
			if call.Kind == "" {
				continue
			}
			wg.Add(1)
			go func(node int, call CCall) {
				defer wg.Done()
				<-start
				e := cl14Fx[node].E
				outs[node].start = clock.Add(1)
				if call.Kind == "create" {
					tb, err := e.CreateTable(prefix + call.Name)
					outs[node].err, outs[node].id = err, tb.ClusterID
				} else {
					outs[node].err = e.DeleteTable(prefix + call.Name)
				}
				outs[node].end = clock.Add(1)
			}(node, call)
		}
		close(start)
		wg.Wait()
		for node, call := range round {
			if call.Kind == "" {
				continue
			}
			err := outs[node].err
			if err != nil && !errors.Is(err, serrors.ErrTableExists) && !errors.Is(err, serrors.ErrTableNotFound) && !errors.Is(err, kv.ErrVersionMismatch) {
				if vtTimeout(err) {
					vt.Inconclusive(fmt.Sprintf("C14 cluster: node %d %s %s: %v", node+1, call.Kind, call.Name, err))
					return nil
				}
				return vt.Failf(prop+"/unexpected-error", ri, "node %d %s %q: %v", node+1, call.Kind, call.Name, err)
			}
			if call.Kind == "create" && err == nil {
				id := outs[node].id
				if id <= 10000 {
					return vt.Failf(prop+"/id-out-of-range", ri, "create of %q on node %d was assigned id %d", call.Name, node+1, id)
				}
				for _, a := range ids {
					if a.id == id {
						return vt.Failf(prop+"/id-reused", ri, "id %d assigned to %q (node %d) had already been assigned to %q", id, call.Name, node+1, a.name)
					}
					if a.end < outs[node].start && a.id > id {
						return vt.Failf(prop+"/id-not-greater", ri, "create of %q got id %d although the create of %q, which had finished before it started, got id %d", call.Name, id, a.name, a.id)
					}
				}
				ids = append(ids, assigned{id, outs[node].start, outs[node].end, call.Name})
			}
		}
		// per name: outcomes explained by some order; a failed call may also have lost a race (no effect)
		for _, name := range []string{"a", "b"} {
			var calls []int
			for node, call := range round {
				if call.Kind != "" && call.Name == name {
					calls = append(calls, node)
				}
			}
			if len(calls) == 0 {
				continue
			}
			if len(calls) >= 2 {
				contended++
			}
			startID, startLive := catalogue[name], catalogue[name] != 0
			var finals []uint64 // possible final ids (0 = absent)
			// (a delete checks existence and then removes the record with the version it read; a delete that races with another delete
			// of the same table finds the record gone at its write, which the store treats as done: both report success.  The table did
			// exist when each call looked - accepted, like the gated race test does.)
			var perm func(rest []int, live bool, id uint64, everLive bool)
			perm = func(rest []int, live bool, id uint64, everLive bool) {
				if len(rest) == 0 {
					finals = append(finals, id)
					return
				}
				for i, node := range rest {
					others := append(append([]int(nil), rest[:i]...), rest[i+1:]...)
					ok := outs[node].err == nil
					if round[node].Kind == "create" {
						if ok && !live {
							perm(others, true, outs[node].id, true)
						}
						if !ok {
							perm(others, live, id, everLive) // exists, or lost a race
						}
					} else {
						if ok && live {
							perm(others, false, 0, everLive)
						}
						if ok && !live && everLive {
							perm(others, false, 0, everLive) // raced with another delete of the same table
						}
						if !ok {
							perm(others, live, id, everLive) // not found, or lost a race
						}
					}
				}
			}
			perm(calls, startLive, startID, startLive)
			if len(finals) == 0 {
				desc := ""
				for _, node := range calls {
					desc += fmt.Sprintf(" node%d:%s->%v(id %d)", node+1, round[node].Kind, outs[node].err, outs[node].id)
				}
				return vt.Failf(prop+"/outcomes-not-explained-by-any-order", ri, "round %d, table %q (before: id %d): concurrent calls%s - no sequential order explains these outcomes (e.g. two creates of one name succeeded, or a delete of an absent table succeeded)", ri, name, startID, desc)
			}
			// every node's lookup shows what that order leaves.  A node reads the catalogue from its local copy of the metadata state machine;
			// a linearizable read through the raft group first (SyncRead) brings that copy up to everything acknowledged so far, so the
			// comparison needs no waiting and no timing.
			sort.Slice(finals, func(i, j int) bool { return finals[i] < finals[j] })
			var vals []uint64
			for n, f := range cl14Fx {
				ctx, cancel := context.WithTimeout(context.Background(), 30*time.Second)
				_, serr := f.E.NodeHost.SyncRead(ctx, 1000, kv.QueryExist{Key: "/tables/" + prefix + name})
				cancel()
				if serr != nil {
					vt.Inconclusive(fmt.Sprintf("C14 cluster: linearizable catalogue read on node %d: %v", n+1, serr))
					return nil
				}
				tb, err := f.E.GetTable(prefix + name)
				id := tb.ClusterID
				if errors.Is(err, serrors.ErrTableNotFound) {
					id = 0
				} else if err != nil {
					return vt.Failf(prop+"/lookup-error", ri, "node %d lookup of %q: %v", n+1, name, err)
				}
				vals = append(vals, id)
			}
			for n, v := range vals {
				if v != vals[0] {
					return vt.Failf(prop+"/lookup-differs", ri, "after round %d (and a linearizable read on every node) node 1 resolves table %q to id %d but node %d resolves it to id %d (0 = not found); ids the round can have left: %v", ri, name, vals[0], n+1, v, finals)
				}
			}
			ok := false
			for _, fid := range finals {
				if fid == vals[0] {
					ok = true
				}
			}
			if !ok {
				return vt.Failf(prop+"/lookup-differs", ri, "after round %d every node resolves table %q to id %d; the orders that explain the calls' outcomes leave id in %v", ri, name, vals[0], finals)
			}
			if vals[0] == 0 {
				delete(catalogue, name)
			} else {
				catalogue[name] = vals[0]
			}
		}
	}
	o.NonTrivial = contended >= 1
	o.LabelN("contended-rounds", contended)
	o.Describe = func() string { return fmt.Sprintf("%+v", c.Rounds) }
	return nil
}

func vtTimeout(err error) bool {
	s := err.Error()
	for _, p := range []string{"timeout", "deadline exceeded", "too busy"} {
		if len(s) >= len(p) && containsStr(s, p) {
			return true
		}
	}
	return false
}

func containsStr(s, p string) bool {
	for i := 0; i+len(p) <= len(s); i++ {
		if s[i:i+len(p)] == p {
			return true
		}
	}
	return false
}

func TestC14Cluster(t *testing.T)        { vt.Check(t, prop, genCatCluster, runCatCluster) }
func TestC14ClusterReplay(t *testing.T)  { vt.Replay(t, prop, runCatCluster) }
func TestC14ClusterRegress(t *testing.T) { vt.Regress(t, prop, "testdata", runCatCluster) }
