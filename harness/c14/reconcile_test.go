//go:build verif

package c14

// TestC14Reconcile: catalogue changes while reconciliation rounds run.  In production the table manager reconciles on a timer, on
// every node, whatever the API is doing at that moment.  Here a goroutine runs reconciliation rounds back to back (and, in half of the
// cases, another one keeps asking the node host for its shard list, which contends for the lock a shard start needs) while the main
// goroutine creates and deletes tables one call at a time.  Oracle (independent of timing; timing only decides how often a round lands
// inside a call): creating a name that is free succeeds, deleting an existing table succeeds, the assigned ids grow, and once everything has
// stopped one more round succeeds and leaves exactly the catalogued shards running.

import (
	"fmt"
	"sort"
	"sync"
	"sync/atomic"
	"testing"
	"time"

	"github.com/lni/dragonboat/v4"
	"pgregory.net/rapid"

	"verifharness/internal/enginefx"
	"verifharness/internal/vt"
)

type RecCase struct {
	Reconcilers int     `json:"reconcilers"`
	InfoSpinner bool    `json:"info_spinner"`
	Calls       []RCall `json:"calls"`
}

func genRecCase(t *rapid.T) RecCase {
	// (one reconciler: a table manager has ONE reconcile loop; rounds never overlap each other)
	c := RecCase{Reconcilers: 1, InfoSpinner: rapid.Bool().Draw(t, "info")}
	names := []string{"r0", "r1", "r2", "r3", "r4", "r5"}
	restores := 0
	for i, n := 0, rapid.IntRange(4, 30).Draw(t, "n"); i < n; i++ {
		// (restore: a small table stream loaded into the name - an existing table or, more interesting here, a NEW name: the catalogue
		// then holds a record without a shard of its own but with a recovery shard, which reconciliation has to leave alone while it is
		// being filled; seeded change C14-L: such records were hidden from the reconciler, which stopped the recovery shard)
		call := RCall{Kind: rapid.SampledFrom([]string{"create", "create", "create", "delete", "delete", "restore"}).Draw(t, "kind"), Name: rapid.SampledFrom(names).Draw(t, "name")}
		if call.Kind == "restore" {
			if restores++; restores > 2 { // a restore takes half a second (its leader wait)
				call.Kind = "create"
			}
		}
		c.Calls = append(c.Calls, call)
	}
	return c
}

func runRecCase(c RecCase, o *vt.Obs) *vt.Failure {
	fx, err := enginefx.Start(enginefx.Opts{MaxInMemLogSize: 6 * 1024 * 1024})
	if err != nil {
		vt.Inconclusive("C14 engine fixture: " + err.Error())
		return nil
	}
	defer fx.Stop()
	e := fx.E
	var stop atomic.Bool
	var wg sync.WaitGroup
	var mu, roundMu sync.Mutex // roundMu: held during every round
	var recErr error
	rounds := 0
	for r := 0; r < c.Reconcilers; r++ {
		wg.Add(1)
		go func() {
			defer wg.Done()
			for !stop.Load() {
				roundMu.Lock()
				err := e.Manager.VerifReconcile()
				roundMu.Unlock()
				mu.Lock()
				rounds++
				if err != nil && recErr == nil {
					recErr = err
				}
				mu.Unlock()
			}
		}()
	}
	if c.InfoSpinner {
		wg.Add(1)
		go func() {
			defer wg.Done()
			for !stop.Load() {
				_ = e.NodeHost.GetNodeHostInfo(dragonboat.DefaultNodeHostInfoOption)
			}
		}()
	}
	finish := func() { stop.Store(true); wg.Wait() }
	live := map[string]uint64{}
	var maxID uint64
	created, restores := 0, 0
	for i, call := range c.Calls {
		switch call.Kind {
		case "create":
			tb, err := e.CreateTable(call.Name)
			_, exists := live[call.Name]
			if exists {
				if err == nil {
					finish()
					return vt.Failf(prop+"/two-creates-of-one-name-succeeded", i, "create of %q succeeded although the table exists", call.Name)
				}
				continue
			}
			if err != nil {
				finish()
				return vt.Failf(prop+"/create-refused", i, "create of the free name %q while reconciliation rounds are running: %v", call.Name, err)
			}
			if tb.ClusterID <= maxID {
				finish()
				return vt.Failf(prop+"/id-not-fresh", i, "table %q got id %d, ids up to %d were assigned before", call.Name, tb.ClusterID, maxID)
			}
			maxID = tb.ClusterID
			live[call.Name] = tb.ClusterID
			created++
		case "restore":
			doRestore := func() error {
				rf, _, err := restoreStream(call.Name, 2, i)
				if err != nil {
					return fmt.Errorf("harness: restore stream: timeout waiting for scratch space: %w", err)
				}
				defer removeFile(rf.Path())
				defer rf.Close()
				return e.Restore(call.Name, rf)
			}
			rerr := doRestore()
			if vt.TransientErr(rerr) {
				// The restore ran out of time (its own deadline is a minute).  A saturated machine - or the rounds?  A control decides
				// without looking at the clock: the same restore with the reconciler held still, then once more with the rounds running.
				// Only "fails with rounds, works without, fails with rounds again" is blamed on reconciliation (a recovery shard that IS
				// catalogued must be left alone by it); everything else stays unjudged.
				roundMu.Lock()
				cerr := doRestore()
				roundMu.Unlock()
				if cerr != nil {
					finish()
					vt.Inconclusive(fmt.Sprintf("C14 restore into %q timed out with and without reconciliation rounds: %v / %v", call.Name, rerr, cerr))
					return nil
				}
				if live[call.Name] == 0 {
					// the name was new: make it new again, so that the third run meets what the first one met
					if derr := e.DeleteTable(call.Name); derr != nil {
						finish()
						vt.Inconclusive(fmt.Sprintf("C14 control run: delete of %q: %v", call.Name, derr))
						return nil
					}
				}
				if rerr2 := doRestore(); rerr2 != nil {
					finish()
					return vt.Failf(prop+"/restore-broken-by-reconciliation", i, "restore into %q (catalogued before: %v) fails while reconciliation rounds run (%v), works with the reconciler held still, and fails again with the rounds running (%v): the rounds do not leave the catalogued recovery shard alone", call.Name, live[call.Name] != 0, rerr, rerr2)
				}
				rerr = nil
			}
			if rerr != nil {
				finish()
				return vt.Failf(prop+"/restore-error", i, "restore into %q (catalogued before: %v) while reconciliation rounds are running: %v", call.Name, live[call.Name] != 0, rerr)
			}
			tb, err := e.GetTable(call.Name)
			if err != nil {
				finish()
				return vt.Failf(prop+"/restored-table-missing", i, "after a restore into %q: %v", call.Name, err)
			}
			if tb.ClusterID <= maxID {
				finish()
				return vt.Failf(prop+"/id-not-fresh", i, "restored table %q is served from shard %d, ids up to %d were assigned before", call.Name, tb.ClusterID, maxID)
			}
			maxID = tb.ClusterID
			live[call.Name] = tb.ClusterID
			restores++
		case "delete":
			err := e.DeleteTable(call.Name)
			if _, exists := live[call.Name]; exists {
				if err != nil {
					finish()
					return vt.Failf(prop+"/delete-refused", i, "delete of the existing table %q while reconciliation rounds are running: %v", call.Name, err)
				}
				delete(live, call.Name)
			}
		}
	}
	finish()
	if recErr != nil {
		// a round that raced with a call may give up (stopping a shard that is just being started, ...): the manager logs it and the
		// next round starts over - not an assertion (the first version of this test made it one: a false alarm, see DESIGN section 6)
		o.Label("a-round-racing-with-a-call-gave-up")
	}
	// with everything quiet a bounded number of rounds gets through (a shard that is still initialising cannot be stopped yet: that
	// round gives up, the next one tries again)
	var ferr error
	for k := 0; k < 50; k++ {
		if ferr = e.Manager.VerifReconcile(); ferr == nil {
			break
		}
		time.Sleep(20 * time.Millisecond)
	}
	if ferr != nil {
		return vt.Failf(prop+"/reconcile-error", len(c.Calls), "with no catalogue change going on, 50 reconciliation rounds in a row failed, the last one with: %v", ferr)
	}
	time.Sleep(5 * time.Millisecond)
	var running, want []uint64
	for _, si := range e.NodeHost.GetNodeHostInfo(dragonboat.DefaultNodeHostInfoOption).ShardInfoList {
		if si.ShardID > 10000 {
			running = append(running, si.ShardID)
		}
	}
	for _, id := range live {
		want = append(want, id)
	}
	sort.Slice(running, func(i, j int) bool { return running[i] < running[j] })
	sort.Slice(want, func(i, j int) bool { return want[i] < want[j] })
	if fmt.Sprint(running) != fmt.Sprint(want) {
		return vt.Failf(prop+"/reconcile-shards", len(c.Calls), "after the last reconciliation round the node runs table shards %v, the catalogue holds %v", running, want)
	}
	if restores > 0 {
		o.Label("restore-while-reconciliation-rounds-run")
	}
	o.LabelN("reconciliation-rounds-during-the-calls", rounds)
	o.NonTrivial = created >= 2 && rounds >= len(c.Calls)
	o.Describe = func() string { return fmt.Sprintf("%+v", c) }
	return nil
}

func TestC14Reconcile(t *testing.T)        { vt.Check(t, prop, genRecCase, runRecCase) }
func TestC14ReconcileReplay(t *testing.T)  { vt.Replay(t, prop, runRecCase) }
func TestC14ReconcileRegress(t *testing.T) { vt.Regress(t, prop, "testdata", runRecCase) }
