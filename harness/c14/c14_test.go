//go:build verif

// C14 — table catalogue: unique names, never-reused ids, empty when (re)created.
package c14

import (
	"bytes"
	"context"
	"errors"
	"fmt"
	"sort"
	"strings"
	"sync"
	"testing"
	"time"

	"github.com/jamf/regatta/regattapb"
	"github.com/jamf/regatta/replication/snapshot"
	serrors "github.com/jamf/regatta/storage/errors"
	"github.com/jamf/regatta/storage/kv"
	"github.com/jamf/regatta/storage/table"
	"github.com/lni/dragonboat/v4"
	"pgregory.net/rapid"

	"verifharness/internal/enginefx"
	"verifharness/internal/gate"
	"verifharness/internal/model"
	"verifharness/internal/replfx"
	"verifharness/internal/vt"
)

const prop = "C14"

// ---- domain A: real engine ------------------------------------------------------------------------

type Act struct {
	Kind string `json:"kind"` // create | delete | restore | restore-interrupted | restart | list | get | put | range | reconcile | cleanup
	Name string `json:"name"`
	K    []byte `json:"k,omitempty"`
	V    []byte `json:"v,omitempty"`
	N    int    `json:"n,omitempty"` // restore: number of records in the stream
}

type Case struct {
	Acts []Act `json:"acts"`
}

// plain names: no path separator, no glob syntax - among them words the catalogue itself uses as path elements below /tables/<name>/
var plainNames = []string{"a", "b", "c", "sys", "lease"}

// names that look like metadata paths or glob syntax; the API documents no restriction on table names
var oddNames = []string{"x/y", "a/lease", "sys/idseq", "*", "[a]", "a*", "a?"}

func genName(t *rapid.T, odd bool) string {
	if odd && rapid.IntRange(0, 2).Draw(t, "oddname") == 0 {
		return rapid.SampledFrom(oddNames).Draw(t, "odd")
	}
	return rapid.SampledFrom(plainNames).Draw(t, "name")
}

func genActs(t *rapid.T, odd bool) Case {
	n := rapid.IntRange(3, 20).Draw(t, "n")
	c := Case{}
	if !odd && rapid.IntRange(0, 2).Draw(t, "pending-recovery-scenario") == 0 {
		// aimed prefix: a catalogue record that carries a pending recovery shard (restore broken half way) when the node restarts or
		// reconciles, optionally with another table deleted meanwhile - reconciliation has to start / stop exactly the right shards
		x := rapid.SampledFrom(plainNames).Draw(t, "scn-table")
		y := rapid.SampledFrom(plainNames).Draw(t, "scn-other")
		c.Acts = append(c.Acts, Act{Kind: "create", Name: x}, Act{Kind: "create", Name: y})
		if rapid.Bool().Draw(t, "scn-put") {
			c.Acts = append(c.Acts, Act{Kind: "put", Name: x, K: []byte("k1"), V: []byte("scn")})
		}
		c.Acts = append(c.Acts, Act{Kind: "restore-interrupted", Name: x, N: rapid.IntRange(0, 3).Draw(t, "scn-records")})
		if rapid.Bool().Draw(t, "scn-delete-other") {
			c.Acts = append(c.Acts, Act{Kind: "delete", Name: y})
		}
		if rapid.Bool().Draw(t, "scn-cleanup") {
			c.Acts = append(c.Acts, Act{Kind: "reconcile", Name: x}, Act{Kind: "cleanup", Name: x})
		}
		c.Acts = append(c.Acts, Act{Kind: rapid.SampledFrom([]string{"restart", "restart", "reconcile"}).Draw(t, "scn-then"), Name: x})
	}
	for i := 0; i < n; i++ {
		k := rapid.IntRange(0, 19).Draw(t, "kind")
		a := Act{Name: genName(t, odd)}
		switch {
		case k <= 4:
			a.Kind = "create"
		case k <= 7:
			a.Kind = "delete"
		case k == 8:
			a.Kind = "restore"
			a.N = rapid.IntRange(0, 4).Draw(t, "records")
			if rapid.IntRange(0, 2).Draw(t, "interrupted") == 0 {
				a.Kind = "restore-interrupted" // the stream breaks after N records: the restore fails half way
			}
		case k == 9:
			a.Kind = "list"
		case k == 10:
			a.Kind = "get"
		case k <= 15:
			a.Kind = "put"
			a.K = []byte(rapid.SampledFrom([]string{"k1", "k2", "k3"}).Draw(t, "k"))
			a.V = []byte(fmt.Sprintf("v%d", i))
		case k == 16:
			a.Kind = "range"
		case k == 17:
			a.Kind = "restart" // engine restart (same disks): running shards are gone until the next reconciliation
		case k == 18:
			a.Kind = "reconcile"
		default:
			a.Kind = "cleanup" // the delayed removal of the data of stopped shards falls due (grace period over) and a cleanup round runs
		}
		c.Acts = append(c.Acts, a)
	}
	return c
}

func genCase(t *rapid.T) Case    { return genActs(t, false) }
func genOddCase(t *rapid.T) Case { return genActs(t, true) }

type mtable struct {
	id      uint64
	content *model.Map
}

func restoreStream(name string, n int, tag int) (*restoreFile, []model.Pair, error) {
	sf, err := snapshot.NewTemp()
	if err != nil {
		return nil, nil, err
	}
	var pairs []model.Pair
	for i := 0; i < n; i++ {
		k, v := []byte(fmt.Sprintf("r%d", i)), []byte(fmt.Sprintf("restored-%d-%d", tag, i))
		cmd := &regattapb.Command{Table: []byte(name), Type: regattapb.Command_PUT, Kv: &regattapb.KeyValue{Key: k, Value: v}}
		b, _ := cmd.MarshalVT()
		if _, err := sf.Write(b); err != nil {
			return nil, nil, err
		}
		pairs = append(pairs, model.Pair{K: k, V: v})
	}
	if err := sf.Sync(); err != nil {
		return nil, nil, err
	}
	if _, err := sf.Seek(0, 0); err != nil {
		return nil, nil, err
	}
	return &restoreFile{sf}, pairs, nil
}

type snapFile interface {
	Read(p []byte) (int, error)
	Close() error
	Path() string
}

type restoreFile struct{ snapFile }

// breakingReader passes `after` records through and then fails like a broken stream.
type breakingReader struct {
	r     *restoreFile
	after int
	n     int
}

func (b *breakingReader) Read(p []byte) (int, error) {
	if b.n >= b.after {
		return 0, errors.New("stream broken")
	}
	b.n++
	return b.r.Read(p)
}

const oddNameSig = prop + "/table-name-collides-with-metadata-keyspace"

// runEngine wraps the execution: once an action on a path-like / glob-like table name has been executed, any
// failure is attributed to the (known) name-collision finding.
func runEngine(c Case, o *vt.Obs) *vt.Failure {
	oddSeen := -1
	f := runEngineInner(c, o, &oddSeen)
	if f != nil && oddSeen >= 0 && f.Step >= oddSeen {
		f.Msg = fmt.Sprintf("after an action on table name %q (step %d): [%s] %s", c.Acts[oddSeen].Name, oddSeen, f.Signature, f.Msg)
		f.Signature = oddNameSig
	}
	return f
}

func runEngineInner(c Case, o *vt.Obs, oddSeen *int) *vt.Failure {
	// a fresh engine per case: ids must be compared across the whole life of a catalogue
	fx, err := enginefx.Start(enginefx.Opts{MaxInMemLogSize: 6 * 1024 * 1024})
	if err != nil {
		vt.Inconclusive("C14 engine fixture: " + err.Error())
		return nil
	}
	defer fx.Stop()
	e := fx.E
	cat := map[string]*mtable{}
	maxID := uint64(0)
	recreated, restoredBetween, oddUsed := false, false, false
	everHeldData := map[string]bool{}
	createsSinceRestore := 0
	ctxT := func() (context.Context, context.CancelFunc) {
		return context.WithTimeout(context.Background(), 20*time.Second)
	}

	checkID := func(step int, what string, id uint64) *vt.Failure {
		if id <= maxID {
			return vt.Failf(prop+"/id-not-fresh", step, "%s was assigned shard id %d, an id >= it (%d) was assigned before", what, id, maxID)
		}
		maxID = id
		return nil
	}
	checkOthers := func(step int, except string) *vt.Failure {
		names := make([]string, 0, len(cat))
		for n := range cat {
			names = append(names, n)
		}
		sort.Strings(names)
		for _, n := range names {
			if n == except {
				continue
			}
			got, err := replfx.ReadAll(e, n, true)
			if err != nil {
				return vt.Failf(prop+"/table-unreadable", step, "table %q: %v", n, err)
			}
			if err := same(got, cat[n].content.Pairs); err != nil {
				return vt.Failf(prop+"/other-table-changed", step, "an operation on %q changed table %q: %v", except, n, err)
			}
		}
		return nil
	}
	interrupted, restarted := false, false
	cleanups, cleanupsSinceRestart := 0, 0
	// checkAll: every catalogued table holds exactly what the model says
	checkAll := func(step int, sig, when string) *vt.Failure {
		names := make([]string, 0, len(cat))
		for n := range cat {
			names = append(names, n)
		}
		sort.Strings(names)
		for _, n := range names {
			got, err := replfx.ReadAll(e, n, true)
			if err != nil {
				if strings.Contains(err.Error(), "deadline") || strings.Contains(err.Error(), "timeout") || strings.Contains(err.Error(), "busy") {
					vt.Inconclusive(fmt.Sprintf("C14 reading table %q %s: %v", n, when, err))
					return nil
				}
				return vt.Failf(prop+"/table-unreadable", step, "table %q %s: %v", n, when, err)
			}
			if err := same(got, cat[n].content.Pairs); err != nil {
				return vt.Failf(prop+sig, step, "table %q %s: %v", n, when, err)
			}
		}
		return nil
	}
	// checkRunning: the running table shards are exactly the catalogued ones (cluster ids and pending recovery ids)
	checkRunning := func(step int) *vt.Failure {
		ts, err := e.GetTables()
		if err != nil {
			return vt.Failf(prop+"/list-error", step, "%v", err)
		}
		want := map[uint64]string{}
		for _, t := range ts {
			if t.ClusterID != 0 {
				want[t.ClusterID] = t.Name
			}
			if t.RecoverID != 0 {
				want[t.RecoverID] = t.Name + " (recovery shard)"
			}
		}
		nhi := e.NodeHost.GetNodeHostInfo(dragonboat.DefaultNodeHostInfoOption)
		running := map[uint64]bool{}
		for _, si := range nhi.ShardInfoList {
			if si.ShardID > 10000 {
				running[si.ShardID] = true
			}
		}
		for id, n := range want {
			if !running[id] {
				return vt.Failf(prop+"/catalogued-shard-not-running", step, "after reconciliation shard %d of table %s is not running (running: %v)", id, n, running)
			}
			delete(running, id)
		}
		if len(running) != 0 {
			return vt.Failf(prop+"/uncatalogued-shard-running", step, "after reconciliation shards %v run although no catalogued table uses them", running)
		}
		return nil
	}
	for i, a := range c.Acts {
		if strings.ContainsAny(a.Name, "/*[?") {
			oddUsed = true
			if *oddSeen < 0 {
				*oddSeen = i
			}
		}
		_, exists := cat[a.Name]
		switch a.Kind {
		case "create":
			t, err := e.CreateTable(a.Name)
			if exists {
				// "succeeds only if no table of that name exists": WHICH error refuses it is not stated
				if err == nil {
					return vt.Failf(prop+"/duplicate-create-accepted", i, "create of existing table %q succeeded (id %d)", a.Name, t.ClusterID)
				}
				continue
			}
			if err != nil {
				return vt.Failf(prop+"/create-refused", i, "create of absent table %q failed: %v", a.Name, err)
			}
			if f := checkID(i, fmt.Sprintf("table %q", a.Name), t.ClusterID); f != nil {
				return f
			}
			if err := fx.WaitTablePatient(a.Name, 15*time.Second); err != nil {
				vt.Inconclusive(fmt.Sprintf("C14 created table %q did not become ready: %v", a.Name, err))
				return nil
			}
			cat[a.Name] = &mtable{id: t.ClusterID, content: model.New()}
			if everHeldData[a.Name] {
				recreated = true
			}
			createsSinceRestore++
			// a newly created (also: re-created) table is empty
			got, err := replfx.ReadAll(e, a.Name, true)
			if err != nil {
				return vt.Failf(prop+"/table-unreadable", i, "new table %q: %v", a.Name, err)
			}
			if len(got) != 0 {
				return vt.Failf(prop+"/new-table-not-empty", i, "table %q (id %d) created under a previously used name holds %d pairs, first %q=%q", a.Name, t.ClusterID, len(got), got[0].K, got[0].V)
			}
		case "delete":
			err := e.DeleteTable(a.Name)
			if !exists {
				// "deleting succeeds only if it exists": WHICH error refuses it is not stated
				if err == nil {
					return vt.Failf(prop+"/delete-of-absent-table", i, "delete of absent table %q succeeded", a.Name)
				}
				continue
			}
			if err != nil {
				return vt.Failf(prop+"/delete-refused", i, "delete of existing table %q: %v", a.Name, err)
			}
			delete(cat, a.Name)
		case "restore":
			rf, pairs, err := restoreStream(a.Name, a.N, i)
			if err != nil {
				vt.Inconclusive("C14 restore stream: " + err.Error())
				return nil
			}
			rerr := e.Restore(a.Name, rf)
			_ = rf.Close()
			removeFile(rf.Path())
			if rerr != nil {
				return vt.Failf(prop+"/restore-error", i, "restore of %q: %v", a.Name, rerr)
			}
			t, err := e.GetTable(a.Name)
			if err != nil {
				return vt.Failf(prop+"/restored-table-missing", i, "%v", err)
			}
			if f := checkID(i, fmt.Sprintf("restored table %q", a.Name), t.ClusterID); f != nil {
				return f
			}
			if err := fx.WaitTablePatient(a.Name, 15*time.Second); err != nil {
				vt.Inconclusive(fmt.Sprintf("C14 restored table %q did not become ready: %v", a.Name, err))
				return nil
			}
			m := model.New()
			for _, p := range pairs {
				m.Put(p.K, p.V)
			}
			cat[a.Name] = &mtable{id: t.ClusterID, content: m}
			if len(pairs) > 0 {
				everHeldData[a.Name] = true
			}
			if createsSinceRestore > 0 {
				restoredBetween = true
			}
			createsSinceRestore = 0
		case "restore-interrupted":
			if !exists {
				continue // only existing tables: a failed restore of an absent table leaves a half-created record the statement does not rule on
			}
			rf, _, err := restoreStream(a.Name, a.N+1, i)
			if err != nil {
				vt.Inconclusive("C14 restore stream: " + err.Error())
				return nil
			}
			rerr := e.Restore(a.Name, &breakingReader{r: rf, after: a.N})
			_ = rf.Close()
			removeFile(rf.Path())
			if rerr == nil {
				return vt.Failf(prop+"/restore-error", i, "restore of %q from a stream that breaks after %d records reported success", a.Name, a.N)
			}
			// the table is unchanged: same id, same content; the id taken for the recovery shard is burnt
			t, err := e.GetTable(a.Name)
			if err != nil || t.ClusterID != cat[a.Name].id {
				return vt.Failf(prop+"/lookup-differs", i, "after a failed restore table %q has id %d (err %v), before %d", a.Name, t.ClusterID, err, cat[a.Name].id)
			}
			if t.RecoverID != 0 {
				if t.RecoverID <= maxID {
					return vt.Failf(prop+"/id-not-fresh", i, "recovery shard id %d of %q is not greater than every id assigned before (%d)", t.RecoverID, a.Name, maxID)
				}
				maxID = t.RecoverID
				interrupted = true
			}
			got, err := replfx.ReadAll(e, a.Name, true)
			if err != nil {
				return vt.Failf(prop+"/table-unreadable", i, "table %q after a failed restore: %v", a.Name, err)
			}
			if err := same(got, cat[a.Name].content.Pairs); err != nil {
				return vt.Failf(prop+"/content-differs", i, "table %q changed by a failed restore: %v", a.Name, err)
			}
		case "restart":
			if err := fx.Restart(); err != nil {
				vt.Inconclusive("C14 engine restart: " + err.Error())
				return nil
			}
			e = fx.E
			if err := e.Manager.VerifReconcile(); err != nil {
				return vt.Failf(prop+"/reconcile-error", i, "reconciliation after an engine restart: %v", err)
			}
			if f := checkRunning(i); f != nil {
				return f
			}
			// timing-free: the shard of every table the model holds has been started (checkRunning compares with the engine's own listing)
			{
				running := map[uint64]bool{}
				for _, si := range e.NodeHost.GetNodeHostInfo(dragonboat.DefaultNodeHostInfoOption).ShardInfoList {
					running[si.ShardID] = true
				}
				for n, mt := range cat {
					if !running[mt.id] {
						return vt.Failf(prop+"/catalogued-shard-not-running", i, "after restart + reconciliation shard %d of table %q is not running", mt.id, n)
					}
				}
			}
			for n := range cat {
				if err := fx.WaitTablePatient(n, 20*time.Second); err != nil {
					vt.Inconclusive(fmt.Sprintf("C14 table %q did not become ready after restart + reconciliation: %v", n, err))
					return nil
				}
			}
			restarted = true
			if cleanupsSinceRestart > 0 {
				// what a cleanup round removed from the disks shows once the tables are opened again
				if f := checkAll(i, "/table-damaged-by-cleanup", "after a cleanup round and an engine restart"); f != nil {
					return f
				}
				cleanupsSinceRestart = 0
				o.Label("restart-after-cleanup-round")
			}
		case "cleanup":
			// stopped shards leave a cleanup record; once its grace period is over a cleanup round removes the shard's raft data and its
			// data directory.  It must only ever remove what belongs to shards no catalogued table uses.
			e.Manager.VerifSetIntervals(0, 0, time.Nanosecond)
			var cerr error
			for attempt := 0; attempt < 10; attempt++ {
				if cerr = e.Manager.VerifCleanup(); cerr == nil {
					break
				}
				time.Sleep(50 * time.Millisecond) // a shard that is still stopping refuses the removal; the production loop tries again later too
			}
			if cerr != nil {
				o.Label("cleanup-round-gave-up")
			} else {
				o.Label("cleanup-round-completed")
			}
			cleanups++
			cleanupsSinceRestart++
			// let the raft events of the removal drain: closing an engine while one of its events is still being dispatched can hang
			// regatta's shutdown for good (an observation outside the listed properties, see DESIGN section 5) - that costs the case and 90 s
			time.Sleep(400 * time.Millisecond)
			if f := checkAll(i, "/table-damaged-by-cleanup", "after a cleanup round"); f != nil {
				return f
			}
		case "list":
			ts, err := e.GetTables()
			if err != nil {
				return vt.Failf(prop+"/list-error", i, "%v", err)
			}
			var got, want []string
			for _, t := range ts {
				got = append(got, fmt.Sprintf("%s:%d", t.Name, t.ClusterID))
			}
			for n, mt := range cat {
				want = append(want, fmt.Sprintf("%s:%d", n, mt.id))
			}
			sort.Strings(got)
			sort.Strings(want)
			if fmt.Sprint(got) != fmt.Sprint(want) {
				return vt.Failf(prop+"/list-differs", i, "listing reports %v, created-and-not-deleted tables are %v", got, want)
			}
		case "get":
			t, err := e.GetTable(a.Name)
			if exists {
				if err != nil || t.ClusterID != cat[a.Name].id || t.Name != a.Name {
					return vt.Failf(prop+"/lookup-differs", i, "lookup of %q: %+v, %v; want id %d", a.Name, t.Table, err, cat[a.Name].id)
				}
			} else if err == nil {
				// "lookup reflects precisely the created-and-not-deleted tables": an absent table is not found - by whichever error
				return vt.Failf(prop+"/lookup-differs", i, "lookup of absent table %q succeeded: %+v", a.Name, t.Table)
			}
		case "put":
			ctx, cancel := ctxT()
			_, err := e.Put(ctx, &regattapb.PutRequest{Table: []byte(a.Name), Key: a.K, Value: a.V})
			cancel()
			if !exists {
				if err == nil {
					return vt.Failf(prop+"/write-to-absent-table", i, "put into absent table %q succeeded", a.Name)
				}
				continue
			}
			if err != nil {
				return vt.Failf(prop+"/write-error", i, "put into %q: %v", a.Name, err)
			}
			cat[a.Name].content.Put(a.K, a.V)
			everHeldData[a.Name] = true
			if f := checkOthers(i, a.Name); f != nil {
				return f
			}
		case "range":
			got, err := replfx.ReadAll(e, a.Name, true)
			if !exists {
				if err == nil {
					return vt.Failf(prop+"/read-of-absent-table", i, "range on absent table %q succeeded (%d pairs)", a.Name, len(got))
				}
				continue
			}
			if err != nil {
				return vt.Failf(prop+"/table-unreadable", i, "table %q: %v", a.Name, err)
			}
			if err := same(got, cat[a.Name].content.Pairs); err != nil {
				return vt.Failf(prop+"/content-differs", i, "table %q: %v", a.Name, err)
			}
		case "reconcile":
			if err := e.Manager.VerifReconcile(); err != nil {
				return vt.Failf(prop+"/reconcile-error", i, "%v", err)
			}
			if f := checkRunning(i); f != nil {
				return f
			}
		}
	}
	if cleanupsSinceRestart > 0 && len(cat) > 0 && !oddUsed {
		// the case ends with the tables opened once more from the disks the cleanup rounds worked on
		if err := fx.Restart(); err != nil {
			vt.Inconclusive("C14 final engine restart: " + err.Error())
			return nil
		}
		e = fx.E
		if err := e.Manager.VerifReconcile(); err != nil {
			return vt.Failf(prop+"/reconcile-error", len(c.Acts), "reconciliation after the final engine restart: %v", err)
		}
		for n := range cat {
			if err := fx.WaitTablePatient(n, 20*time.Second); err != nil {
				vt.Inconclusive(fmt.Sprintf("C14 table %q did not become ready after the final restart: %v", n, err))
				return nil
			}
		}
		if f := checkAll(len(c.Acts), "/table-damaged-by-cleanup", "after cleanup rounds and a final engine restart"); f != nil {
			return f
		}
		o.Label("restart-after-cleanup-round")
	}
	if recreated {
		o.Label("delete-then-recreate-of-a-name-that-held-data")
	}
	if restoredBetween {
		o.Label("restore-between-creates")
	}
	if oddUsed {
		o.Label("path-or-glob-like-name")
	}
	if interrupted {
		o.Label("interrupted-restore")
	}
	if restarted {
		o.Label("engine-restart")
	}
	if interrupted && restarted {
		o.Label("restart-with-pending-recovery-shard")
	}
	o.NonTrivial = recreated || restoredBetween || (interrupted && restarted)
	o.Describe = func() string { return fmt.Sprintf("%+v", c.Acts) }
	return nil
}

func same(got, want []model.Pair) error {
	if len(got) != len(want) {
		return fmt.Errorf("%d pairs, want %d", len(got), len(want))
	}
	for i := range got {
		if !bytes.Equal(got[i].K, want[i].K) || !bytes.Equal(got[i].V, want[i].V) {
			return fmt.Errorf("pair %d: %q=%q want %q=%q", i, got[i].K, got[i].V, want[i].K, want[i].V)
		}
	}
	return nil
}

func init() {
	// engine calls whose answer the check judges: an expired deadline / a raft group that has no leader at the moment is no answer
	// ("create of absent table \"sys\" failed: timeout" was reported once as create-refused on a machine with a load average of 45)
	vt.UnjudgedOnTimeout(prop+"/create-refused", prop+"/duplicate-create-accepted", prop+"/delete-refused", prop+"/delete-of-absent-table",
		prop+"/table-unreadable", prop+"/restore-error", prop+"/write-to-absent-table", prop+"/read-of-absent-table", prop+"/restored-table-missing", prop+"/lookup-differs")
}

func TestC14(t *testing.T)        { vt.Check(t, prop, genCase, runEngine) }
func TestC14Replay(t *testing.T)  { vt.Replay(t, prop, runEngine) }
func TestC14Regress(t *testing.T) { vt.Regress(t, prop, "testdata", runEngine) }

func TestC14Odd(t *testing.T)        { vt.Check(t, prop, genOddCase, runEngine) }
func TestC14OddReplay(t *testing.T)  { vt.Replay(t, prop, runEngine) }
func TestC14OddRegress(t *testing.T) { vt.Regress(t, prop, "testdata", runEngine) }

// ---- domain B: racing catalogue changes at store-operation granularity -------------------------------

type RCall struct {
	Kind string `json:"kind"` // create | delete
	Name string `json:"name"`
}

type RaceCase struct {
	Programs [][]RCall `json:"programs"`
	Schedule []int     `json:"schedule"`
	// Batch: two writes parked at the same time are applied by ONE Update call of the metadata state machine (proposals committed together)
	Batch bool `json:"batch,omitempty"`
	// Replicas: every manager reads its OWN replica of the metadata state machine (stale reads, as kv.RaftStore does) and is answered by
	// it; the schedule also decides when a lagging replica applies the next log entry or is caught up by a snapshot (gate.World.Replicas)
	Replicas bool `json:"replicas,omitempty"`
}

func genRaceReplicas(t *rapid.T) RaceCase {
	n := rapid.IntRange(2, 3).Draw(t, "managers")
	c := RaceCase{Replicas: true}
	for i := 0; i < n; i++ {
		var p []RCall
		k := rapid.IntRange(1, 4).Draw(t, "calls")
		for j := 0; j < k; j++ {
			p = append(p, RCall{Kind: rapid.SampledFrom([]string{"create", "create", "delete"}).Draw(t, "kind"), Name: rapid.SampledFrom([]string{"a", "a", "b"}).Draw(t, "name")})
		}
		c.Programs = append(c.Programs, p)
	}
	c.Schedule = rapid.SliceOfN(rapid.IntRange(0, 8), 0, 80).Draw(t, "schedule")
	c.Batch = rapid.Bool().Draw(t, "batch")
	return c
}

func genRace(t *rapid.T) RaceCase {
	n := rapid.IntRange(2, 3).Draw(t, "managers")
	c := RaceCase{}
	for i := 0; i < n; i++ {
		var p []RCall
		k := rapid.IntRange(1, 3).Draw(t, "calls")
		for j := 0; j < k; j++ {
			p = append(p, RCall{Kind: rapid.SampledFrom([]string{"create", "create", "delete"}).Draw(t, "kind"), Name: rapid.SampledFrom([]string{"a", "a", "b"}).Draw(t, "name")})
		}
		c.Programs = append(c.Programs, p)
	}
	c.Schedule = rapid.SliceOfN(rapid.IntRange(0, 2), 0, 40).Draw(t, "schedule")
	c.Batch = rapid.IntRange(0, 2).Draw(t, "batch") == 0
	return c
}

var (
	raceStores   = []*gate.Store{{Caller: 0}, {Caller: 1}, {Caller: 2}}
	raceManagers = func() []*table.Manager {
		var ms []*table.Manager
		for n := 0; n < 3; n++ {
			ms = append(ms, table.NewManager(nil, nil, raceStores[n], table.Config{NodeID: uint64(n + 1), Table: table.TableConfig{TableCacheSize: 16}}))
		}
		return ms
	}()
)

type raceResult struct {
	mgr  int
	call RCall
	id   uint64
	err  error
	seq  int
}

var lastRaceBranching []int // branching of the most recent execution (executions are sequential)

func runRace(c RaceCase, o *vt.Obs) *vt.Failure {
	w := gate.NewWorld()
	if c.Replicas {
		w = gate.NewReplicatedWorld(len(c.Programs))
	}
	w.Batch = c.Batch
	defer func() { lastRaceBranching = w.Branching }()
	var mu sync.Mutex
	var results []raceResult
	seq := 0
	bothPassedExists := false
	existsPassed := map[string]int{} // name -> number of creators that passed the Exists check and have not written yet
	w.OnDone = func(caller int, op, key string, err error) {
		if op == "exists" && strings.HasPrefix(key, "/tables/") {
			if _, found := w.Peek(key); !found {
				existsPassed[key]++
				if existsPassed[key] >= 2 {
					bothPassedExists = true
				}
			}
		}
	}
	programs := make([]func(s *gate.Store), len(c.Programs))
	for n := range c.Programs {
		n := n
		programs[n] = func(s *gate.Store) {
			m := raceManagers[n]
			for _, call := range c.Programs[n] {
				r := raceResult{mgr: n, call: call}
				if call.Kind == "create" {
					var t table.Table
					t, r.err = m.VerifCreateRecord(call.Name)
					r.id = t.ClusterID
				} else {
					r.err = m.DeleteTable(call.Name)
				}
				mu.Lock()
				seq++
				r.seq = seq
				results = append(results, r)
				mu.Unlock()
			}
		}
	}
	if _, err := w.RunWith(raceStores[:len(programs)], programs, c.Schedule); err != nil {
		return vt.Failf(prop+"/harness-scheduler", 0, "%v", err)
	}
	// replay the completed calls in completion order against a catalogue model that tolerates the documented
	// outcomes of racing changes: a create may fail with 'exists' (lost the race), an id-sequence CAS may fail
	ids := map[uint64]string{}
	live := map[string]bool{}
	var maxID uint64
	for _, r := range results {
		switch r.call.Kind {
		case "create":
			if r.err == nil {
				if prev, dup := ids[r.id]; dup {
					return vt.Failf(prop+"/id-reused", r.seq, "id %d assigned to %q was already assigned to %q\ntrace %v", r.id, r.call.Name, prev, w.Trace)
				}
				ids[r.id] = r.call.Name
				if r.id <= 10000 {
					return vt.Failf(prop+"/id-out-of-range", r.seq, "id %d", r.id)
				}
				maxID = max(maxID, r.id)
				if live[r.call.Name] {
					return vt.Failf(prop+"/two-creates-of-one-name-succeeded", r.seq, "create of %q succeeded although a create of the same name had succeeded and it was not deleted since\ntrace %v", r.call.Name, w.Trace)
				}
				live[r.call.Name] = true
			} else if !errors.Is(r.err, serrors.ErrTableExists) && !errors.Is(r.err, kv.ErrVersionMismatch) {
				return vt.Failf(prop+"/unexpected-error", r.seq, "create %q: %v", r.call.Name, r.err)
			}
		case "delete":
			if r.err == nil {
				delete(live, r.call.Name)
			} else if !errors.Is(r.err, serrors.ErrTableNotFound) && !errors.Is(r.err, kv.ErrVersionMismatch) {
				return vt.Failf(prop+"/unexpected-error", r.seq, "delete %q: %v", r.call.Name, r.err)
			}
		}
	}
	// the store's catalogue == the successful creates minus deletes (completion order is a valid linearisation only
	// when calls did not overlap; so compare as sets only for names whose calls were all successful-or-rejected unambiguously)
	stored := map[string]uint64{}
	for _, p := range w.PeekAll("/tables/*") {
		name := strings.TrimPrefix(p.Key, "/tables/")
		stored[name] = 1
	}
	for name := range stored {
		found := false
		for _, n := range ids {
			if n == name {
				found = true
			}
		}
		if !found {
			return vt.Failf(prop+"/catalogue-holds-unacknowledged-table", 0, "store holds table %q which no successful create reported\ntrace %v", name, w.Trace)
		}
	}
	if c.Replicas {
		// once every node has caught up, listing and lookup on EVERY node reflect precisely the created-and-not-deleted tables
		per, err := w.Settle("/tables/*")
		if err != nil {
			return vt.Failf(prop+"/harness-scheduler", 0, "%v", err)
		}
		for r, pairs := range per {
			names := map[string]bool{}
			for _, p := range pairs {
				names[strings.TrimPrefix(p.Key, "/tables/")] = true
			}
			for name := range names {
				if _, ok := stored[name]; !ok {
					return vt.Failf(prop+"/node-lists-deleted-table", 0, "after every node applied the whole log, node %d still lists table %q, which the catalogue does not hold (deleted)\ntrace %v", r+1, name, w.Trace)
				}
			}
			for name := range stored {
				if !names[name] {
					return vt.Failf(prop+"/node-misses-table", 0, "after every node applied the whole log, node %d does not list table %q\ntrace %v", r+1, name, w.Trace)
				}
			}
		}
	}
	if bothPassedExists {
		o.Label("two-creators-passed-the-existence-check")
	}
	if w.Batched > 0 {
		o.Label("two-proposals-applied-in-one-update-call")
	}
	if w.LagReads > 0 {
		o.Label("decision-taken-on-a-stale-read-of-a-lagging-replica")
	}
	if w.SnapInstall > 0 {
		o.Label("lagging-replica-caught-up-by-snapshot")
	}
	o.NonTrivial = bothPassedExists || (w.LagReads > 0 && w.SnapInstall > 0)
	o.Describe = func() string { return fmt.Sprintf("%+v", c) }
	return nil
}

func TestC14Race(t *testing.T)               { vt.Check(t, prop, genRace, runRace) }
func TestC14RaceReplicas(t *testing.T)       { vt.Check(t, prop, genRaceReplicas, runRace) }
func TestC14RaceReplicasReplay(t *testing.T) { vt.Replay(t, prop, runRace) }
func TestC14RaceReplay(t *testing.T)         { vt.Replay(t, prop, runRace) }
func TestC14RaceRegress(t *testing.T)        { vt.Regress(t, prop, "testdata", runRace) }

// TestC14RaceExhaustive enumerates ALL schedules (each exactly once, DFS over the scheduler's choice points) of two managers running
// every pair of programs of up to 2 calls (thorough: 3 calls for the first manager) over {create a, create b, delete a}, without and
// with batched application of simultaneously parked writes.
func TestC14RaceExhaustive(t *testing.T) {
	calls := []RCall{{Kind: "create", Name: "a"}, {Kind: "create", Name: "b"}, {Kind: "delete", Name: "a"}}
	var progs [][]RCall
	var build func(cur []RCall, maxN int)
	build = func(cur []RCall, maxN int) {
		if len(cur) > 0 {
			progs = append(progs, append([]RCall(nil), cur...))
		}
		if len(cur) == maxN {
			return
		}
		for _, k := range calls {
			build(append(cur, k), maxN)
		}
	}
	build(nil, 2)
	st := vt.NewManualStats(prop, t.Name())
	defer st.Flush()
	schedules := 0
	for _, batch := range []bool{false, true} {
		for _, pa := range progs {
			for _, pb := range progs {
				var dfs func(prefix []int) *vt.Failure
				dfs = func(prefix []int) *vt.Failure {
					c := RaceCase{Programs: [][]RCall{pa, pb}, Schedule: prefix, Batch: batch}
					o := &vt.Obs{}
					f := runRace(c, o)
					branching := lastRaceBranching
					if f != nil {
						f.Case = c
						return f
					}
					schedules++
					st.Record(c, o.NonTrivial, []string{fmt.Sprintf("programs:%d+%d-calls", len(pa), len(pb))})
					for j := len(prefix); j < len(branching); j++ {
						for ch := 1; ch < branching[j]; ch++ {
							next := append([]int(nil), prefix...)
							for len(next) < j {
								next = append(next, 0)
							}
							next = append(next, ch)
							if f := dfs(next); f != nil {
								return f
							}
						}
					}
					return nil
				}
				if f := dfs(nil); f != nil {
					p := st.Fail(f)
					t.Fatalf("VERIF-FAIL signature=%s step=%d replay=%s\n%s", f.Signature, f.Step, p, f.Msg)
				}
			}
		}
	}
	fmt.Printf("VERIF-DONE cases=%d\n", schedules)
}

// ---- domain C: reconciliation diff ---------------------------------------------------------------------

type DiffCase struct {
	Tables  []table.Table `json:"tables"`
	Running []uint64      `json:"running"`
}

func genDiff(t *rapid.T) DiffCase {
	c := DiffCase{}
	idGen := rapid.SampledFrom([]uint64{0, 1, 1000, 2000, 9999, 10000, 10001, 10002, 10003, 10004, 10005, 20000})
	n := rapid.IntRange(0, 6).Draw(t, "tables")
	for i := 0; i < n; i++ {
		tb := table.Table{Name: fmt.Sprintf("t%d", i), ClusterID: idGen.Draw(t, "cid")}
		if rapid.IntRange(0, 3).Draw(t, "hasrecover") == 0 {
			tb.RecoverID = idGen.Draw(t, "rid")
		}
		c.Tables = append(c.Tables, tb)
	}
	c.Running = rapid.SliceOfNDistinct(idGen, 0, 8, func(x uint64) uint64 { return x }).Draw(t, "running")
	return c
}

func runDiff(c DiffCase, o *vt.Obs) *vt.Failure {
	tabs := map[string]table.Table{}
	catalogued := map[uint64]bool{}
	for _, t := range c.Tables {
		tabs[t.Name] = t
		if t.ClusterID != 0 {
			catalogued[t.ClusterID] = true
		}
		if t.RecoverID != 0 {
			catalogued[t.RecoverID] = true
		}
	}
	var infos []dragonboat.ShardInfo
	running := map[uint64]bool{}
	for _, id := range c.Running {
		infos = append(infos, dragonboat.ShardInfo{ShardID: id})
		running[id] = true
	}
	start, stop := table.VerifDiffTables(tabs, infos)
	wantStart, wantStop := map[uint64]bool{}, map[uint64]bool{}
	for id := range catalogued {
		if !running[id] && id > 10000 {
			wantStart[id] = true
		}
	}
	for id := range running {
		if !catalogued[id] && id > 10000 {
			wantStop[id] = true
		}
	}
	if len(start) != len(wantStart) {
		return vt.Failf(prop+"/diff-start", 0, "start set %v, want exactly the catalogued shards that are not running %v", keysOf(start), wantStart)
	}
	for id, t := range start {
		if !wantStart[id] || (t.ClusterID != id && t.RecoverID != id) {
			return vt.Failf(prop+"/diff-start", 0, "start set %v, want %v", keysOf(start), wantStart)
		}
	}
	if len(stop) != len(wantStop) {
		return vt.Failf(prop+"/diff-stop", 0, "stop set %v, want exactly the running shards no longer catalogued %v", stop, wantStop)
	}
	for _, id := range stop {
		if !wantStop[id] {
			return vt.Failf(prop+"/diff-stop", 0, "stop set %v, want %v", stop, wantStop)
		}
	}
	o.NonTrivial = len(wantStart) > 0 && len(wantStop) > 0
	o.Describe = func() string { return fmt.Sprintf("%+v", c) }
	return nil
}

func keysOf(m map[uint64]table.Table) []uint64 {
	var out []uint64
	for k := range m {
		out = append(out, k)
	}
	sort.Slice(out, func(i, j int) bool { return out[i] < out[j] })
	return out
}

func TestC14Diff(t *testing.T)        { vt.Check(t, prop, genDiff, runDiff) }
func TestC14DiffReplay(t *testing.T)  { vt.Replay(t, prop, runDiff) }
func TestC14DiffRegress(t *testing.T) { vt.Regress(t, prop, "testdata", runDiff) }

// replay files written by the enumeration carry its test name
func TestC14RaceExhaustiveReplay(t *testing.T) { vt.Replay(t, prop, runRace) }
