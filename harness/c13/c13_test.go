// C13 — the metadata store is a deterministic compare-and-set register map.
package c13

import (
	"bytes"
	"encoding/json"
	"errors"
	"fmt"
	"path"
	"reflect"
	"sort"
	"strings"
	"testing"

	"github.com/jamf/regatta/storage/kv"
	sm "github.com/lni/dragonboat/v4/statemachine"
	"pgregory.net/rapid"

	"verifharness/internal/vt"
)

const prop = "C13"

type Op struct {
	Kind    string `json:"kind"` // set | delete | get | exists | getall | getallvalues | list | listdir | snapshot
	Key     string `json:"key,omitempty"`
	Value   string `json:"value,omitempty"`
	VerMode string `json:"ver_mode,omitempty"` // zero | current | stale | future
	Pattern string `json:"pattern,omitempty"`
	// Batch: this update is applied in the same Update call as the previous update on replica B
	JoinB bool `json:"join_b,omitempty"`
}

type Case struct {
	Ops []Op `json:"ops"`
}

var keyAlphabet = []string{
	"/tables/a", "/tables/b", "/tables/a/lease", "/tables/b/lease", "/tables/sys/idseq", "/tables/ab", "/tables/",
	"/cleanup/1/10001", "/cleanup/1/10002", "/cleanup/2/10001", "/cleanup/11/10001",
	"queue/a/1", "queue/a/2", "queue/b/1", "queue/ab/1", "x", "",
	// relative keys that differ from the queue keys in their FIRST element only / share a name prefix with it (seeded change C13-L)
	"quota/a/7", "queue2/audit/1", "backup/tables/a/manifest",
	// keys holding the characters the glob syntax gives a meaning to
	"/jobs/a*b/1", "/jobs/aXb/1", "/jobs/[x]", "/jobs/x", "/jobs/q?", "/jobs/qq", `/jobs/back\slash`,
}

var patterns = []string{"/tables/*", "/cleanup/1/*", "/cleanup/2/*", "queue/a/*", "queue/b/*", "*", "/tables/a*", "/*/*/*",
	// the whole documented syntax ("the same as in path.Match"): single-character wildcard, classes, ranges, negation, escapes of the
	// special characters (the only way to address keys that contain them)
	"/tables/?", "/tables/[ab]", "/tables/[^a]*", "/tables/[a-c]/*", "queue/?/[12]", `/jobs/a\*b/*`, `/jobs/a\*b/1`, `/jobs/a*b/*`, `/jobs/\[x\]`, `/jobs/q\?`, `/jobs/q?`,
	`/jobs/back\\slash`, `/jobs/*\**`, `\/tables/a`, `/tables\/*`}

var listPaths = []string{"/tables", "/tables/", "/cleanup", "/cleanup/1", "queue", "queue/a", "/", "/tables/a", "queue2", "quota"}

var values = []string{"", "v", "10001", `{"name":"a","cluster_id":10001,"recover_id":0}`, "quote\"back\\slash", "üñí-✓", "line\nbreak\ttab", "<html>&amp;"}

func genCase(t *rapid.T) Case {
	n := rapid.IntRange(1, 40).Draw(t, "n")
	c := Case{}
	for i := 0; i < n; i++ {
		k := rapid.IntRange(0, 19).Draw(t, "kind")
		op := Op{}
		switch {
		case k <= 7:
			op.Kind = "set"
		case k <= 10:
			op.Kind = "delete"
		case k == 11:
			op.Kind = "get"
		case k == 12:
			op.Kind = "exists"
		case k <= 14:
			op.Kind = "getall"
		case k == 15:
			op.Kind = "getallvalues"
		case k == 16:
			op.Kind = "list"
		case k == 17:
			op.Kind = "listdir"
		default:
			op.Kind = "snapshot"
		}
		switch op.Kind {
		case "set", "delete":
			op.Key = rapid.SampledFrom(keyAlphabet).Draw(t, "key")
			op.VerMode = rapid.SampledFrom([]string{"current", "current", "current", "zero", "stale", "future"}).Draw(t, "ver")
			op.JoinB = rapid.Bool().Draw(t, "joinB")
			if op.Kind == "set" {
				if rapid.IntRange(0, 3).Draw(t, "valclass") == 0 {
					op.Value = rapid.String().Draw(t, "anyvalue") // rapid strings are valid UTF-8
				} else {
					op.Value = rapid.SampledFrom(values).Draw(t, "value")
				}
			}
		case "get", "exists":
			op.Key = rapid.SampledFrom(keyAlphabet).Draw(t, "key")
		case "getall", "getallvalues":
			op.Pattern = rapid.SampledFrom(patterns).Draw(t, "pattern")
		case "list", "listdir":
			op.Pattern = rapid.SampledFrom(listPaths).Draw(t, "path")
		}
		c.Ops = append(c.Ops, op)
	}
	return c
}

type mpair struct {
	Value string
	Ver   uint64
}

func newLFSM() *kv.LFSM { return kv.NewLFSM()(1000, 1).(*kv.LFSM) }

// independent matcher for the three glob shapes used by the callers: "<prefix>/*" where * = one path element.
func callerGlob(pattern, key string) (bool, bool) {
	if !strings.HasSuffix(pattern, "/*") || strings.ContainsAny(strings.TrimSuffix(pattern, "*"), "*?[\\") {
		return false, false
	}
	prefix := strings.TrimSuffix(pattern, "*")
	if !strings.HasPrefix(key, prefix) {
		return false, true
	}
	return !strings.Contains(key[len(prefix):], "/"), true
}

// cleanPath: a well-formed path - non-empty, not the root, no empty / dot elements, no trailing slash
func cleanPath(p string) bool { return p != "" && p != "/" && p != "." && path.Clean(p) == p }

func modelKeys(m map[string]mpair) []string {
	var ks []string
	for k := range m {
		ks = append(ks, k)
	}
	sort.Strings(ks)
	return ks
}

func snapshotBytes(f *kv.LFSM) ([]byte, error) {
	ctx, err := f.PrepareSnapshot()
	if err != nil {
		return nil, err
	}
	var buf bytes.Buffer
	if err := f.SaveSnapshot(ctx, &buf, nil, nil); err != nil {
		return nil, err
	}
	return buf.Bytes(), nil
}

func run(c Case, o *vt.Obs) *vt.Failure {
	a, b := newLFSM(), newLFSM()
	// lag: a replica that misses every third update (a lagging follower); it is brought up to date only by installing snapshots
	lag := newLFSM()
	lagMissed := 0
	// d: a replica fed the same updates whose snapshots are SAVED LATE - prepared at a "snapshot" step, saved only at the next one (or at
	// the end), after further updates were applied (the store is a concurrent state machine: raft saves in the background while it keeps
	// applying).  The image must be the state at prepare time.
	d := newLFSM()
	var pendCtx any // what PrepareSnapshot handed back (whatever it is - it may well be nil: the context is the state machine's own business)
	pending := false
	var pendExpect map[string]kv.Pair
	pendUpdates := 0
	lateSaves := 0
	saveLate := func(step int) *vt.Failure {
		if !pending {
			return nil
		}
		var buf bytes.Buffer
		if err := d.SaveSnapshot(pendCtx, &buf, nil, nil); err != nil {
			return vt.Failf(prop+"/snapshot-error", step, "late save: %v", err)
		}
		pendCtx, pending = nil, false
		n := newLFSM()
		if err := n.RecoverFromSnapshot(bytes.NewReader(buf.Bytes()), nil, nil); err != nil {
			return vt.Failf(prop+"/restore-error", step, "restore of a late-saved snapshot: %v", err)
		}
		sn, err := snapshotBytes(n)
		var got map[string]kv.Pair
		if err == nil {
			err = json.Unmarshal(sn, &got)
		}
		if got == nil {
			got = map[string]kv.Pair{}
		}
		if err != nil || !reflect.DeepEqual(got, pendExpect) {
			return vt.Failf(prop+"/snapshot-not-point-in-time", step, "a snapshot prepared before %d further updates and saved after them restores to %v, the store held %v when it was prepared (err %v)", pendUpdates, got, pendExpect, err)
		}
		if pendUpdates > 0 {
			lateSaves++
		}
		return nil
	}
	model := map[string]mpair{}
	cleanListings := 0
	index := uint64(0)
	maxVer := uint64(0)
	var pendingB []sm.Entry // replica B applies updates in generated groups
	var resultsA []sm.Result
	var resultsB []sm.Result
	flushB := func() *vt.Failure {
		if len(pendingB) == 0 {
			return nil
		}
		res, err := b.Update(pendingB)
		if err != nil {
			return vt.Failf(prop+"/update-error", 0, "replica B: %v", err)
		}
		for _, e := range res {
			resultsB = append(resultsB, e.Result)
		}
		pendingB = nil
		return nil
	}
	rejected, accepted := map[string]bool{}, map[string]bool{}
	snapshots := 0
	for i, op := range c.Ops {
		switch op.Kind {
		case "set", "delete":
			cur, exists := model[op.Key]
			var ver uint64
			switch op.VerMode {
			case "zero":
				ver = 0
			case "current":
				ver = cur.Ver
			case "stale":
				if cur.Ver > 0 {
					ver = cur.Ver - 1
				} else {
					ver = 0
				}
			case "future":
				ver = index + 5
			}
			index++
			kvop := kv.UpdateOpSet
			if op.Kind == "delete" {
				kvop = kv.UpdateOpDelete
			}
			cmd, _ := json.Marshal(kv.Update{Op: kvop, KVPair: kv.Pair{Key: op.Key, Value: op.Value, Ver: ver}})
			ent := sm.Entry{Index: index, Cmd: cmd}
			res, err := a.Update([]sm.Entry{ent})
			if err != nil {
				return vt.Failf(prop+"/update-error", i, "%v", err)
			}
			resultsA = append(resultsA, res[0].Result)
			if _, err := d.Update([]sm.Entry{{Index: index, Cmd: append([]byte(nil), cmd...)}}); err != nil {
				return vt.Failf(prop+"/update-error", i, "replica D: %v", err)
			}
			pendUpdates++
			if index%3 != 0 {
				if _, err := lag.Update([]sm.Entry{{Index: index, Cmd: append([]byte(nil), cmd...)}}); err != nil {
					return vt.Failf(prop+"/update-error", i, "lagging replica: %v", err)
				}
			} else {
				lagMissed++
			}
			if !op.JoinB {
				if f := flushB(); f != nil {
					return f
				}
			}
			pendingB = append(pendingB, sm.Entry{Index: index, Cmd: append([]byte(nil), cmd...)})
			// oracle
			r := res[0].Result
			wantOK := !exists || ver == cur.Ver
			var got kv.Pair
			// what the result of a SUCCESSFUL DELETE carries is nobody's business (no caller reads it, the property is silent about it:
			// false alarm 16 in DESIGN section 6); a successful set reports the new pair, a mismatch the current one
			needData := !(wantOK && op.Kind == "delete")
			if err := json.Unmarshal(r.Data, &got); err != nil && needData {
				return vt.Failf(prop+"/result-undecodable", i, "result data %q: %v", r.Data, err)
			}
			if wantOK {
				if r.Value != kv.ResultCodeSuccess {
					return vt.Failf(prop+"/cas-rejected-valid", i, "%s %q ver %d (current %d, exists %v): result code %d, want success", op.Kind, op.Key, ver, cur.Ver, exists, r.Value)
				}
				if needData {
					if got.Ver != index || got.Key != op.Key {
						return vt.Failf(prop+"/version-stamp", i, "%s %q: result pair %+v, want version %d", op.Kind, op.Key, got, index)
					}
					if got.Ver <= maxVer {
						return vt.Failf(prop+"/version-not-increasing", i, "new version %d not larger than an earlier one %d", got.Ver, maxVer)
					}
					maxVer = got.Ver
				}
				if op.Kind == "set" {
					model[op.Key] = mpair{op.Value, index}
				} else {
					delete(model, op.Key)
				}
				accepted[op.Key] = true
			} else {
				if r.Value != kv.ResultCodeVersionMismatch {
					return vt.Failf(prop+"/cas-accepted-stale", i, "%s %q ver %d but current version is %d: result code %d, want version mismatch", op.Kind, op.Key, ver, cur.Ver, r.Value)
				}
				if got.Key != op.Key || got.Value != cur.Value || got.Ver != cur.Ver {
					return vt.Failf(prop+"/mismatch-reports-current", i, "mismatch result carries %+v, current pair is %q=%q ver %d", got, op.Key, cur.Value, cur.Ver)
				}
				rejected[op.Key] = true
			}
		case "get":
			v, err := a.Lookup(kv.QueryKey{Key: op.Key})
			cur, exists := model[op.Key]
			if !exists {
				if !errors.Is(err, kv.ErrNotExist) {
					return vt.Failf(prop+"/get", i, "get %q of a missing key: %v, %v", op.Key, v, err)
				}
			} else if err != nil || v.(kv.Pair) != (kv.Pair{Key: op.Key, Value: cur.Value, Ver: cur.Ver}) {
				return vt.Failf(prop+"/get", i, "get %q = %+v, %v; model %q ver %d", op.Key, v, err, cur.Value, cur.Ver)
			}
		case "exists":
			v, err := a.Lookup(kv.QueryExist{Key: op.Key})
			_, exists := model[op.Key]
			if err != nil || v.(bool) != exists {
				return vt.Failf(prop+"/exists", i, "exists %q = %v, %v; model %v", op.Key, v, err, exists)
			}
		case "getall", "getallvalues", "list", "listdir":
			// reference: a fresh MapStore loaded with exactly the model's pairs
			ref := kv.NewMapStore()
			for k, p := range model {
				_, _ = ref.Set(k, p.Value, p.Ver)
			}
			var got, want any
			var gerr, werr error
			switch op.Kind {
			case "getall":
				got, gerr = a.Lookup(kv.QueryAll{Pattern: op.Pattern})
				want, werr = ref.GetAll(op.Pattern)
				// the documented reference: "the syntax of patterns is the same as in path.Match"
				if gerr == nil {
					var wantKeys []string
					bad := false
					for k := range model {
						ok, merr := path.Match(op.Pattern, k)
						if merr != nil {
							bad = true
							break
						}
						if ok {
							wantKeys = append(wantKeys, k)
						}
					}
					if !bad {
						sort.Strings(wantKeys)
						var gotKeys []string
						for _, p := range got.([]kv.Pair) {
							gotKeys = append(gotKeys, p.Key)
						}
						if !reflect.DeepEqual(gotKeys, wantKeys) && (len(gotKeys) != 0 || len(wantKeys) != 0) {
							return vt.Failf(prop+"/glob", i, "getall %q returned keys %q, the keys of the model that path.Match accepts are %q", op.Pattern, gotKeys, wantKeys)
						}
					}
				}
				// independent matcher for the caller glob shapes
				if gerr == nil {
					var wantKeys []string
					applicable := true
					for k := range model {
						m, ok := callerGlob(op.Pattern, k)
						if !ok {
							applicable = false
							break
						}
						if m {
							wantKeys = append(wantKeys, k)
						}
					}
					if applicable {
						sort.Strings(wantKeys)
						var gotKeys []string
						for _, p := range got.([]kv.Pair) {
							gotKeys = append(gotKeys, p.Key)
							if mp := model[p.Key]; mp.Value != p.Value || mp.Ver != p.Ver {
								return vt.Failf(prop+"/glob", i, "getall %q returned %+v, model has %q ver %d", op.Pattern, p, mp.Value, mp.Ver)
							}
						}
						if !reflect.DeepEqual(gotKeys, wantKeys) && (len(gotKeys) != 0 || len(wantKeys) != 0) {
							return vt.Failf(prop+"/glob", i, "getall %q returned keys %q, want %q", op.Pattern, gotKeys, wantKeys)
						}
					}
				}
			case "getallvalues":
				got, gerr = a.Lookup(kv.QueryAllValues{Pattern: op.Pattern})
				want, werr = ref.GetAllValues(op.Pattern)
			case "list":
				got, gerr = a.Lookup(kv.QueryList{Path: op.Pattern})
				want, werr = ref.List(op.Pattern)
			case "listdir":
				got, gerr = a.Lookup(kv.QueryListDir{Path: op.Pattern})
				want, werr = ref.ListDir(op.Pattern)
			}
			if (gerr == nil) != (werr == nil) || !reflect.DeepEqual(got, want) {
				return vt.Failf(prop+"/listing", i, "%s %q = %v, %v; a store holding exactly the successful updates answers %v, %v", op.Kind, op.Pattern, got, gerr, want, werr)
			}
			if (op.Kind == "list" || op.Kind == "listdir") && gerr == nil && cleanPath(op.Pattern) {
				// an independent reading of "directory listing" for well-formed paths (the comparison above is against the same code):
				// list = the next path element of every key below the path (and the path's own last element if it is a key itself),
				// listdir = the next element of every key at least two levels below it.  Keys that are not clean paths ("", "/tables/")
				// are left to the implementation: with such keys present only "nothing is missing" is asserted.
				ref, allClean := map[string]bool{}, true
				pt := strings.Split(op.Pattern, "/")
				for k := range model {
					if !cleanPath(k) {
						allClean = false
						continue
					}
					kt := strings.Split(k, "/")
					if op.Kind == "list" && k == op.Pattern {
						ref[kt[len(kt)-1]] = true
						continue
					}
					need := len(pt) + 1
					if op.Kind == "listdir" {
						need = len(pt) + 2
					}
					if len(kt) >= need && reflect.DeepEqual(kt[:len(pt)], pt) {
						ref[kt[len(pt)]] = true
					}
				}
				gotSet := map[string]bool{}
				for _, n := range got.([]string) {
					gotSet[n] = true
				}
				for n := range ref {
					if !gotSet[n] {
						return vt.Failf(prop+"/listing-misses-an-entry", i, "%s %q = %v: %q is missing (keys: %v)", op.Kind, op.Pattern, got, n, modelKeys(model))
					}
				}
				if allClean {
					for n := range gotSet {
						if !ref[n] {
							return vt.Failf(prop+"/listing-shows-a-foreign-entry", i, "%s %q = %v: no key below that path accounts for %q (keys: %v)", op.Kind, op.Pattern, got, n, modelKeys(model))
						}
					}
					cleanListings++
				}
			}
		case "snapshot":
			snapshots++
			if f := flushB(); f != nil {
				return f
			}
			sa, err := snapshotBytes(a)
			if err != nil {
				return vt.Failf(prop+"/snapshot-error", i, "%v", err)
			}
			sb, err := snapshotBytes(b)
			if err != nil {
				return vt.Failf(prop+"/snapshot-error", i, "%v", err)
			}
			if !bytes.Equal(sa, sb) {
				return vt.Failf(prop+"/replicas-differ", i, "replicas that applied the same updates differ: %s vs %s", sa, sb)
			}
			if f := saveLate(i); f != nil {
				return f
			}
			if pendCtx, err = d.PrepareSnapshot(); err != nil {
				return vt.Failf(prop+"/snapshot-error", i, "prepare: %v", err)
			}
			pending = true
			pendExpect, pendUpdates = map[string]kv.Pair{}, 0
			_ = json.Unmarshal(sa, &pendExpect)
			// restore into a fresh store, which then replaces replica A
			n := newLFSM()
			if err := n.RecoverFromSnapshot(bytes.NewReader(sa), nil, nil); err != nil {
				return vt.Failf(prop+"/restore-error", i, "%v", err)
			}
			sn, err := snapshotBytes(n)
			if err != nil || !bytes.Equal(sn, sa) {
				return vt.Failf(prop+"/restore-differs", i, "restored store %s differs from the snapshot source %s (err %v)", sn, sa, err)
			}
			for k, p := range model {
				v, err := n.Lookup(kv.QueryKey{Key: k})
				if err != nil || v.(kv.Pair) != (kv.Pair{Key: k, Value: p.Value, Ver: p.Ver}) {
					return vt.Failf(prop+"/restore-differs", i, "restored store: get %q = %+v, %v; model %q ver %d", k, v, err, p.Value, p.Ver)
				}
			}
			// install the snapshot into the lagging, NON-EMPTY replica (what raft does for a follower that fell behind): afterwards it
			// must equal the snapshot exactly - nothing of its previous content may survive
			if err := lag.RecoverFromSnapshot(bytes.NewReader(sa), nil, nil); err != nil {
				return vt.Failf(prop+"/restore-error", i, "install into a non-empty replica: %v", err)
			}
			sl, err := snapshotBytes(lag)
			if err != nil || !bytes.Equal(sl, sa) {
				return vt.Failf(prop+"/restore-into-nonempty-differs", i, "a replica that had missed %d updates and then installed the snapshot holds %s, the snapshot is %s (err %v)", lagMissed, sl, sa, err)
			}
			var decoded map[string]kv.Pair
			if err := json.Unmarshal(sa, &decoded); err != nil || len(decoded) != len(model) {
				return vt.Failf(prop+"/restore-differs", i, "snapshot holds %d keys, model %d (err %v)", len(decoded), len(model), err)
			}
			a = n
		}
	}
	if f := flushB(); f != nil {
		return f
	}
	if f := saveLate(len(c.Ops)); f != nil {
		return f
	}
	if lateSaves > 0 {
		o.Label("snapshot-saved-after-further-updates")
	}
	if len(resultsA) != len(resultsB) {
		return vt.Failf(prop+"/replicas-differ", len(c.Ops), "result counts differ")
	}
	for i := range resultsA {
		if resultsA[i].Value != resultsB[i].Value || !bytes.Equal(resultsA[i].Data, resultsB[i].Data) {
			return vt.Failf(prop+"/replicas-differ", i, "update %d: replica A result (%d,%s) replica B (%d,%s)", i+1, resultsA[i].Value, resultsA[i].Data, resultsB[i].Value, resultsB[i].Data)
		}
	}
	sa, _ := snapshotBytes(a)
	sb, _ := snapshotBytes(b)
	if !bytes.Equal(sa, sb) {
		return vt.Failf(prop+"/replicas-differ", len(c.Ops), "final stores differ: %s vs %s", sa, sb)
	}
	both := false
	for k := range rejected {
		if accepted[k] {
			both = true
		}
	}
	if both {
		o.Label("rejected-and-accepted-update-on-one-key")
	}
	if snapshots > 0 {
		o.Label("snapshot-restore")
	}
	if cleanListings > 0 {
		o.Label("listing-judged-by-the-independent-reference")
	}
	o.NonTrivial = both && snapshots > 0
	o.Describe = func() string { return fmt.Sprintf("%+v", c.Ops) }
	return nil
}

func TestC13(t *testing.T)        { vt.Check(t, prop, genCase, run) }
func TestC13Replay(t *testing.T)  { vt.Replay(t, prop, run) }
func TestC13Regress(t *testing.T) { vt.Regress(t, prop, "testdata", run) }
