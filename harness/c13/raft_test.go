package c13

import (
	"errors"
	"fmt"
	"sync"
	"sync/atomic"
	"testing"

	"github.com/jamf/regatta/storage/kv"

	"verifharness/internal/enginefx"
	"verifharness/internal/vt"
)

// TestC13Raft drives kv.RaftStore (the client side: proposal + result-code mapping + stale reads) on a real single-node
// NodeHost with the same generator as TestC13; every case uses its own key prefix on one long-lived store.

var (
	rsOnce sync.Once
	rsFx   *enginefx.Fixture
	rs     *kv.RaftStore
	rsErr  error
	rsCase atomic.Int64
)

func raftStore() error {
	rsOnce.Do(func() {
		rsFx, rsErr = enginefx.Start(enginefx.Opts{})
		if rsErr != nil {
			return
		}
		rs = &kv.RaftStore{NodeHost: rsFx.E.NodeHost, ClusterID: 3000}
		rsErr = rs.Start(kv.RaftConfig{NodeID: 1, ElectionRTT: 10, HeartbeatRTT: 1, InitialMembers: rsFx.Cfg.InitialMembers})
		if rsErr != nil {
			return
		}
		for i := 0; i < 400 && !rs.HasLeader(); i++ {
			_, _ = rs.Exists("x") // wait for the election
			sleepMs(10)
		}
		if !rs.HasLeader() {
			rsErr = errors.New("metadata store has no leader")
		}
	})
	return rsErr
}

func runRaft(c Case, o *vt.Obs) *vt.Failure {
	if err := raftStore(); err != nil {
		vt.Inconclusive("C13 raft store fixture: " + err.Error())
		return nil
	}
	return runRaftOn(c, o, []*kv.RaftStore{rs})
}

// TestC13Cluster: the same histories on a real THREE-node metadata raft group, one RaftStore per node.  The operations are sequential
// (each is acknowledged before the next starts) but go through different nodes in turn - a lease handed from node to node, a client
// that alternates nodes: the compare-and-set rule is about the key's CURRENT version, whichever node the update is proposed through
// and however far that node's own copy lags.  Lookups go through the node that made the latest update (its copy has applied it).
var (
	rcOnce   sync.Once
	rcFx     []*enginefx.Fixture
	rcStores []*kv.RaftStore
	rcErr    error
)

func runRaftCluster(c Case, o *vt.Obs) *vt.Failure {
	rcOnce.Do(func() {
		rcFx, rcErr = enginefx.StartCluster(3, enginefx.Opts{})
		if rcErr != nil {
			return
		}
		var wg sync.WaitGroup
		errs := make([]error, len(rcFx))
		rcStores = make([]*kv.RaftStore, len(rcFx))
		for i, f := range rcFx {
			rcStores[i] = &kv.RaftStore{NodeHost: f.E.NodeHost, ClusterID: 3000}
			wg.Add(1)
			go func(i int, f *enginefx.Fixture) {
				defer wg.Done()
				errs[i] = rcStores[i].Start(kv.RaftConfig{NodeID: f.Cfg.NodeID, ElectionRTT: 10, HeartbeatRTT: 1, InitialMembers: f.Cfg.InitialMembers})
			}(i, f)
		}
		wg.Wait()
		for _, e := range errs {
			if e != nil {
				rcErr = e
				return
			}
		}
		for i := 0; i < 600; i++ {
			ready := true
			for _, st := range rcStores {
				if !st.HasLeader() {
					ready = false
				}
			}
			if ready {
				return
			}
			sleepMs(10)
		}
		rcErr = errors.New("3-node metadata store has no leader")
	})
	if rcErr != nil {
		vt.Inconclusive("C13 raft cluster fixture: " + rcErr.Error())
		return nil
	}
	o.Label("three-node-metadata-raft-group")
	return runRaftOn(c, o, rcStores)
}

func runRaftOn(c Case, o *vt.Obs, stores []*kv.RaftStore) *vt.Failure {
	rs := stores[0] // the node lookups go through: the one that made the latest update
	prefix := fmt.Sprintf("/case%d", rsCase.Add(1))
	model := map[string]mpair{}
	var maxVer uint64
	both := map[string][2]bool{}
	for i, op := range c.Ops {
		key := prefix + op.Key
		cur, exists := model[key]
		switch op.Kind {
		case "set", "delete":
			rs = stores[(i+len(op.Key)+len(op.Value))%len(stores)] // updates go through the nodes in turn
			var ver uint64
			switch op.VerMode {
			case "current":
				ver = cur.Ver
			case "stale":
				if cur.Ver > 0 {
					ver = cur.Ver - 1
				}
			case "future":
				ver = maxVer + 1000
			}
			wantOK := !exists || ver == cur.Ver
			if op.Kind == "set" {
				p, err := rs.Set(key, op.Value, ver)
				if err != nil && !errors.Is(err, kv.ErrVersionMismatch) {
					// a proposal that timed out / was dropped says nothing about the compare-and-set rule (and leaves the model in doubt)
					vt.Inconclusive("C13 raft store update: " + err.Error())
					return nil
				}
				if wantOK {
					if err != nil {
						return vt.Failf(prop+"/cas-rejected-valid", i, "RaftStore.Set(%q, ver %d) with current version %d (exists %v): %v", key, ver, cur.Ver, exists, err)
					}
					if p.Key != key || p.Value != op.Value || p.Ver <= maxVer {
						return vt.Failf(prop+"/version-not-increasing", i, "RaftStore.Set returned %+v, versions handed out before reach %d", p, maxVer)
					}
					maxVer = p.Ver
					model[key] = mpair{op.Value, p.Ver}
					b := both[key]
					b[0] = true
					both[key] = b
				} else {
					if !errors.Is(err, kv.ErrVersionMismatch) {
						return vt.Failf(prop+"/cas-accepted-stale", i, "RaftStore.Set(%q, ver %d) while the current version is %d: err %v, want ErrVersionMismatch", key, ver, cur.Ver, err)
					}
					if p.Key != key || p.Value != cur.Value || p.Ver != cur.Ver {
						return vt.Failf(prop+"/mismatch-reports-current", i, "mismatch reports %+v, current pair is %q ver %d", p, cur.Value, cur.Ver)
					}
					b := both[key]
					b[1] = true
					both[key] = b
				}
			} else {
				err := rs.Delete(key, ver)
				if err != nil && !errors.Is(err, kv.ErrVersionMismatch) && !errors.Is(err, kv.ErrNotExist) {
					vt.Inconclusive("C13 raft store update: " + err.Error())
					return nil
				}
				if wantOK {
					if err != nil {
						return vt.Failf(prop+"/cas-rejected-valid", i, "RaftStore.Delete(%q, ver %d) with current version %d (exists %v): %v", key, ver, cur.Ver, exists, err)
					}
					delete(model, key)
				} else if !errors.Is(err, kv.ErrVersionMismatch) {
					return vt.Failf(prop+"/cas-accepted-stale", i, "RaftStore.Delete(%q, ver %d) while the current version is %d: err %v, want ErrVersionMismatch", key, ver, cur.Ver, err)
				}
			}
		case "get":
			p, err := rs.Get(key)
			if exists {
				if err != nil || p != (kv.Pair{Key: key, Value: cur.Value, Ver: cur.Ver}) {
					return vt.Failf(prop+"/get", i, "RaftStore.Get(%q) = %+v, %v; model %q ver %d", key, p, err, cur.Value, cur.Ver)
				}
			} else if !errors.Is(err, kv.ErrNotExist) {
				return vt.Failf(prop+"/get", i, "RaftStore.Get(%q) of a missing key: %+v, %v", key, p, err)
			}
		case "exists":
			ok, err := rs.Exists(key)
			if err != nil || ok != exists {
				return vt.Failf(prop+"/exists", i, "RaftStore.Exists(%q) = %v, %v; model %v", key, ok, err, exists)
			}
		case "getall":
			// all keys of this case below one path element
			ps, err := rs.GetAll(prefix + "/tables/*")
			if err != nil {
				return vt.Failf(prop+"/glob", i, "%v", err)
			}
			want := 0
			for k := range model {
				if m, ok := callerGlob(prefix+"/tables/*", k); ok && m {
					want++
				}
			}
			if len(ps) != want {
				return vt.Failf(prop+"/glob", i, "RaftStore.GetAll(%q) returned %d pairs, model has %d matching keys", prefix+"/tables/*", len(ps), want)
			}
			for _, p := range ps {
				if mp, ok := model[p.Key]; !ok || mp.Value != p.Value || mp.Ver != p.Ver {
					return vt.Failf(prop+"/glob", i, "RaftStore.GetAll returned %+v, model %+v (present %v)", p, mp, ok)
				}
			}
		}
	}
	for _, b := range both {
		if b[0] && b[1] {
			o.NonTrivial = true
			o.Label("rejected-and-accepted-update-on-one-key")
		}
	}
	o.Describe = func() string { return fmt.Sprintf("%+v", c.Ops) }
	return nil
}

func TestC13Raft(t *testing.T)          { vt.Check(t, prop, genCase, runRaft) }
func TestC13Cluster(t *testing.T)       { vt.Check(t, prop, genCase, runRaftCluster) }
func TestC13ClusterReplay(t *testing.T) { vt.Replay(t, prop, runRaftCluster) }
func TestC13RaftReplay(t *testing.T)    { vt.Replay(t, prop, runRaft) }
func TestC13RaftRegress(t *testing.T)   { vt.Regress(t, prop, "testdata", runRaft) }
