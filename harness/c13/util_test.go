package c13

import "time"

func sleepMs(n int) { time.Sleep(time.Duration(n) * time.Millisecond) }
