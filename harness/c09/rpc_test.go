package c09

// TestC09RPC: the same read oracle on the gRPC surface - KV.Range and KV.IterateRange of a real KVServer in front of a real
// storage.Engine, over a real loopback gRPC connection with a default client (4 MiB receive limit): regattaserver/kv.go, storage/engine.go
// (iter.Map, response header), storage/table/table.go (Iterator / Range, linearizable and serializable), util/iter (Pull).
// Writes are sent while a stream is being consumed: the streamed read has to remain a single point-in-time view.

import (
	"bytes"
	"context"
	"errors"
	"fmt"
	"io"
	"sync"
	"sync/atomic"
	"testing"
	"time"

	"github.com/jamf/regatta/regattapb"
	"github.com/jamf/regatta/regattaserver"
	"google.golang.org/grpc"
	"pgregory.net/rapid"

	"verifharness/internal/enginefx"
	"verifharness/internal/model"
	"verifharness/internal/tlog"
	"verifharness/internal/vt"
)

type RPCCase struct {
	Case
	Lin        []bool `json:"lin"`         // per read: linearizable?
	MidWrites  bool   `json:"mid_writes"`  // send writes after the first streamed message
	ConsumeGap int    `json:"consume_gap"` // ms to wait before reading the rest of a stream (server blocked in Send)
}

func genRPC(t *rapid.T) RPCCase {
	var c RPCCase
	switch rapid.IntRange(0, 9).Draw(t, "shape") {
	case 0:
		c.Case = genLarge(t)
	case 1:
		c.Case = genMany(t)
		c.Case.Many.N /= 2
		if c.Case.Many.N*c.Case.Many.VSize < 4300*1024 {
			c.Case.Many.N = 4300 * 1024 / c.Case.Many.VSize
		}
	default:
		c.Case = genCase(t)
	}
	for range c.Reads {
		c.Lin = append(c.Lin, rapid.Bool().Draw(t, "lin"))
	}
	c.MidWrites = rapid.Bool().Draw(t, "midwrites")
	c.ConsumeGap = rapid.SampledFrom([]int{0, 0, 5, 30}).Draw(t, "gap")
	return c
}

var (
	rpcOnce sync.Once
	rpcFx   *enginefx.Fixture
	rpcKV   regattapb.KVClient
	rpcErr  error
	rpcNo   atomic.Int64
)

func rpcSetup() {
	rpcFx, rpcErr = enginefx.Start(enginefx.Opts{MaxInMemLogSize: 6 * 1024 * 1024})
	if rpcErr != nil {
		return
	}
	var srv *enginefx.Server
	srv, rpcErr = enginefx.Serve(func(r grpc.ServiceRegistrar) {
		regattapb.RegisterKVServer(r, &regattaserver.KVServer{Storage: rpcFx.E})
	})
	if rpcErr != nil {
		return
	}
	var conn *grpc.ClientConn
	conn, rpcErr = enginefx.Dial(srv.Addr)
	if rpcErr != nil {
		return
	}
	rpcKV = regattapb.NewKVClient(conn)
}

func toOp(r *regattapb.RangeResponse) *regattapb.ResponseOp_Range {
	return &regattapb.ResponseOp_Range{Kvs: r.Kvs, More: r.More, Count: r.Count}
}

func runRPC(c RPCCase, o *vt.Obs) *vt.Failure {
	rpcOnce.Do(rpcSetup)
	if rpcErr != nil {
		vt.Inconclusive("C09 rpc fixture: " + rpcErr.Error())
		return nil
	}
	name := fmt.Sprintf("t%d", rpcNo.Add(1))
	if _, err := rpcFx.CreateTable(name); err != nil {
		vt.Inconclusive("C09 rpc create table: " + err.Error())
		return nil
	}
	defer func() { _ = rpcFx.E.DeleteTable(name) }()
	tb := []byte(name)
	m := model.New()
	idx := uint64(1)
	call := func() (context.Context, context.CancelFunc) {
		return context.WithTimeout(context.Background(), 60*time.Second)
	}
	put := func(k, v []byte) error {
		ctx, cancel := call()
		defer cancel()
		if _, err := rpcKV.Put(ctx, &regattapb.PutRequest{Table: tb, Key: k, Value: v}); err != nil {
			return err
		}
		m.Apply(&regattapb.Command{Type: regattapb.Command_PUT, Kv: &regattapb.KeyValue{Key: k, Value: v}}, idx)
		idx++
		return nil
	}
	del := func(k []byte) error {
		ctx, cancel := call()
		defer cancel()
		if _, err := rpcKV.DeleteRange(ctx, &regattapb.DeleteRangeRequest{Table: tb, Key: k}); err != nil {
			return err
		}
		m.Apply(&regattapb.Command{Type: regattapb.Command_DELETE, Kv: &regattapb.KeyValue{Key: k}}, idx)
		idx++
		return nil
	}
	if c.Many != nil {
		val := bytes.Repeat([]byte{'s'}, c.Many.VSize)
		for i := 0; i < c.Many.N; i += 400 {
			txn := &regattapb.TxnRequest{Table: tb}
			cmd := &regattapb.Command{Type: regattapb.Command_PUT_BATCH}
			for j := i; j < i+400 && j < c.Many.N; j++ {
				txn.Success = append(txn.Success, &regattapb.RequestOp{Request: &regattapb.RequestOp_RequestPut{RequestPut: &regattapb.RequestOp_Put{Key: c.Many.key(j), Value: val}}})
				cmd.Batch = append(cmd.Batch, &regattapb.KeyValue{Key: c.Many.key(j), Value: val})
			}
			ctx, cancel := call()
			_, err := rpcKV.Txn(ctx, txn)
			cancel()
			if err != nil {
				vt.Inconclusive("C09 rpc load: " + err.Error())
				return nil
			}
			m.Apply(cmd, idx)
			idx++
		}
	}
	for _, kv := range c.Content {
		if len(kv.K) > 1024 {
			continue
		}
		if err := put(kv.K, kv.V.Bytes()); err != nil {
			vt.Inconclusive("C09 rpc load: " + err.Error())
			return nil
		}
	}
	for _, d := range c.Deletes {
		if len(d) > 1024 {
			continue
		}
		if err := del(d); err != nil {
			vt.Inconclusive("C09 rpc load: " + err.Error())
			return nil
		}
	}
	nt := false
	for i, rd := range c.Reads {
		req := rd.req()
		if len(req.Key) > 1024 || len(req.RangeEnd) > 1024 {
			continue
		}
		if req.RangeEnd != nil && len(req.RangeEnd) == 0 {
			req.RangeEnd = nil // the wire cannot carry an empty-but-present range_end in a RangeRequest
		}
		lin := i < len(c.Lin) && c.Lin[i]
		rr := &regattapb.RangeRequest{Table: tb, Key: req.Key, RangeEnd: req.RangeEnd, Limit: req.Limit, KeysOnly: req.KeysOnly, CountOnly: req.CountOnly, Linearizable: lin}
		want := m.Read(req)
		matching := len(m.Range(req.Key, req.RangeEnd))
		if req.RangeEnd != nil && matching >= 2 && req.Limit != 0 && abs(int(req.Limit)-matching) <= 1 {
			nt = true
		}
		// unary
		ctx, cancel := call()
		got, err := rpcKV.Range(ctx, rr)
		cancel()
		if err != nil {
			return vt.Failf(prop+"/rpc-read-error", i, "KV.Range %s lin=%v: %v", tlog.FmtRange(req), lin, err)
		}
		if err := checkSorted(got.Kvs); err != nil {
			return vt.Failf(prop+"/order", i, "KV.Range %s: %v", tlog.FmtRange(req), err)
		}
		if cerr := model.CheckRangeResponse(want, toOp(got), true); cerr != nil {
			return vt.Failf(prop+"/rpc-"+classify(cerr), i, "KV.Range %s lin=%v: %v", tlog.FmtRange(req), lin, cerr)
		}
		if !want.CountOnly && len(want.Pairs) > 0 && len(got.Kvs) == 0 {
			return vt.Failf(prop+"/no-progress", i, "KV.Range %s: empty page although %d pairs match", tlog.FmtRange(req), len(want.Pairs))
		}
		// streamed; a message above the client's default limit surfaces as ResourceExhausted = "does not stay below the transport limit"
		ctx, cancel = call()
		st, err := rpcKV.IterateRange(ctx, rr)
		if err != nil {
			cancel()
			return vt.Failf(prop+"/rpc-read-error", i, "KV.IterateRange %s: %v", tlog.FmtRange(req), err)
		}
		var chunks []*regattapb.ResponseOp_Range
		before := want
		wrote := false
		for {
			msg, err := st.Recv()
			if errors.Is(err, io.EOF) {
				break
			}
			if err != nil {
				cancel()
				return vt.Failf(prop+"/rpc-stream-error", i, "KV.IterateRange %s lin=%v after %d messages: %v", tlog.FmtRange(req), lin, len(chunks), err)
			}
			chunks = append(chunks, toOp(msg))
			if len(chunks) == 1 && c.MidWrites && !want.Single && len(want.Pairs) >= 2 {
				// the first message is here, the server is (for a multi-message answer) blocked in Send or about to produce the next one
				wrote = true
				lastKey, firstKey := want.Pairs[len(want.Pairs)-1].K, want.Pairs[0].K
				seen := firstKey
				if len(msg.Kvs) > 0 {
					seen = msg.Kvs[len(msg.Kvs)-1].Key
				}
				nk := append(append([]byte(nil), seen...), 0x00)
				var werr error
				if werr = del(lastKey); werr == nil && len(nk) <= 1024 {
					werr = put(nk, []byte("added-mid-stream"))
				}
				if werr == nil {
					werr = put(firstKey, []byte("changed-mid-stream"))
				}
				if werr != nil {
					cancel()
					vt.Inconclusive("C09 rpc mid-stream write: " + werr.Error())
					return nil
				}
				if c.ConsumeGap > 0 {
					time.Sleep(time.Duration(c.ConsumeGap) * time.Millisecond)
				}
			}
		}
		cancel()
		for ci, ch := range chunks {
			if ci > 0 && len(ch.Kvs) == 0 && !want.CountOnly {
				// legal ("split into consecutive messages"): where a stream is cut, and whether a message may be empty, is the server's business
				o.Label("rpc-stream-with-an-empty-message")
			}
		}
		merged, merr := tlog.MergeChunks(chunks)
		if merr != nil {
			return vt.Failf(prop+"/stream-more-flags", i, "KV.IterateRange %s: %v", tlog.FmtRange(req), merr)
		}
		if err := checkSorted(merged.Kvs); err != nil {
			return vt.Failf(prop+"/order", i, "KV.IterateRange %s: %v", tlog.FmtRange(req), err)
		}
		if cerr := model.CheckRangeResponse(before, merged, false); cerr != nil {
			sig := "/rpc-stream-" + classify(cerr)
			if wrote {
				sig = "/stream-not-point-in-time"
			}
			return vt.Failf(prop+sig, i, "KV.IterateRange %s lin=%v (%d messages, writes mid-stream=%v): %v", tlog.FmtRange(req), lin, len(chunks), wrote, cerr)
		}
		// (An earlier version demanded "first streamed message == unary answer".  That is how the pinned tree happens to cut, not what C09
		// states - a server that streams in smaller messages than it pages is as good: false alarm 15 in DESIGN section 6.)
		if !want.Single && !wrote && len(chunks[0].Kvs) != len(got.Kvs) {
			o.Label("rpc-stream-cut-differently-from-the-unary-page")
		}
		if len(chunks) > 1 {
			nt = true
			o.Label("rpc-multi-message")
			if wrote {
				o.Label("rpc-writes-mid-stream-multi-message")
			}
		}
		if lin {
			o.Label("rpc-linearizable")
		}
	}
	o.NonTrivial = nt
	o.Describe = func() string {
		s := fmt.Sprintf("rpc: content %d pairs", len(c.Content))
		if c.Many != nil {
			s += fmt.Sprintf(" + %d x %d B", c.Many.N, c.Many.VSize)
		}
		s += fmt.Sprintf(" deletes %d midwrites=%v reads:", len(c.Deletes), c.MidWrites)
		for i, rd := range c.Reads {
			s += fmt.Sprintf(" %s lin=%v;", tlog.FmtRangeShort(rd.req()), i < len(c.Lin) && c.Lin[i])
		}
		return s
	}
	return nil
}

func TestC09RPC(t *testing.T)        { vt.Check(t, prop, genRPC, runRPC) }
func TestC09RPCReplay(t *testing.T)  { vt.Replay(t, prop, runRPC) }
func TestC09RPCRegress(t *testing.T) { vt.Regress(t, prop, "testdata", runRPC) }
