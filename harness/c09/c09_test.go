// C09 — range reads are sorted, bounded, truthful about 'more', and page losslessly.
package c09

import (
	"bytes"
	"fmt"
	"sort"
	"testing"

	"github.com/jamf/regatta/regattapb"
	"github.com/jamf/regatta/storage/table"
	"github.com/jamf/regatta/storage/table/fsm"
	"github.com/jamf/regatta/util/iter"
	"pgregory.net/rapid"

	"verifharness/internal/fsmx"
	"verifharness/internal/gen"
	"verifharness/internal/model"
	"verifharness/internal/tlog"
	"verifharness/internal/vt"
)

const prop = "C09"

// transportLimit is gRPC's default maximum message size (what a default client accepts).
const transportLimit = 4 * 1024 * 1024

// Val is a value given literally or as (length, fill byte) so that large values keep the case small.
type Val struct {
	B []byte `json:"b,omitempty"`
	N int    `json:"n,omitempty"`
	F byte   `json:"f,omitempty"`
}

func (v Val) Bytes() []byte {
	if v.N > 0 {
		return bytes.Repeat([]byte{v.F}, v.N)
	}
	return v.B
}

type KV struct {
	K []byte `json:"k"`
	V Val    `json:"v"`
}

type Read struct {
	Key       []byte `json:"key"`
	End       []byte `json:"end"`
	EndNil    bool   `json:"end_nil,omitempty"` // single-key read
	Limit     int64  `json:"limit"`
	KeysOnly  bool   `json:"keys_only,omitempty"`
	CountOnly bool   `json:"count_only,omitempty"`
}

type Case struct {
	RecoveryType int       `json:"recovery_type"`
	Content      []KV      `json:"content"`
	Deletes      [][]byte  `json:"deletes,omitempty"` // keys deleted again after loading (tombstones under the iterator)
	Flush        bool      `json:"flush"`
	Reads        []Read    `json:"reads"`
	Many         *ManySpec `json:"many,omitempty"`
}

func (r Read) req() *regattapb.RequestOp_Range {
	q := &regattapb.RequestOp_Range{Key: r.Key, Limit: r.Limit, KeysOnly: r.KeysOnly, CountOnly: r.CountOnly}
	if !r.EndNil {
		q.RangeEnd = r.End
		if q.RangeEnd == nil {
			q.RangeEnd = []byte{}
		}
	}
	return q
}

func genReads(t *rapid.T, pool *gen.Pool, sorted [][]byte, n int) []Read {
	var out []Read
	for i := 0; i < n; i++ {
		r := Read{}
		switch rapid.IntRange(0, 9).Draw(t, "read.lowclass") {
		case 0, 1, 2:
			r.Key = []byte{0}
		case 3, 4, 5:
			if len(sorted) > 0 {
				r.Key = append([]byte(nil), sorted[rapid.IntRange(0, len(sorted)-1).Draw(t, "read.lowidx")]...)
			} else {
				r.Key = pool.Key(t, "read.low")
			}
		default:
			r.Key = pool.Key(t, "read.low")
		}
		switch rapid.IntRange(0, 9).Draw(t, "read.endclass") {
		case 0:
			r.EndNil = true
		case 1, 2, 3, 4:
			r.End = []byte{0}
		case 5:
			r.End = []byte{}
		case 6, 7:
			if len(sorted) > 0 {
				r.End = append([]byte(nil), sorted[rapid.IntRange(0, len(sorted)-1).Draw(t, "read.endidx")]...)
			} else {
				r.End = pool.Key(t, "read.end")
			}
		default:
			r.End = pool.Key(t, "read.end")
		}
		// number of matching pairs, to aim the limit at the boundary
		m := 0
		if !r.EndNil {
			for _, k := range sorted {
				if bytes.Compare(k, r.Key) >= 0 && (bytes.Equal(r.End, []byte{0}) || bytes.Compare(k, r.End) < 0) {
					m++
				}
			}
		}
		switch rapid.IntRange(0, 5).Draw(t, "read.limitclass") {
		case 0:
			r.Limit = 0
		case 1, 2, 3:
			r.Limit = int64(max(0, m+rapid.IntRange(-2, 2).Draw(t, "read.limitdelta")))
		default:
			r.Limit = int64(rapid.IntRange(1, 45).Draw(t, "read.limit"))
		}
		switch rapid.IntRange(0, 4).Draw(t, "read.flags") {
		case 0:
			r.KeysOnly = true
		case 1:
			r.CountOnly = true
		}
		out = append(out, r)
	}
	return out
}

func sortedKeys(content []KV, deletes [][]byte) [][]byte {
	set := map[string]bool{}
	for _, kv := range content {
		set[string(kv.K)] = true
	}
	for _, d := range deletes {
		delete(set, string(d))
	}
	var ks []string
	for k := range set {
		ks = append(ks, k)
	}
	sort.Strings(ks)
	out := make([][]byte, len(ks))
	for i, k := range ks {
		out[i] = []byte(k)
	}
	return out
}

func genCase(t *rapid.T) Case {
	pool := gen.NewPool(t, 2, 8, 1024)
	c := Case{RecoveryType: rapid.IntRange(0, 1).Draw(t, "rtype"), Flush: rapid.Bool().Draw(t, "flush")}
	n := rapid.IntRange(0, 40).Draw(t, "content.n")
	for i := 0; i < n; i++ {
		var k []byte
		if rapid.Bool().Draw(t, "content.seq") {
			k = []byte(fmt.Sprintf("k%03d", rapid.IntRange(0, 60).Draw(t, "content.num")))
		} else {
			k = pool.Key(t, "content.key")
		}
		c.Content = append(c.Content, KV{K: k, V: Val{B: gen.Value(t, "content")}})
	}
	nd := rapid.IntRange(0, 3).Draw(t, "deletes.n")
	for i := 0; i < nd && len(c.Content) > 0; i++ {
		c.Deletes = append(c.Deletes, c.Content[rapid.IntRange(0, len(c.Content)-1).Draw(t, "deletes.idx")].K)
	}
	c.Reads = genReads(t, pool, sortedKeys(c.Content, c.Deletes), rapid.IntRange(1, 8).Draw(t, "reads.n"))
	return c
}

// maxValue: the largest value the table layer accepts (2 MiB on the pinned tree).  Taken from the code, not restated, so that "pairs near
// the value limit" stay near the limit the server really enforces (seeded change C09-J raises it: a single pair then reaches the size at
// which a response chunk is closed).
var maxValue = table.MaxValueLen

// genLarge: few pairs with values of 0.5-2 MiB so that the ~4 MiB size cut triggers, including on the last pair.
func genLarge(t *rapid.T) Case {
	pool := gen.NewPool(t, 2, 4, 64)
	c := Case{RecoveryType: rapid.IntRange(0, 1).Draw(t, "rtype"), Flush: rapid.Bool().Draw(t, "flush")}
	n := rapid.IntRange(2, 6).Draw(t, "content.n")
	for i := 0; i < n; i++ {
		k := []byte(fmt.Sprintf("k%03d", i*2))
		var v Val
		switch rapid.IntRange(0, 5).Draw(t, "content.size") {
		case 0:
			v = Val{B: []byte("small")}
		case 1:
			v = Val{N: maxValue, F: 'x'} // exactly the maximum value size
		case 2:
			v = Val{N: maxValue - rapid.IntRange(0, 2048).Draw(t, "content.near"), F: 'y'}
		default:
			v = Val{N: rapid.IntRange(maxValue/4, maxValue).Draw(t, "content.len"), F: 'z'}
		}
		c.Content = append(c.Content, KV{K: k, V: v})
	}
	c.Reads = genReads(t, pool, sortedKeys(c.Content, nil), rapid.IntRange(1, 4).Draw(t, "reads.n"))
	// always include the full unbounded read
	c.Reads = append(c.Reads, Read{Key: []byte{0}, End: []byte{0}})
	return c
}

// genMany: thousands of small pairs (1-3 KiB) adding up to more than 4 MiB, so that size-based cuts are decided by many small
// increments (per-pair framing overhead matters) and several consecutive messages are full.
func genMany(t *rapid.T) Case {
	pool := gen.NewPool(t, 2, 4, 64)
	c := Case{RecoveryType: rapid.IntRange(0, 1).Draw(t, "rtype"), Flush: rapid.Bool().Draw(t, "flush")}
	vsz := rapid.SampledFrom([]int{700, 1000, 2048, 3000, 6000}).Draw(t, "content.vsize")
	total := rapid.IntRange(4500, 9000).Draw(t, "content.totalKiB") * 1024
	n := total / vsz
	c.Many = &ManySpec{N: n, VSize: vsz, KeyLen: rapid.SampledFrom([]int{6, 40, 200}).Draw(t, "content.klen")}
	var sorted [][]byte
	for i := 0; i < n; i += n / 7 {
		sorted = append(sorted, c.Many.key(i))
	}
	c.Reads = genReads(t, pool, sorted, rapid.IntRange(1, 3).Draw(t, "reads.n"))
	c.Reads = append(c.Reads, Read{Key: []byte{0}, End: []byte{0}}, Read{Key: []byte{0}, End: []byte{0}, KeysOnly: true})
	return c
}

// ManySpec describes a large generated content compactly.
type ManySpec struct {
	N      int `json:"n"`
	VSize  int `json:"vsize"`
	KeyLen int `json:"key_len"`
}

func (m *ManySpec) key(i int) []byte {
	k := []byte(fmt.Sprintf("m%07d", i))
	for len(k) < m.KeyLen {
		k = append(k, '.')
	}
	return k
}

func load(c Case) (*fsmx.Replica, *model.Map, func(cmd *regattapb.Command) *vt.Failure, *vt.Failure) {
	r := fsmx.Create(fsmx.NewFS(), fsm.SnapshotRecoveryType(c.RecoveryType), 1)
	if _, err := r.Open(); err != nil {
		return nil, nil, nil, vt.Failf(prop+"/open-error", 0, "%v", err)
	}
	m := model.New()
	idx := uint64(1)
	apply := func(cmd *regattapb.Command) *vt.Failure {
		b, _ := cmd.MarshalVT()
		if _, err := r.Apply(fsmx.MkEntries(idx, [][]byte{b})); err != nil {
			return vt.Failf(prop+"/apply-error", 0, "%v", err)
		}
		m.Apply(cmd, idx)
		idx++
		return nil
	}
	if c.Many != nil {
		val := bytes.Repeat([]byte{'s'}, c.Many.VSize)
		for i := 0; i < c.Many.N; i += 500 {
			cmd := &regattapb.Command{Table: []byte("t"), Type: regattapb.Command_PUT_BATCH}
			for j := i; j < i+500 && j < c.Many.N; j++ {
				cmd.Batch = append(cmd.Batch, &regattapb.KeyValue{Key: c.Many.key(j), Value: val})
			}
			if f := apply(cmd); f != nil {
				_ = r.Close()
				return nil, nil, nil, f
			}
		}
	}
	for _, kv := range c.Content {
		if f := apply(&regattapb.Command{Table: []byte("t"), Type: regattapb.Command_PUT, Kv: &regattapb.KeyValue{Key: kv.K, Value: kv.V.Bytes()}}); f != nil {
			_ = r.Close()
			return nil, nil, nil, f
		}
	}
	if c.Flush {
		if err := r.SM.Sync(); err != nil {
			_ = r.Close()
			return nil, nil, nil, vt.Failf(prop+"/sync-error", 0, "%v", err)
		}
	}
	for _, d := range c.Deletes {
		if f := apply(&regattapb.Command{Table: []byte("t"), Type: regattapb.Command_DELETE, Kv: &regattapb.KeyValue{Key: d}}); f != nil {
			_ = r.Close()
			return nil, nil, nil, f
		}
	}
	return r, m, apply, nil
}

// checkSorted asserts strictly ascending keys (hence no duplicates).
func checkSorted(kvs []*regattapb.KeyValue) error {
	for i := 1; i < len(kvs); i++ {
		if bytes.Compare(kvs[i-1].Key, kvs[i].Key) >= 0 {
			return fmt.Errorf("keys not strictly ascending at %d: %q then %q", i, kvs[i-1].Key, kvs[i].Key)
		}
	}
	return nil
}

func run(c Case, o *vt.Obs) *vt.Failure {
	r, m, apply, f := load(c)
	if f != nil {
		return f
	}
	defer r.Close()
	nt := false
	for i, rd := range c.Reads {
		req := rd.req()
		want := m.Read(req)
		matching := len(m.Range(req.Key, req.RangeEnd))
		if req.RangeEnd != nil && matching >= 2 && req.Limit != 0 && abs(int(req.Limit)-matching) <= 1 {
			nt = true
			o.Label(fmt.Sprintf("limit=matches%+d", int(req.Limit)-matching))
		}
		// path 1: unary Lookup
		got, err := r.Range(req)
		if err != nil {
			return vt.Failf(prop+"/read-error", i, "range %s: %v", tlog.FmtRange(req), err)
		}
		if err := checkSorted(got.Kvs); err != nil {
			return vt.Failf(prop+"/order", i, "range %s: %v", tlog.FmtRange(req), err)
		}
		if cerr := model.CheckRangeResponse(want, got, true); cerr != nil {
			return vt.Failf(prop+"/"+classify(cerr), i, "range %s: %v", tlog.FmtRange(req), cerr)
		}
		if got.SizeVT()+256 >= transportLimit {
			return vt.Failf(prop+"/message-size", i, "range %s: response of %d bytes does not stay below the transport limit", tlog.FmtRange(req), got.SizeVT())
		}
		if !want.CountOnly && len(want.Pairs) > 0 && len(got.Kvs) == 0 {
			return vt.Failf(prop+"/no-progress", i, "range %s: empty page although %d pairs match", tlog.FmtRange(req), len(want.Pairs))
		}
		sizeCut := !want.CountOnly && len(got.Kvs) < len(want.Pairs)
		// path 2: streamed lookup, all chunks
		chunks, err := r.Iterate(req)
		if err != nil {
			return vt.Failf(prop+"/read-error", i, "iterate %s: %v", tlog.FmtRange(req), err)
		}
		for ci, ch := range chunks {
			if ch.SizeVT()+256 >= transportLimit {
				return vt.Failf(prop+"/message-size", i, "iterate %s: chunk %d has %d bytes", tlog.FmtRange(req), ci, ch.SizeVT())
			}
			if ci > 0 && len(ch.Kvs) == 0 && !want.CountOnly {
				// legal ("split into consecutive messages"): where a stream is cut, and whether a message may be empty, is the server's business
				o.Label("stream-with-an-empty-message")
			}
		}
		merged, merr := tlog.MergeChunks(chunks)
		if merr != nil {
			return vt.Failf(prop+"/stream-more-flags", i, "iterate %s: %v", tlog.FmtRange(req), merr)
		}
		if err := checkSorted(merged.Kvs); err != nil {
			return vt.Failf(prop+"/order", i, "iterate %s: %v", tlog.FmtRange(req), err)
		}
		if cerr := model.CheckRangeResponse(want, merged, false); cerr != nil {
			return vt.Failf(prop+"/stream-"+classify(cerr), i, "iterate %s (%d chunks): %v", tlog.FmtRange(req), len(chunks), cerr)
		}
		// (An earlier version demanded "first chunk of the stream == unary answer": how the pinned tree happens to cut, not what C09 states -
		// false alarm 15 in DESIGN section 6.)
		if !want.Single && len(chunks[0].Kvs) != len(got.Kvs) {
			o.Label("stream-cut-differently-from-the-unary-page")
		}
		if sizeCut || len(chunks) > 1 {
			nt = true
			o.Label("size-cut")
			if len(chunks) > 1 && len(chunks[len(chunks)-1].Kvs) == 1 {
				o.Label("size-cut-before-last-pair")
			}
		}
		// path 3: the streamed sequence is obtained first and consumed only after OTHER requests were served by the state machine
		// (a server handles many requests between a stream's Lookup and its first pull); reads do not change the state
		if !want.Single {
			v, err := r.SM.Lookup(fsm.IteratorRequest{RangeOp: req})
			if err != nil {
				return vt.Failf(prop+"/read-error", i, "iterate %s: %v", tlog.FmtRange(req), err)
			}
			other := c.Reads[(i+1)%len(c.Reads)].req()
			_, _ = r.Range(other)
			_, _ = r.Range(&regattapb.RequestOp_Range{Key: []byte("zz-unrelated-point-read")})
			_, _ = r.Range(&regattapb.RequestOp_Range{Key: []byte{0}, RangeEnd: []byte("a")})
			var late []*regattapb.ResponseOp_Range
			v.(iter.Seq[*regattapb.ResponseOp_Range])(func(x *regattapb.ResponseOp_Range) bool {
				late = append(late, x)
				return true
			})
			lm, merr := tlog.MergeChunks(late)
			if merr != nil {
				return vt.Failf(prop+"/stream-more-flags", i, "iterate (consumed after other requests) %s: %v", tlog.FmtRange(req), merr)
			}
			if cerr := model.CheckRangeResponse(want, lm, false); cerr != nil {
				return vt.Failf(prop+"/stream-consumed-late-"+classify(cerr), i, "iterate %s consumed after other requests had been served: %v", tlog.FmtRange(req), cerr)
			}
		}
		// path 4: writes applied WHILE the stream is being consumed (after its first message): the stream has to stay one point-in-time
		// view, and the first message was produced before the writes, so that view is the state before them.
		if !want.Single && !want.CountOnly && len(want.Pairs) >= 2 {
			v, err := r.SM.Lookup(fsm.IteratorRequest{RangeOp: req})
			if err != nil {
				return vt.Failf(prop+"/read-error", i, "iterate %s: %v", tlog.FmtRange(req), err)
			}
			before := m.Read(req)
			var mid []*regattapb.ResponseOp_Range
			var werr *vt.Failure
			v.(iter.Seq[*regattapb.ResponseOp_Range])(func(x *regattapb.ResponseOp_Range) bool {
				mid = append(mid, x)
				if len(mid) == 1 {
					lastKey := want.Pairs[len(want.Pairs)-1].K
					firstKey := want.Pairs[0].K
					seen := firstKey
					if len(x.Kvs) > 0 {
						seen = x.Kvs[len(x.Kvs)-1].Key
					}
					writes := []*regattapb.Command{
						{Table: []byte("t"), Type: regattapb.Command_DELETE, Kv: &regattapb.KeyValue{Key: lastKey}},
						{Table: []byte("t"), Type: regattapb.Command_PUT, Kv: &regattapb.KeyValue{Key: append(append([]byte(nil), seen...), 0x00), Value: []byte("added-mid-stream")}},
						{Table: []byte("t"), Type: regattapb.Command_PUT, Kv: &regattapb.KeyValue{Key: firstKey, Value: []byte("changed-mid-stream")}},
					}
					for _, w := range writes {
						if len(w.Kv.Key) > 1024 {
							continue
						}
						if f := apply(w); f != nil {
							werr = f
							return false
						}
					}
				}
				return true
			})
			if werr != nil {
				return werr
			}
			mm, merr := tlog.MergeChunks(mid)
			if merr != nil {
				return vt.Failf(prop+"/stream-more-flags", i, "iterate (writes mid-stream) %s: %v", tlog.FmtRange(req), merr)
			}
			if cerr := model.CheckRangeResponse(before, mm, false); cerr != nil {
				return vt.Failf(prop+"/stream-not-point-in-time", i, "iterate %s (%d messages) with writes applied after the first message: not the view the stream started with: %v", tlog.FmtRange(req), len(mid), cerr)
			}
			if len(mid) > 1 {
				o.Label("writes-mid-stream-multi-message")
			}
			want = m.Read(req)
			merged2, err := r.Iterate(req)
			if err != nil {
				return vt.Failf(prop+"/read-error", i, "iterate %s: %v", tlog.FmtRange(req), err)
			}
			if merged, merr = tlog.MergeChunks(merged2); merr != nil {
				return vt.Failf(prop+"/stream-more-flags", i, "iterate %s: %v", tlog.FmtRange(req), merr)
			}
			if cerr := model.CheckRangeResponse(want, merged, false); cerr != nil {
				return vt.Failf(prop+"/stream-"+classify(cerr), i, "iterate %s after mid-stream writes: %v", tlog.FmtRange(req), cerr)
			}
		}
		// variants agree with the full read: keys-only / count-only over the same bounds and limit
		if !rd.KeysOnly && !rd.CountOnly && !want.Single {
			ko := regattapb.RequestOp_Range{Key: req.Key, RangeEnd: req.RangeEnd, Limit: req.Limit, KeysOnly: true}
			kch, err := r.Iterate(&ko)
			if err != nil {
				return vt.Failf(prop+"/read-error", i, "%v", err)
			}
			km, merr := tlog.MergeChunks(kch)
			if merr != nil {
				return vt.Failf(prop+"/stream-more-flags", i, "keys-only iterate %s: %v", tlog.FmtRange(&ko), merr)
			}
			if len(km.Kvs) != len(merged.Kvs) || km.More != merged.More {
				return vt.Failf(prop+"/keys-only-disagrees", i, "range %s: full read %d pairs more=%v, keys-only %d more=%v", tlog.FmtRange(req), len(merged.Kvs), merged.More, len(km.Kvs), km.More)
			}
			for x := range km.Kvs {
				if !bytes.Equal(km.Kvs[x].Key, merged.Kvs[x].Key) || len(km.Kvs[x].Value) != 0 {
					return vt.Failf(prop+"/keys-only-disagrees", i, "range %s: keys-only pair %d = %q (value %d bytes), full read key %q", tlog.FmtRange(req), x, km.Kvs[x].Key, len(km.Kvs[x].Value), merged.Kvs[x].Key)
				}
			}
			co := regattapb.RequestOp_Range{Key: req.Key, RangeEnd: req.RangeEnd, Limit: req.Limit, CountOnly: true}
			cresp, err := r.Range(&co)
			if err != nil {
				return vt.Failf(prop+"/read-error", i, "%v", err)
			}
			if cresp.Count != int64(len(merged.Kvs)) || cresp.More != merged.More || len(cresp.Kvs) != 0 {
				return vt.Failf(prop+"/count-only-disagrees", i, "range %s: full read %d pairs more=%v, count-only count=%d more=%v kvs=%d", tlog.FmtRange(req), len(merged.Kvs), merged.More, cresp.Count, cresp.More, len(cresp.Kvs))
			}
		}
	}
	o.NonTrivial = nt
	o.Describe = func() string {
		s := fmt.Sprintf("content %d pairs (", len(c.Content))
		for i, kv := range c.Content {
			if i > 12 {
				s += " ..."
				break
			}
			s += fmt.Sprintf(" %q:%dB", clip(kv.K), len(kv.V.Bytes()))
		}
		s += fmt.Sprintf(" ) deletes %q flush=%v reads:", c.Deletes, c.Flush)
		for _, rd := range c.Reads {
			s += " " + tlog.FmtRangeShort(rd.req()) + ";"
		}
		return s
	}
	return nil
}

func clip(b []byte) []byte {
	if len(b) > 10 {
		return b[:10]
	}
	return b
}

func abs(x int) int {
	if x < 0 {
		return -x
	}
	return x
}

func classify(err error) string {
	s := err.Error()
	switch {
	case bytes.Contains([]byte(s), []byte("more=")):
		return "more-flag"
	case bytes.Contains([]byte(s), []byte("count")):
		return "count"
	case bytes.Contains([]byte(s), []byte("returned")):
		return "bounds-or-limit"
	}
	return "content"
}

func TestC09(t *testing.T)        { vt.Check(t, prop, genCase, run) }
func TestC09Replay(t *testing.T)  { vt.Replay(t, prop, run) }
func TestC09Regress(t *testing.T) { vt.Regress(t, prop, "testdata", run) }

func TestC09Many(t *testing.T)        { vt.Check(t, prop, genMany, run) }
func TestC09ManyReplay(t *testing.T)  { vt.Replay(t, prop, run) }
func TestC09ManyRegress(t *testing.T) { vt.Regress(t, prop, "testdata", run) }

func TestC09Large(t *testing.T)        { vt.Check(t, prop, genLarge, run) }
func TestC09LargeReplay(t *testing.T)  { vt.Replay(t, prop, run) }
func TestC09LargeRegress(t *testing.T) { vt.Regress(t, prop, "testdata", run) }
