// Package model is the reference model of a regatta table: a plain sorted map from non-empty
// byte-string keys to byte-string values plus the two bookkeeping indices.  It is written
// independently of regatta (bytes.Compare, linear scans) and mirrors only *response conventions*
// (which fields are filled when) that were learnt from the code and are documented inline.
package model

import (
	"bytes"
	"fmt"
	"sort"

	"github.com/jamf/regatta/regattapb"
)

type Pair struct {
	K, V []byte
}

// Map is the model state.
type Map struct {
	Pairs       []Pair // sorted by K
	Index       uint64 // index of the last applied entry
	LeaderIndex uint64 // leader_index of the last applied entry that carried one
	T           *Track // optional coverage tracking (never influences results)
}

// Track records coverage facts used for the "non-trivial" classification of cases.
type Track struct {
	dirty         map[string]struct{} // keys written since BeginBatch
	DirtyReads    int                 // reads (prev_kv, count, compare, range) that touched a key written earlier in the same batch
	RangeDelHits  int                 // range deletes that removed >= 1 key
	TxnSucc       int
	TxnFail       int
	TxnRich       int // txn with >=1 predicate and >=2 ops in the executed branch, one of which touched a key written earlier in the same txn/batch
	TxnEmptyTaken int
	inTxnOps      int
	inTxnDirty    bool
}

func (m *Map) BeginBatch() {
	if m.T != nil {
		m.T.dirty = map[string]struct{}{}
	}
}

func (m *Map) markDirty(k []byte) {
	if m.T != nil && m.T.dirty != nil {
		m.T.dirty[string(k)] = struct{}{}
	}
}

func (m *Map) noteRead(key, end []byte, isRange bool) {
	if m.T == nil || len(m.T.dirty) == 0 {
		return
	}
	hit := false
	if !isRange {
		_, hit = m.T.dirty[string(key)]
	} else {
		wild := bytes.Equal(end, Wildcard)
		for k := range m.T.dirty {
			if bytes.Compare([]byte(k), key) >= 0 && (wild || bytes.Compare([]byte(k), end) < 0) {
				hit = true
				break
			}
		}
	}
	if hit {
		m.T.DirtyReads++
		m.T.inTxnDirty = true
	}
}

func New() *Map { return &Map{} }

func (m *Map) Clone() *Map {
	c := &Map{Index: m.Index, LeaderIndex: m.LeaderIndex, Pairs: make([]Pair, len(m.Pairs))} // tracking is not cloned
	copy(c.Pairs, m.Pairs)                                                                   // pairs are immutable once stored
	return c
}

func (m *Map) find(k []byte) (int, bool) {
	i := sort.Search(len(m.Pairs), func(i int) bool { return bytes.Compare(m.Pairs[i].K, k) >= 0 })
	return i, i < len(m.Pairs) && bytes.Equal(m.Pairs[i].K, k)
}

func (m *Map) Get(k []byte) ([]byte, bool) {
	i, ok := m.find(k)
	if !ok {
		return nil, false
	}
	return m.Pairs[i].V, true
}

func (m *Map) Put(k, v []byte) {
	m.markDirty(k)
	k = append([]byte(nil), k...)
	v = append([]byte(nil), v...)
	i, ok := m.find(k)
	if ok {
		m.Pairs[i] = Pair{k, v}
		return
	}
	m.Pairs = append(m.Pairs, Pair{})
	copy(m.Pairs[i+1:], m.Pairs[i:])
	m.Pairs[i] = Pair{k, v}
}

func (m *Map) Del(k []byte) bool {
	m.markDirty(k)
	i, ok := m.find(k)
	if !ok {
		return false
	}
	m.Pairs = append(m.Pairs[:i], m.Pairs[i+1:]...)
	return true
}

var Wildcard = []byte{0}

// Range returns the pairs of [key, end); end == "\x00" means "no upper bound".
func (m *Map) Range(key, end []byte) []Pair {
	var out []Pair
	wild := bytes.Equal(end, Wildcard)
	for _, p := range m.Pairs {
		if bytes.Compare(p.K, key) < 0 {
			continue
		}
		if !wild && bytes.Compare(p.K, end) >= 0 {
			break
		}
		out = append(out, p)
	}
	return out
}

func (m *Map) DelRange(key, end []byte) []Pair {
	del := m.Range(key, end)
	if len(del) == 0 {
		return nil
	}
	for _, p := range del {
		m.markDirty(p.K)
	}
	if m.T != nil {
		m.T.RangeDelHits++
	}
	var keep []Pair
	wild := bytes.Equal(end, Wildcard)
	for _, p := range m.Pairs {
		in := bytes.Compare(p.K, key) >= 0 && (wild || bytes.Compare(p.K, end) < 0)
		if !in {
			keep = append(keep, p)
		}
	}
	m.Pairs = keep
	return del
}

// ---- reads ----------------------------------------------------------------------------------

// RangeResult is the model's answer to a range request *ignoring size-based cuts*:
// All holds every matching pair (up to limit), Remaining says whether pairs of the range remain
// beyond them.
type RangeResult struct {
	Single    bool // single-key lookup (no range_end)
	Pairs     []Pair
	Remaining bool
	KeysOnly  bool
	CountOnly bool
}

// Read evaluates a range request on the model.
// Conventions mirrored from the code: a request without range_end is a single-key lookup that
// ignores limit; limit 0 means unlimited; count-only reads count at most `limit` pairs.
func (m *Map) Read(req *regattapb.RequestOp_Range) RangeResult {
	r := RangeResult{KeysOnly: req.KeysOnly, CountOnly: req.CountOnly && !req.KeysOnly}
	m.noteRead(req.Key, req.RangeEnd, req.RangeEnd != nil)
	if req.RangeEnd == nil {
		r.Single = true
		if v, ok := m.Get(req.Key); ok {
			r.Pairs = []Pair{{append([]byte(nil), req.Key...), v}}
		}
		return r
	}
	all := m.Range(req.Key, req.RangeEnd)
	if req.Limit > 0 && int64(len(all)) > req.Limit {
		r.Pairs = all[:req.Limit]
		r.Remaining = true
	} else {
		r.Pairs = all
	}
	return r
}

func eqBytes(a, b []byte) bool { return bytes.Equal(a, b) } // nil == empty

// CheckRangeResponse compares a real response with the model's expectation.
// allowSizeCut: the response may be a strict prefix flagged `more` (size-based cut).
func CheckRangeResponse(want RangeResult, got *regattapb.ResponseOp_Range, allowSizeCut bool) error {
	if got == nil {
		return fmt.Errorf("nil response")
	}
	n := len(want.Pairs)
	if want.CountOnly {
		if len(got.Kvs) != 0 {
			return fmt.Errorf("count-only read returned %d kvs", len(got.Kvs))
		}
		if got.Count != int64(n) {
			return fmt.Errorf("count-only: count=%d want %d", got.Count, n)
		}
		if got.More != want.Remaining {
			return fmt.Errorf("count-only: more=%v want %v", got.More, want.Remaining)
		}
		return nil
	}
	if len(got.Kvs) > n {
		return fmt.Errorf("returned %d pairs, model has %d (limit/bounds violated): got %s want %s", len(got.Kvs), n, fmtKvs(got.Kvs), fmtPairs(want.Pairs))
	}
	if len(got.Kvs) < n && !(allowSizeCut && got.More) {
		return fmt.Errorf("returned %d pairs, model has %d: got %s want %s", len(got.Kvs), n, fmtKvs(got.Kvs), fmtPairs(want.Pairs))
	}
	for i, kv := range got.Kvs {
		if !eqBytes(kv.Key, want.Pairs[i].K) {
			return fmt.Errorf("pair %d: key %q want %q", i, kv.Key, want.Pairs[i].K)
		}
		if want.KeysOnly {
			if len(kv.Value) != 0 {
				return fmt.Errorf("pair %d: keys-only read returned a value", i)
			}
		} else if !eqBytes(kv.Value, want.Pairs[i].V) {
			return fmt.Errorf("pair %d (key %q): value %q want %q", i, kv.Key, clip(kv.Value), clip(want.Pairs[i].V))
		}
	}
	if got.Count != int64(len(got.Kvs)) {
		return fmt.Errorf("count=%d but %d pairs returned", got.Count, len(got.Kvs))
	}
	wantMore := want.Remaining || len(got.Kvs) < n
	if got.More != wantMore {
		return fmt.Errorf("more=%v want %v (returned %d of %d matching, limit-remaining=%v)", got.More, wantMore, len(got.Kvs), n, want.Remaining)
	}
	return nil
}

func clip(b []byte) []byte {
	if len(b) > 40 {
		return append(append([]byte(nil), b[:40]...), "..."...)
	}
	return b
}

func fmtKvs(kvs []*regattapb.KeyValue) string {
	s := "["
	for i, kv := range kvs {
		if i > 8 {
			s += " ..."
			break
		}
		s += fmt.Sprintf(" %q=%q", clip(kv.Key), clip(kv.Value))
	}
	return s + " ]"
}

func fmtPairs(ps []Pair) string {
	s := "["
	for i, p := range ps {
		if i > 8 {
			s += " ..."
			break
		}
		s += fmt.Sprintf(" %q=%q", clip(p.K), clip(p.V))
	}
	return s + " ]"
}

// ---- writes ---------------------------------------------------------------------------------

// Expectation for one response op.
type OpExpect struct {
	Kind string // "put" | "delete" | "range"
	// put
	PrevRequested bool
	Prev          *Pair
	// delete
	CountRequested bool
	Deleted        []Pair
	// range
	Range RangeResult
}

func (m *Map) applyPut(key, value []byte, prevKv bool) OpExpect {
	e := OpExpect{Kind: "put", PrevRequested: prevKv}
	if prevKv {
		m.noteRead(key, nil, false)
	}
	if v, ok := m.Get(key); ok && prevKv {
		e.Prev = &Pair{append([]byte(nil), key...), v}
	}
	m.Put(key, value)
	return e
}

func (m *Map) applyDelete(key, end []byte, prevKv, count bool) OpExpect {
	e := OpExpect{Kind: "delete", PrevRequested: prevKv, CountRequested: count}
	if prevKv || count {
		m.noteRead(key, end, end != nil)
	}
	if end == nil {
		if v, ok := m.Get(key); ok {
			e.Deleted = []Pair{{append([]byte(nil), key...), v}}
		}
		m.Del(key)
		return e
	}
	e.Deleted = m.DelRange(key, end)
	return e
}

// ApplyResult is what the model expects from applying one log entry.
type ApplyResult struct {
	Value uint64 // Result.Value: 1 = success, 0 = failure (only transactions can "fail")
	Ops   []OpExpect
	// Txn: the entry is a transaction - the only kind of command whose result VALUE means something to a caller ("the succeeded flag
	// travels as the apply result value"); what the other commands put there is nobody's business
	Txn bool
}

// Apply applies one committed command with its log index.
func (m *Map) Apply(cmd *regattapb.Command, index uint64) ApplyResult {
	r := m.applyCmd(cmd)
	m.Index = index
	if cmd.LeaderIndex != nil {
		m.LeaderIndex = *cmd.LeaderIndex
	}
	return r
}

func (m *Map) applyCmd(cmd *regattapb.Command) ApplyResult {
	res := ApplyResult{Value: 1}
	switch cmd.Type {
	case regattapb.Command_PUT:
		res.Ops = append(res.Ops, m.applyPut(cmd.Kv.Key, cmd.Kv.Value, cmd.PrevKvs))
	case regattapb.Command_DELETE:
		res.Ops = append(res.Ops, m.applyDelete(cmd.Kv.Key, cmd.RangeEnd, cmd.PrevKvs, cmd.Count))
	case regattapb.Command_PUT_BATCH:
		for _, kv := range cmd.Batch {
			res.Ops = append(res.Ops, m.applyPut(kv.Key, kv.Value, false))
		}
	case regattapb.Command_DELETE_BATCH:
		for _, kv := range cmd.Batch {
			res.Ops = append(res.Ops, m.applyDelete(kv.Key, nil, false, false))
		}
	case regattapb.Command_TXN:
		ok, ops := m.ApplyTxn(cmd.Txn.Compare, cmd.Txn.Success, cmd.Txn.Failure)
		if !ok {
			res.Value = 0
		}
		res.Ops = ops
		res.Txn = true
	case regattapb.Command_SEQUENCE:
		for _, c := range cmd.Sequence {
			sub := m.applyCmd(c)
			res.Ops = append(res.Ops, sub.Ops...)
		}
	case regattapb.Command_DUMMY:
	}
	return res
}

// ---- transactions ---------------------------------------------------------------------------

func cmpSingle(c *regattapb.Compare, stored []byte) bool {
	if c.Target != regattapb.Compare_VALUE || c.TargetUnion == nil {
		return true // existence only
	}
	given := c.GetValue()
	switch c.Result {
	case regattapb.Compare_EQUAL:
		return bytes.Equal(stored, given)
	case regattapb.Compare_NOT_EQUAL:
		return !bytes.Equal(stored, given)
	case regattapb.Compare_GREATER:
		return bytes.Compare(stored, given) > 0
	case regattapb.Compare_LESS:
		return bytes.Compare(stored, given) < 0
	}
	return true
}

// EvalCompare evaluates the conjunction of predicates on the current state.
func (m *Map) EvalCompare(cs []*regattapb.Compare) bool {
	for _, c := range cs {
		m.noteRead(c.Key, c.RangeEnd, c.RangeEnd != nil)
		if c.RangeEnd != nil {
			ps := m.Range(c.Key, c.RangeEnd)
			if len(ps) == 0 {
				return false
			}
			for _, p := range ps {
				if !cmpSingle(c, p.V) {
					return false
				}
			}
		} else {
			v, ok := m.Get(c.Key)
			if !ok || !cmpSingle(c, v) {
				return false
			}
		}
	}
	return true
}

// ApplyTxn evaluates and executes a transaction on the model.
func (m *Map) ApplyTxn(cs []*regattapb.Compare, succ, fail []*regattapb.RequestOp) (bool, []OpExpect) {
	if m.T != nil {
		m.T.inTxnDirty = false
	}
	ok := m.EvalCompare(cs)
	ops := fail
	if ok {
		ops = succ
	}
	if m.T != nil {
		if ok {
			m.T.TxnSucc++
		} else {
			m.T.TxnFail++
		}
		if len(ops) == 0 {
			m.T.TxnEmptyTaken++
		}
		m.T.inTxnDirty = false
		defer func() {
			if len(cs) >= 1 && len(ops) >= 2 && m.T.inTxnDirty {
				m.T.TxnRich++
			}
		}()
	}
	var out []OpExpect
	for _, op := range ops {
		switch o := op.Request.(type) {
		case *regattapb.RequestOp_RequestRange:
			out = append(out, OpExpect{Kind: "range", Range: m.Read(o.RequestRange)})
		case *regattapb.RequestOp_RequestPut:
			out = append(out, m.applyPut(o.RequestPut.Key, o.RequestPut.Value, o.RequestPut.PrevKv))
		case *regattapb.RequestOp_RequestDeleteRange:
			d := o.RequestDeleteRange
			out = append(out, m.applyDelete(d.Key, d.RangeEnd, d.PrevKv, d.Count))
		}
	}
	return ok, out
}

// ReadTxn evaluates a read-only transaction (no state change).
func (m *Map) ReadTxn(req *regattapb.TxnRequest) (bool, []OpExpect) {
	return m.Clone().ApplyTxn(req.Compare, req.Success, req.Failure)
}

// ---- response comparison --------------------------------------------------------------------

func checkKV(got *regattapb.KeyValue, want Pair) error {
	if got == nil {
		return fmt.Errorf("missing pair, want %q=%q", clip(want.K), clip(want.V))
	}
	if !eqBytes(got.Key, want.K) || !eqBytes(got.Value, want.V) {
		return fmt.Errorf("pair %q=%q want %q=%q", clip(got.Key), clip(got.Value), clip(want.K), clip(want.V))
	}
	return nil
}

// CheckOp compares the n-th real response with the n-th expectation.
// Only what was requested is asserted ("deleted count / previous pairs where requested").
// allowPrevCut tolerates a previous-pairs list cut by response size (see known finding C01).
func CheckOp(want OpExpect, got *regattapb.ResponseOp) error {
	if got == nil {
		return fmt.Errorf("missing response op, want %s", want.Kind)
	}
	switch want.Kind {
	case "put":
		g, ok := got.Response.(*regattapb.ResponseOp_ResponsePut)
		if !ok {
			return fmt.Errorf("response is %T, want put", got.Response)
		}
		if want.Prev != nil {
			return checkKV(g.ResponsePut.GetPrevKv(), *want.Prev)
		}
		if g.ResponsePut.GetPrevKv() != nil {
			return fmt.Errorf("unexpected prev_kv %q", g.ResponsePut.PrevKv.Key)
		}
	case "delete":
		g, ok := got.Response.(*regattapb.ResponseOp_ResponseDeleteRange)
		if !ok {
			return fmt.Errorf("response is %T, want delete_range", got.Response)
		}
		if want.CountRequested && g.ResponseDeleteRange.Deleted != int64(len(want.Deleted)) {
			return fmt.Errorf("deleted=%d want %d", g.ResponseDeleteRange.Deleted, len(want.Deleted))
		}
		if want.PrevRequested {
			if len(g.ResponseDeleteRange.PrevKvs) != len(want.Deleted) {
				return fmt.Errorf("prev_kvs has %d pairs want %d: got %s want %s", len(g.ResponseDeleteRange.PrevKvs), len(want.Deleted), fmtKvs(g.ResponseDeleteRange.PrevKvs), fmtPairs(want.Deleted))
			}
			for i, kv := range g.ResponseDeleteRange.PrevKvs {
				if err := checkKV(kv, want.Deleted[i]); err != nil {
					return fmt.Errorf("prev_kvs[%d]: %v", i, err)
				}
			}
		}
	case "range":
		g, ok := got.Response.(*regattapb.ResponseOp_ResponseRange)
		if !ok {
			return fmt.Errorf("response is %T, want range", got.Response)
		}
		return CheckRangeResponse(want.Range, g.ResponseRange, false)
	}
	return nil
}

// CheckOps compares the response list with the expectations.
func CheckOps(want []OpExpect, got []*regattapb.ResponseOp) error {
	if len(got) != len(want) {
		return fmt.Errorf("%d responses for %d operations", len(got), len(want))
	}
	for i := range want {
		if err := CheckOp(want[i], got[i]); err != nil {
			return fmt.Errorf("response %d (%s): %w", i, want[i].Kind, err)
		}
	}
	return nil
}
