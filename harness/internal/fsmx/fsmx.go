// Package fsmx wraps the real table state machine (storage/table/fsm.FSM) for the checks,
// respecting dragonboat's documented call contract for IOnDiskStateMachine.
package fsmx

import (
	"bytes"
	"fmt"
	"io"

	"github.com/cockroachdb/pebble/vfs"
	"github.com/jamf/regatta/regattapb"
	"github.com/jamf/regatta/storage/table/fsm"
	"github.com/jamf/regatta/util/iter"
	sm "github.com/lni/dragonboat/v4/statemachine"
)

const (
	DataDir = "/data"
	Table   = "t"
	ShardID = 10001
)

// Replica is one real FSM instance on a (usually in-memory) file system.
type Replica struct {
	FS      vfs.FS
	SM      *fsm.FSM
	Type    fsm.SnapshotRecoveryType
	Shard   uint64
	Node    uint64
	Applied func(uint64)
	Dir     string
}

// NewFS returns a fresh strict in-memory FS with the base data directory created and durable
// (the property's precondition: the operator-provided base directory is durable beforehand).
func NewFS() *vfs.MemFS {
	fs := vfs.NewStrictMem()
	_ = fs.MkdirAll(DataDir, 0o755)
	syncAll(fs, DataDir)
	return fs
}

func syncAll(fs vfs.FS, dir string) {
	for _, d := range []string{"/", dir} {
		if f, err := fs.OpenDir(d); err == nil {
			_ = f.Sync()
			_ = f.Close()
		}
	}
}

// Create builds (but does not open) a replica.
func Create(fs vfs.FS, typ fsm.SnapshotRecoveryType, node uint64) *Replica {
	r := &Replica{FS: fs, Type: typ, Shard: ShardID, Node: node, Dir: DataDir}
	r.build()
	return r
}

func (r *Replica) build() {
	af := func(i uint64) {
		if r.Applied != nil {
			r.Applied(i)
		}
	}
	r.SM = fsm.New(Table, r.Dir, r.FS, nil, nil, r.Type, af)(r.Shard, r.Node).(*fsm.FSM)
}

// Open opens the state machine and returns the persisted applied index.
func (r *Replica) Open() (uint64, error) { return r.SM.Open(nil) }

// Reopen = clean Close followed by a new instance + Open on the same file system.
func (r *Replica) Reopen() (uint64, error) {
	if err := r.SM.Close(); err != nil {
		return 0, fmt.Errorf("close: %w", err)
	}
	r.build()
	return r.Open()
}

// Apply hands entries to Update in one call, exactly as dragonboat does.
func (r *Replica) Apply(entries []sm.Entry) ([]sm.Entry, error) {
	return r.SM.Update(entries)
}

func (r *Replica) Range(req *regattapb.RequestOp_Range) (*regattapb.ResponseOp_Range, error) {
	v, err := r.SM.Lookup(req)
	if err != nil {
		return nil, err
	}
	return v.(*regattapb.ResponseOp_Range), nil
}

// Iterate runs the streaming read path and collects every chunk.
func (r *Replica) Iterate(req *regattapb.RequestOp_Range) ([]*regattapb.ResponseOp_Range, error) {
	v, err := r.SM.Lookup(fsm.IteratorRequest{RangeOp: req})
	if err != nil {
		return nil, err
	}
	seq := v.(iter.Seq[*regattapb.ResponseOp_Range])
	var out []*regattapb.ResponseOp_Range
	seq(func(x *regattapb.ResponseOp_Range) bool {
		out = append(out, x)
		return true
	})
	return out, nil
}

func (r *Replica) Txn(req *regattapb.TxnRequest) (*regattapb.TxnResponse, error) {
	v, err := r.SM.Lookup(req)
	if err != nil {
		return nil, err
	}
	return v.(*regattapb.TxnResponse), nil
}

func (r *Replica) LocalIndex() (uint64, error) {
	v, err := r.SM.Lookup(fsm.LocalIndexRequest{})
	if err != nil {
		return 0, err
	}
	return v.(*fsm.IndexResponse).Index, nil
}

func (r *Replica) LeaderIndex() (uint64, error) {
	v, err := r.SM.Lookup(fsm.LeaderIndexRequest{})
	if err != nil {
		return 0, err
	}
	return v.(*fsm.IndexResponse).Index, nil
}

// All returns the full user-visible content via the wildcard range, following `more`.
func (r *Replica) All() ([]*regattapb.KeyValue, error) {
	chunks, err := r.Iterate(&regattapb.RequestOp_Range{Key: []byte{0}, RangeEnd: []byte{0}})
	if err != nil {
		return nil, err
	}
	var out []*regattapb.KeyValue
	for _, c := range chunks {
		out = append(out, c.Kvs...)
	}
	return out, nil
}

// Snapshot runs PrepareSnapshot (+ optional work in between) + SaveSnapshot into a buffer.
func (r *Replica) Prepare() (any, error) { return r.SM.PrepareSnapshot() }

func (r *Replica) Save(ctx any, stop <-chan struct{}) ([]byte, error) {
	var buf bytes.Buffer
	if err := r.SM.SaveSnapshot(ctx, &buf, stop); err != nil {
		return nil, err
	}
	return buf.Bytes(), nil
}

func (r *Replica) Recover(snap []byte, stop <-chan struct{}) error {
	return r.SM.RecoverFromSnapshot(bytes.NewReader(snap), stop)
}

func (r *Replica) RecoverFrom(rd io.Reader, stop <-chan struct{}) error {
	return r.SM.RecoverFromSnapshot(rd, stop)
}

func (r *Replica) Close() error { return r.SM.Close() }

// MkEntries turns command bytes into consecutive log entries starting at first.
func MkEntries(first uint64, cmds [][]byte) []sm.Entry {
	es := make([]sm.Entry, len(cmds))
	for i, c := range cmds {
		es[i] = sm.Entry{Index: first + uint64(i), Cmd: append([]byte(nil), c...)}
	}
	return es
}
