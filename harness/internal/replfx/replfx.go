//go:build verif

// Package replfx wires a real leader engine and a real follower engine together the way
// cmd/leader.go and cmd/follower.go do: Log / Snapshot / Metadata / KV services on the leader
// (several Log servers with different message-size limits), replication managers on the
// follower whose workers are stepped by the harness through the verif hooks.
package replfx

import (
	"context"
	"errors"
	"fmt"
	"io"
	"os"
	"sync/atomic"
	"time"

	"github.com/jamf/regatta/regattapb"
	"github.com/jamf/regatta/regattaserver"
	"github.com/jamf/regatta/replication"
	"github.com/jamf/regatta/replication/snapshot"
	"github.com/jamf/regatta/storage"
	"github.com/jamf/regatta/storage/table"
	"go.uber.org/zap"
	"google.golang.org/grpc"

	"verifharness/internal/enginefx"
	"verifharness/internal/model"
)

// LogSizes are the message-size limits of the leader's Log servers.
var LogSizes = []uint64{256, 4 * 1024, 4 * 1024 * 1024}

type Pair struct {
	L, F    *enginefx.Fixture
	Servers []*enginefx.Server
	Conns   []*grpc.ClientConn
	Mgrs    []*replication.Manager
	Queue   *storage.IndexNotificationQueue
	Fwd     *enginefx.Server // follower API: ForwardingKVServer
	FwdConn *grpc.ClientConn
	// OnApplied, if set, is called on the follower's apply path right after every Update call of a table state machine (the applied-index
	// listener): the apply loop is paused inside it, so stale reads issued from it see exactly the state that Update call left.
	OnApplied atomic.Pointer[func(table string, rev uint64)]
}

type Opts struct {
	Leader   enginefx.Opts
	Follower enginefx.Opts
}

func NewPair(o Opts) (*Pair, error) {
	p := &Pair{Queue: storage.NewNotificationQueue()}
	go p.Queue.Run()
	var err error
	if p.L, err = enginefx.Start(o.Leader); err != nil {
		return nil, fmt.Errorf("leader: %w", err)
	}
	fo := o.Follower
	fo.Applied = func(table string, rev uint64) {
		p.Queue.Notify(table, rev)
		if h := p.OnApplied.Load(); h != nil {
			(*h)(table, rev)
		}
	}
	if p.F, err = enginefx.Start(fo); err != nil {
		_ = p.L.Stop()
		return nil, fmt.Errorf("follower: %w", err)
	}
	for _, sz := range LogSizes {
		size := sz
		srv, err := enginefx.Serve(func(r grpc.ServiceRegistrar) {
			regattapb.RegisterMetadataServer(r, &regattaserver.MetadataServer{Tables: p.L.E})
			regattapb.RegisterSnapshotServer(r, &regattaserver.SnapshotServer{Tables: p.L.E})
			regattapb.RegisterKVServer(r, &regattaserver.KVServer{Storage: p.L.E})
			regattapb.RegisterLogServer(r, regattaserver.NewLogServer(p.L.E, p.L.E.LogReader, zap.NewNop(), size))
		})
		if err != nil {
			p.Close()
			return nil, err
		}
		p.Servers = append(p.Servers, srv)
		conn, err := enginefx.Dial(srv.Addr, grpc.WithDefaultCallOptions(grpc.MaxCallRecvMsgSize(8*1024*1024)))
		if err != nil {
			p.Close()
			return nil, err
		}
		p.Conns = append(p.Conns, conn)
	}
	p.buildManagers()
	return p, nil
}

func (p *Pair) buildManagers() {
	p.Mgrs = nil
	for _, conn := range p.Conns {
		p.Mgrs = append(p.Mgrs, replication.NewManager(p.F.E, p.Queue, conn, replication.Config{
			ReconcileInterval: time.Hour,
			Workers: replication.WorkerConfig{
				PollInterval: time.Hour, LeaseInterval: time.Hour, LogRPCTimeout: 30 * time.Second,
				SnapshotRPCTimeout: 60 * time.Second, MaxRecoveryInFlight: 1,
			},
		}))
	}
	if p.Fwd != nil {
		p.Fwd.Stop()
		p.Fwd = nil
	}
	if p.FwdConn != nil {
		_ = p.FwdConn.Close()
		p.FwdConn = nil
	}
}

// FollowerAPI lazily starts the follower's client API (ForwardingKVServer in front of the follower engine).
func (p *Pair) FollowerAPI() (regattapb.KVClient, error) {
	if p.Fwd == nil {
		srv, err := enginefx.Serve(func(r grpc.ServiceRegistrar) {
			regattapb.RegisterKVServer(r, regattaserver.NewForwardingKVServer(p.F.E, regattapb.NewKVClient(p.Conns[len(p.Conns)-1]), p.Queue))
		})
		if err != nil {
			return nil, err
		}
		p.Fwd = srv
		if p.FwdConn, err = enginefx.Dial(srv.Addr); err != nil {
			return nil, err
		}
	}
	return regattapb.NewKVClient(p.FwdConn), nil
}

// Worker builds a fresh replication worker for table talking to Log server number srv.
func (p *Pair) Worker(tableName string, srv int) *replication.VerifWorker {
	return p.Mgrs[srv%len(p.Mgrs)].VerifWorker(tableName)
}

// RestartFollower restarts the follower engine (same disks, same raft address).
func (p *Pair) RestartFollower() error {
	if err := p.F.Restart(); err != nil {
		return err
	}
	// the table shards are (re)started by the manager's reconcile loop (every 30 s in production); run one round now
	if err := p.F.E.Manager.VerifReconcile(); err != nil {
		return err
	}
	p.buildManagers()
	return nil
}

func (p *Pair) Close() {
	if p.Fwd != nil {
		p.Fwd.Stop()
	}
	if p.FwdConn != nil {
		_ = p.FwdConn.Close()
	}
	for _, c := range p.Conns {
		_ = c.Close()
	}
	for _, s := range p.Servers {
		s.Stop()
	}
	if p.F != nil {
		_ = p.F.Stop()
	}
	if p.L != nil {
		_ = p.L.Stop()
	}
	_ = p.Queue.Close()
}

// ---- helpers used by several checks ---------------------------------------------------------------

// ReadAll returns the complete content of a table through the engine API (paged by `more`).
func ReadAll(e *storage.Engine, tableName string, linearizable bool) ([]model.Pair, error) {
	var out []model.Pair
	key := []byte{0}
	for {
		ctx, cancel := context.WithTimeout(context.Background(), 10*time.Second)
		resp, err := e.Range(ctx, &regattapb.RangeRequest{Table: []byte(tableName), Key: key, RangeEnd: []byte{0}, Linearizable: linearizable})
		cancel()
		if err != nil {
			return nil, err
		}
		for _, kv := range resp.Kvs {
			out = append(out, model.Pair{K: kv.Key, V: kv.Value})
		}
		if !resp.More || len(resp.Kvs) == 0 {
			return out, nil
		}
		key = append(append([]byte(nil), resp.Kvs[len(resp.Kvs)-1].Key...), 0)
	}
}

func Indices(e *storage.Engine, tableName string) (local, leader uint64, err error) {
	t, err := e.GetTable(tableName)
	if err != nil {
		return 0, 0, err
	}
	ctx, cancel := context.WithTimeout(context.Background(), 10*time.Second)
	defer cancel()
	li, err := t.LocalIndex(ctx, true)
	if err != nil {
		return 0, 0, err
	}
	ld, err := t.LeaderIndex(ctx, true)
	if err != nil {
		return 0, 0, err
	}
	return li.Index, ld.Index, nil
}

// DropTable deletes a table and stops its shard so that memory is released.
func DropTable(f *enginefx.Fixture, name string) {
	_ = f.E.DeleteTable(name)
	_ = f.E.Manager.VerifReconcile()
}

// BrokenRestore fetches the leader's snapshot stream of a table exactly as a worker's recovery does (Snapshot.Stream into a temporary
// snapshot file) and hands it to the follower engine's Restore through a reader that fails after `after` records - the state a
// recovery leaves behind when it dies half way (I/O error on the temporary file, process killed while loading).  It returns the number
// of records the stream held and Restore's error (nil when the stream was shorter than `after`: a complete recovery).
func (p *Pair) BrokenRestore(tableName string, srv, after int) (records int, fetchErr, restoreErr error) {
	ctx, cancel := context.WithTimeout(context.Background(), 60*time.Second)
	defer cancel()
	stream, err := regattapb.NewSnapshotClient(p.Conns[srv%len(p.Conns)]).Stream(ctx, &regattapb.SnapshotRequest{Table: []byte(tableName)})
	if err != nil {
		return 0, err, nil
	}
	sf, err := snapshot.NewTemp()
	if err != nil {
		return 0, err, nil
	}
	defer func() {
		_ = sf.Close()
		_ = os.Remove(sf.Path())
	}()
	if _, err := io.Copy(sf.File, &snapshot.Reader{Stream: stream}); err != nil {
		return 0, err, nil
	}
	if err := sf.Sync(); err != nil {
		return 0, err, nil
	}
	if _, err := sf.Seek(0, io.SeekStart); err != nil {
		return 0, err, nil
	}
	br := &breakingReader{r: sf, after: after}
	restoreErr = p.F.E.Restore(tableName, br)
	return br.n, nil, restoreErr
}

type breakingReader struct {
	r     io.Reader
	after int
	n     int
}

func (b *breakingReader) Read(q []byte) (int, error) {
	if b.n >= b.after {
		return 0, errors.New("snapshot file read error (injected)")
	}
	n, err := b.r.Read(q)
	if err == nil {
		b.n++
	}
	return n, err
}

// Poll runs one iteration of a stepped worker.  A worker reads the table's recorded leader index through consensus; while the table's
// raft group has no leader yet (right after the table was started, after a restart) that read fails transiently and the production
// routine simply tries again on its next tick - so does this helper, for a bounded time.
func Poll(w *replication.VerifWorker) (string, error) {
	var res string
	var err error
	for i := 0; i < 150; i++ {
		res, err = w.Poll()
		if res != "state-error" {
			return res, err
		}
		time.Sleep(20 * time.Millisecond)
	}
	return res, err
}

var _ = table.Table{}
