package replfx

import (
	"context"
	"encoding/json"
	"fmt"
	"os"
	"path/filepath"
	"time"

	"github.com/jamf/regatta/regattapb"
	"google.golang.org/grpc"
)

// RestoreChunked is a Maintenance.Restore client that cuts the backup file of `table` (as the stock client left it in `dir`, named by
// the manifest) into pieces of the given sizes, used round robin.  A size of 0 sends an EMPTY chunk (legal: the API puts no lower bound on
// a chunk; a client that forwards what a read returned together with io.EOF sends one); trailingEmpty appends one after the last byte.
// The stock client (replication/backup) only ever produces the chunking of its own copy loop; the server has to cope with every one.
func RestoreChunked(conn *grpc.ClientConn, dir, table string, sizes []int, trailingEmpty bool, d time.Duration) (chunks int, err error) {
	mb, err := os.ReadFile(filepath.Join(dir, "manifest.json"))
	if err != nil {
		return 0, err
	}
	var man struct {
		Tables []struct {
			Name     string `json:"name"`
			FileName string `json:"file_name"`
		} `json:"tables"`
	}
	if err := json.Unmarshal(mb, &man); err != nil {
		return 0, err
	}
	file := ""
	for _, t := range man.Tables {
		if t.Name == table {
			file = t.FileName
		}
	}
	if file == "" {
		return 0, fmt.Errorf("table %q is not in the manifest %s", table, mb)
	}
	data, err := os.ReadFile(filepath.Join(dir, file))
	if err != nil {
		return 0, err
	}
	ctx, cancel := context.WithTimeout(context.Background(), d)
	defer cancel()
	stream, err := regattapb.NewMaintenanceClient(conn).Restore(ctx)
	if err != nil {
		return 0, err
	}
	if err := stream.Send(&regattapb.RestoreMessage{Data: &regattapb.RestoreMessage_Info{Info: &regattapb.RestoreInfo{Table: []byte(table)}}}); err != nil {
		return 0, statusBehind(stream, err)
	}
	send := func(b []byte) error {
		chunks++
		return stream.Send(&regattapb.RestoreMessage{Data: &regattapb.RestoreMessage_Chunk{Chunk: &regattapb.SnapshotChunk{Data: b, Len: uint64(len(b))}}})
	}
	positive := false
	for _, s := range sizes {
		positive = positive || s > 0
	}
	if !positive {
		sizes = append(append([]int(nil), sizes...), 1<<20)
	}
	off := 0
	for i := 0; off < len(data); i++ {
		n := min(sizes[i%len(sizes)], len(data)-off)
		if err := send(data[off : off+n]); err != nil {
			return chunks, statusBehind(stream, err)
		}
		off += n
	}
	if trailingEmpty {
		if err := send(nil); err != nil {
			return chunks, statusBehind(stream, err)
		}
	}
	_, err = stream.CloseAndRecv()
	return chunks, err
}

// statusBehind: a Send refused by gRPC reports io.EOF; the stream's status says why the server ended the call.
func statusBehind(stream regattapb.Maintenance_RestoreClient, sendErr error) error {
	if _, rerr := stream.CloseAndRecv(); rerr != nil {
		return rerr
	}
	return sendErr
}
