// Package tlog defines the "table history" DSL shared by the state-machine level checks
// (C01 C02 C03 C04 C08 C09) and an executor that runs a history against one real FSM replica
// and the reference model side by side.
package tlog

import (
	"fmt"

	"github.com/jamf/regatta/regattapb"
	"github.com/jamf/regatta/storage/table/fsm"
	"github.com/jamf/regatta/util/iter"
	sm "github.com/lni/dragonboat/v4/statemachine"
	"pgregory.net/rapid"

	"verifharness/internal/fsmx"
	"verifharness/internal/gen"
	"verifharness/internal/model"
	"verifharness/internal/vt"
)

// Step is one step of a history.  All requests are stored as the exact protobuf bytes.
type Step struct {
	Op   string   `json:"op"`             // apply | sync | reopen | read | iter | rotxn
	Cmds [][]byte `json:"cmds,omitempty"` // apply: marshalled regattapb.Command, one per consecutive log entry, one Update call
	Req  []byte   `json:"req,omitempty"`  // read/iter: marshalled RequestOp_Range; rotxn: marshalled TxnRequest
	// EmptyEnd: the read carries a present-but-empty range_end (plain bytes fields cannot express it when marshalled).
	EmptyEnd bool `json:"empty_end,omitempty"`
}

// ---- generation -----------------------------------------------------------------------------

type GenOpts struct {
	MinSteps, MaxSteps int
	MaxBatch           int
	LeaderIndex        bool
	Reads              bool
	ROTxn              bool
	Maintenance        bool // sync / reopen steps
	TxnHeavy           bool
}

func marshalCmd(c *regattapb.Command) []byte {
	b, err := c.MarshalVT()
	if err != nil {
		panic("harness: marshal command: " + err.Error())
	}
	return b
}

// GenStep draws one step.
func GenStep(t *rapid.T, p *gen.Pool, o GenOpts) Step {
	k := rapid.IntRange(0, 19).Draw(t, "step.kind")
	switch {
	case k >= 18 && o.Maintenance:
		if k == 18 {
			return Step{Op: "sync"}
		}
		return Step{Op: "reopen"}
	case k >= 14 && k <= 16 && o.Reads:
		r := p.RangeReq(t, "read")
		s := Step{Op: "read"}
		if rapid.IntRange(0, 3).Draw(t, "read.iter") == 0 {
			s.Op = "iter"
		}
		if r.RangeEnd != nil && len(r.RangeEnd) == 0 {
			s.EmptyEnd = true
		}
		b, _ := r.MarshalVT()
		s.Req = b
		return s
	case k == 17 && o.ROTxn:
		x := p.Txn(t, "rotxn", true)
		req := &regattapb.TxnRequest{Table: []byte("t"), Compare: x.Compare, Success: x.Success, Failure: x.Failure}
		b, _ := req.MarshalVT()
		return Step{Op: "rotxn", Req: b}
	default:
		n := rapid.IntRange(1, o.MaxBatch).Draw(t, "apply.n")
		s := Step{Op: "apply"}
		for i := 0; i < n; i++ {
			var c *regattapb.Command
			if o.TxnHeavy && rapid.Bool().Draw(t, "apply.forcetxn") {
				c = &regattapb.Command{Table: []byte("t"), Type: regattapb.Command_TXN, Txn: p.Txn(t, "cmd.txn", false)}
			} else {
				c = p.Command(t, "cmd", gen.CmdOpts{LeaderIndex: o.LeaderIndex})
			}
			s.Cmds = append(s.Cmds, marshalCmd(c))
		}
		return s
	}
}

// GenSteps draws a whole history.
func GenSteps(t *rapid.T, p *gen.Pool, o GenOpts) []Step {
	n := rapid.IntRange(o.MinSteps, o.MaxSteps).Draw(t, "steps.n")
	out := make([]Step, 0, n)
	for i := 0; i < n; i++ {
		out = append(out, GenStep(t, p, o))
	}
	return out
}

// ---- decoding -------------------------------------------------------------------------------

func DecodeCmd(b []byte) (*regattapb.Command, error) {
	c := &regattapb.Command{}
	if err := c.UnmarshalVT(b); err != nil {
		return nil, err
	}
	return c, nil
}

func DecodeRange(s Step) (*regattapb.RequestOp_Range, error) {
	r := &regattapb.RequestOp_Range{}
	if err := r.UnmarshalVT(s.Req); err != nil {
		return nil, err
	}
	if s.EmptyEnd {
		r.RangeEnd = []byte{}
	}
	return r, nil
}

func DecodeTxnReq(s Step) (*regattapb.TxnRequest, error) {
	r := &regattapb.TxnRequest{}
	if err := r.UnmarshalVT(s.Req); err != nil {
		return nil, err
	}
	return r, nil
}

// ---- execution ------------------------------------------------------------------------------

// Exec runs a history on a real replica and the model in lock-step.
type Exec struct {
	Prop string
	R    *fsmx.Replica
	M    *model.Map
	Next uint64 // index of the next log entry
	// AllowSizeCut lets range reads be cut by size (large-value mode).
	AllowSizeCut bool
	// Results of every applied entry, in order (for differential checks).
	Results []sm.Result
	// coverage
	Applies, Reads, Reopens, Syncs, ROTxns int
	MultiEntryBatches                      int
}

func NewExec(prop string, typ fsm.SnapshotRecoveryType) (*Exec, *vt.Failure) {
	r := fsmx.Create(fsmx.NewFS(), typ, 1)
	idx, err := r.Open()
	if err != nil {
		return nil, vt.Failf(prop+"/open-error", 0, "first Open failed: %v", err)
	}
	if idx != 0 {
		return nil, vt.Failf(prop+"/open-index", 0, "first Open returned index %d", idx)
	}
	m := model.New()
	m.T = &model.Track{}
	return &Exec{Prop: prop, R: r, M: m, Next: 1}, nil
}

func (e *Exec) Close() {
	if e.R != nil {
		_ = e.R.Close()
	}
}

func (e *Exec) fail(kind string, step int, format string, args ...any) *vt.Failure {
	return vt.Failf(e.Prop+"/"+kind, step, format, args...)
}

// CheckEntryResult compares one applied entry's result with the model's expectation.
func CheckEntryResult(want model.ApplyResult, index uint64, got sm.Result) error {
	if want.Txn && got.Value != want.Value {
		return fmt.Errorf("result value %d want %d", got.Value, want.Value)
	}
	cr := &regattapb.CommandResult{}
	if len(got.Data) > 0 {
		if err := cr.UnmarshalVT(got.Data); err != nil {
			return fmt.Errorf("result data does not decode: %v", err)
		}
		if cr.Revision != index {
			return fmt.Errorf("revision %d want %d", cr.Revision, index)
		}
	} else if len(want.Ops) > 0 {
		return fmt.Errorf("no result data although %d responses are expected", len(want.Ops))
	}
	return model.CheckOps(want.Ops, cr.Responses)
}

// Apply applies one batch (one Update call) and checks results + bookkeeping.
func (e *Exec) Apply(stepNo int, cmds [][]byte) *vt.Failure {
	entries := fsmx.MkEntries(e.Next, cmds)
	res, err := e.R.Apply(entries)
	if err != nil {
		return e.fail("apply-error", stepNo, "Update returned error: %v", err)
	}
	if len(res) != len(cmds) {
		return e.fail("apply-result-count", stepNo, "Update returned %d entries for %d", len(res), len(cmds))
	}
	e.M.BeginBatch()
	for i, b := range cmds {
		cmd, derr := DecodeCmd(b)
		if derr != nil {
			panic("harness: undecodable command in case: " + derr.Error())
		}
		idx := e.Next + uint64(i)
		want := e.M.Apply(cmd, idx)
		e.Results = append(e.Results, res[i].Result)
		if res[i].Index != idx {
			return e.fail("apply-entry-index", stepNo, "entry %d came back with index %d", idx, res[i].Index)
		}
		if cerr := CheckEntryResult(want, idx, res[i].Result); cerr != nil {
			return e.fail("apply-result:"+cmd.Type.String(), stepNo, "entry %d (%s, batch pos %d/%d): %v", idx, cmd.Type, i, len(cmds), cerr)
		}
	}
	e.Next += uint64(len(cmds))
	e.Applies++
	if len(cmds) > 1 {
		e.MultiEntryBatches++
	}
	return e.CheckIndices(stepNo)
}

// CheckIndices compares LocalIndex / LeaderIndex lookups with the model.
func (e *Exec) CheckIndices(stepNo int) *vt.Failure {
	li, err := e.R.LocalIndex()
	if err != nil {
		return e.fail("index-lookup-error", stepNo, "local index lookup: %v", err)
	}
	if li != e.M.Index {
		return e.fail("local-index", stepNo, "applied index reported %d, last applied entry is %d", li, e.M.Index)
	}
	return nil
}

func (e *Exec) CheckLeaderIndex(stepNo int) *vt.Failure {
	li, err := e.R.LeaderIndex()
	if err != nil {
		return e.fail("index-lookup-error", stepNo, "leader index lookup: %v", err)
	}
	if li != e.M.LeaderIndex {
		return e.fail("leader-index", stepNo, "leader index reported %d, model says %d", li, e.M.LeaderIndex)
	}
	return nil
}

// Read executes a read step through Lookup (unary path) or the iterator path.
func (e *Exec) Read(stepNo int, s Step) *vt.Failure {
	req, err := DecodeRange(s)
	if err != nil {
		panic("harness: undecodable read in case")
	}
	want := e.M.Read(req)
	e.Reads++
	if s.Op == "iter" {
		var chunks []*regattapb.ResponseOp_Range
		var ierr error
		if stepNo%2 == 1 && req.RangeEnd != nil {
			// the streamed answer is obtained first and consumed only after the state machine served other reads (what a server
			// does between a stream's lookup and its first pull)
			var v any
			if v, ierr = e.R.SM.Lookup(fsm.IteratorRequest{RangeOp: req}); ierr == nil {
				_, _ = e.R.Range(&regattapb.RequestOp_Range{Key: []byte("unrelated-point-read")})
				_, _ = e.R.Range(&regattapb.RequestOp_Range{Key: []byte{0}, RangeEnd: []byte("b"), Limit: 1})
				v.(iter.Seq[*regattapb.ResponseOp_Range])(func(x *regattapb.ResponseOp_Range) bool {
					chunks = append(chunks, x)
					return true
				})
			}
		} else {
			chunks, ierr = e.R.Iterate(req)
		}
		if ierr != nil {
			return e.fail("read-error", stepNo, "iterator lookup: %v", ierr)
		}
		merged, merr := MergeChunks(chunks)
		if merr != nil {
			return e.fail("iter-chunks", stepNo, "%v", merr)
		}
		if cerr := model.CheckRangeResponse(want, merged, false); cerr != nil {
			return e.fail("iter-mismatch", stepNo, "iterate %s: %v", FmtRange(req), cerr)
		}
		return nil
	}
	got, rerr := e.R.Range(req)
	if rerr != nil {
		return e.fail("read-error", stepNo, "range lookup: %v", rerr)
	}
	if cerr := model.CheckRangeResponse(want, got, e.AllowSizeCut); cerr != nil {
		return e.fail("read-mismatch", stepNo, "range %s: %v", FmtRange(req), cerr)
	}
	return nil
}

// MergeChunks concatenates streamed chunks, checking the chunk-level `more` convention:
// every chunk but the last is flagged more; the result carries the last chunk's flag.
func MergeChunks(chunks []*regattapb.ResponseOp_Range) (*regattapb.ResponseOp_Range, error) {
	if len(chunks) == 0 {
		return nil, fmt.Errorf("stream produced no message at all")
	}
	out := &regattapb.ResponseOp_Range{}
	for i, c := range chunks {
		if i < len(chunks)-1 && !c.More {
			return nil, fmt.Errorf("chunk %d of %d is not flagged more", i, len(chunks))
		}
		out.Kvs = append(out.Kvs, c.Kvs...)
		out.Count += c.Count
		out.More = c.More
	}
	return out, nil
}

func FmtRange(r *regattapb.RequestOp_Range) string {
	end := "<none>"
	if r.RangeEnd != nil {
		end = fmt.Sprintf("%q", r.RangeEnd)
	}
	return fmt.Sprintf("{key=%q end=%s limit=%d keys_only=%v count_only=%v}", r.Key, end, r.Limit, r.KeysOnly, r.CountOnly)
}

// ROTxn executes a read-only transaction via Lookup and compares with the model.
func (e *Exec) ROTxn(stepNo int, s Step) *vt.Failure {
	req, err := DecodeTxnReq(s)
	if err != nil {
		panic("harness: undecodable txn in case")
	}
	e.ROTxns++
	ok, ops := e.M.ReadTxn(req)
	got, terr := e.R.Txn(req)
	if terr != nil {
		return e.fail("rotxn-error", stepNo, "read-only txn lookup: %v", terr)
	}
	if got.Succeeded != ok {
		return e.fail("rotxn-branch", stepNo, "read-only txn succeeded=%v want %v", got.Succeeded, ok)
	}
	if cerr := model.CheckOps(ops, got.Responses); cerr != nil {
		return e.fail("rotxn-mismatch", stepNo, "read-only txn: %v", cerr)
	}
	return nil
}

// Run executes one step.
func (e *Exec) Run(stepNo int, s Step) *vt.Failure {
	switch s.Op {
	case "apply":
		return e.Apply(stepNo, s.Cmds)
	case "sync":
		e.Syncs++
		if err := e.R.SM.Sync(); err != nil {
			return e.fail("sync-error", stepNo, "Sync: %v", err)
		}
		return nil
	case "reopen":
		e.Reopens++
		idx, err := e.R.Reopen()
		if err != nil {
			return e.fail("reopen-error", stepNo, "reopen: %v", err)
		}
		if idx != e.M.Index {
			return e.fail("reopen-index", stepNo, "Open after clean close returned %d, last applied %d", idx, e.M.Index)
		}
		return e.CheckIndices(stepNo)
	case "read", "iter":
		return e.Read(stepNo, s)
	case "rotxn":
		return e.ROTxn(stepNo, s)
	}
	panic("harness: unknown step op " + s.Op)
}

// CheckFull compares the complete visible content and both indices with the model.
func (e *Exec) CheckFull(stepNo int) *vt.Failure {
	all, err := e.R.All()
	if err != nil {
		return e.fail("scan-error", stepNo, "full scan: %v", err)
	}
	if len(all) != len(e.M.Pairs) {
		return e.fail("content-mismatch", stepNo, "table holds %d pairs, model %d", len(all), len(e.M.Pairs))
	}
	for i, kv := range all {
		p := e.M.Pairs[i]
		if string(kv.Key) != string(p.K) || string(kv.Value) != string(p.V) {
			return e.fail("content-mismatch", stepNo, "pair %d: %q=%q, model %q=%q", i, kv.Key, kv.Value, p.K, p.V)
		}
	}
	if f := e.CheckIndices(stepNo); f != nil {
		return f
	}
	return e.CheckLeaderIndex(stepNo)
}

// ---- readable rendering (evidence samples only) -----------------------------------------------

func fmtEnd(e []byte) string {
	if e == nil {
		return ""
	}
	if string(e) == "\x00" {
		return "..*"
	}
	return fmt.Sprintf("..%q", short(e))
}

func short(b []byte) []byte {
	if len(b) > 12 {
		return append(append([]byte(nil), b[:6]...), fmt.Sprintf("~%dB", len(b))...)
	}
	return b
}

func descOp(op *regattapb.RequestOp) string {
	switch o := op.Request.(type) {
	case *regattapb.RequestOp_RequestRange:
		return "get" + FmtRangeShort(o.RequestRange)
	case *regattapb.RequestOp_RequestPut:
		return fmt.Sprintf("put %q=%q%s", short(o.RequestPut.Key), short(o.RequestPut.Value), flag(o.RequestPut.PrevKv, " prev"))
	case *regattapb.RequestOp_RequestDeleteRange:
		d := o.RequestDeleteRange
		return fmt.Sprintf("del %q%s%s%s", short(d.Key), fmtEnd(d.RangeEnd), flag(d.PrevKv, " prev"), flag(d.Count, " count"))
	}
	return "?"
}

func flag(b bool, s string) string {
	if b {
		return s
	}
	return ""
}

func FmtRangeShort(r *regattapb.RequestOp_Range) string {
	s := fmt.Sprintf(" %q%s", short(r.Key), fmtEnd(r.RangeEnd))
	if r.Limit != 0 {
		s += fmt.Sprintf(" limit=%d", r.Limit)
	}
	return s + flag(r.KeysOnly, " keys_only") + flag(r.CountOnly, " count_only")
}

func DescCmd(c *regattapb.Command) string {
	li := ""
	if c.LeaderIndex != nil {
		li = fmt.Sprintf(" li=%d", *c.LeaderIndex)
	}
	switch c.Type {
	case regattapb.Command_PUT:
		return fmt.Sprintf("PUT %q=%q%s%s", short(c.Kv.Key), short(c.Kv.Value), flag(c.PrevKvs, " prev"), li)
	case regattapb.Command_DELETE:
		return fmt.Sprintf("DEL %q%s%s%s%s", short(c.Kv.Key), fmtEnd(c.RangeEnd), flag(c.PrevKvs, " prev"), flag(c.Count, " count"), li)
	case regattapb.Command_PUT_BATCH, regattapb.Command_DELETE_BATCH:
		s := c.Type.String() + "["
		for _, kv := range c.Batch {
			s += fmt.Sprintf(" %q=%q", short(kv.Key), short(kv.Value))
		}
		return s + " ]" + li
	case regattapb.Command_TXN:
		s := "TXN if["
		for _, cmp := range c.Txn.Compare {
			v := "exists"
			if cmp.TargetUnion != nil {
				v = fmt.Sprintf("%s %q", cmp.Result, short(cmp.GetValue()))
			}
			s += fmt.Sprintf(" %q%s %s;", short(cmp.Key), fmtEnd(cmp.RangeEnd), v)
		}
		s += " ] then["
		for _, op := range c.Txn.Success {
			s += " " + descOp(op) + ";"
		}
		s += " ] else["
		for _, op := range c.Txn.Failure {
			s += " " + descOp(op) + ";"
		}
		return s + " ]" + li
	case regattapb.Command_SEQUENCE:
		s := "SEQ{"
		for _, sc := range c.Sequence {
			s += " " + DescCmd(sc) + " |"
		}
		return s + " }" + li
	}
	return c.Type.String() + li
}

// Describe renders a history in compact readable form.
func Describe(steps []Step) string {
	out := ""
	for i, s := range steps {
		out += fmt.Sprintf("#%d %s", i, s.Op)
		switch s.Op {
		case "apply":
			out += "("
			for _, b := range s.Cmds {
				if c, err := DecodeCmd(b); err == nil {
					out += " " + DescCmd(c) + " ;"
				}
			}
			out += " )"
		case "read", "iter":
			if r, err := DecodeRange(s); err == nil {
				out += FmtRangeShort(r)
			}
		case "rotxn":
			if r, err := DecodeTxnReq(s); err == nil {
				out += " " + DescCmd(&regattapb.Command{Type: regattapb.Command_TXN, Txn: &regattapb.Txn{Compare: r.Compare, Success: r.Success, Failure: r.Failure}})
			}
		}
		out += "\n"
	}
	return out
}
