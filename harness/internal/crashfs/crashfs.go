// Package crashfs wraps pebble's strict in-memory file system (file data durable up to the
// file's last Sync, directory entries up to the directory's last Sync) with an operation
// counter: at mutating operation number N syncs start being ignored, i.e. the machine "loses
// power" right before operation N becomes durable.  Crash() then drops everything unsynced.
package crashfs

import (
	"io"
	"os"
	"sync"
	"sync/atomic"

	"github.com/cockroachdb/pebble/vfs"
)

type FS struct {
	mem     *vfs.MemFS
	count   atomic.Int64
	crashAt atomic.Int64 // -1: never
	crashed atomic.Bool
	// keepAll: second fault model - at the crash point everything done SO FAR is made durable first (every file and directory is
	// synced), only what comes after it is lost: a process that dies while the operating system survives
	keepAll atomic.Bool
	mu      sync.Mutex
	log     []string // names of the counted operations (diagnostics; bounded)
	logOn   bool
	// stall: while set, the creation of table files (*.sst) blocks - a disk that has stopped answering.  The channel is closed to release.
	stall atomic.Pointer[chan struct{}]
	// Stalled counts file creations that had to wait.
	Stalled atomic.Int64
}

// Stall makes every creation of a table file (*.sst) block until the returned function is called.
func (f *FS) Stall() (release func()) {
	ch := make(chan struct{})
	f.stall.Store(&ch)
	var once sync.Once
	return func() { once.Do(func() { f.stall.Store(nil); close(ch) }) }
}

var _ vfs.FS = (*FS)(nil)

// New returns a strict MemFS wrapper with dir created and durable (the operator-provided base
// data directory is durable beforehand).
func New(baseDir string) *FS {
	f := &FS{mem: vfs.NewStrictMem()}
	f.crashAt.Store(-1)
	_ = f.mem.MkdirAll(baseDir, 0o755)
	for _, d := range []string{"/", baseDir} {
		if df, err := f.mem.OpenDir(d); err == nil {
			_ = df.Sync()
			_ = df.Close()
		}
	}
	return f
}

// Arm makes the crash happen at the n-th counted operation from now (n >= 0); n < 0 disarms.
func (f *FS) Arm(n int64) {
	f.count.Store(0)
	f.crashAt.Store(n)
}

// ArmKeep is Arm for the "process dies, operating system survives" model: nothing that was done before operation n is lost.
func (f *FS) ArmKeep(n int64) {
	f.keepAll.Store(true)
	f.Arm(n)
}

// syncAll makes the current state of the whole tree durable.
func (f *FS) syncAll(dir string) {
	names, err := f.mem.List(dir)
	if err != nil {
		return
	}
	for _, n := range names {
		p := f.mem.PathJoin(dir, n)
		st, err := f.mem.Stat(p)
		if err != nil {
			continue
		}
		if st.IsDir() {
			f.syncAll(p)
			continue
		}
		if x, err := f.mem.Open(p); err == nil {
			_ = x.Sync()
			_ = x.Close()
		}
	}
	if d, err := f.mem.OpenDir(dir); err == nil {
		_ = d.Sync()
		_ = d.Close()
	}
}

func (f *FS) EnableLog(on bool) { f.logOn = on }

func (f *FS) Log() []string {
	f.mu.Lock()
	defer f.mu.Unlock()
	return append([]string(nil), f.log...)
}

// Count returns the number of counted operations since the last Arm.
func (f *FS) Count() int64 { return f.count.Load() }

// Crashed reports whether the crash point has been reached.
func (f *FS) Crashed() bool { return f.crashed.Load() }

// tick is called before every mutating operation.
func (f *FS) tick(what string) {
	n := f.count.Add(1) - 1
	if f.logOn {
		f.mu.Lock()
		if len(f.log) < 5000 {
			f.log = append(f.log, what)
		}
		f.mu.Unlock()
	}
	if at := f.crashAt.Load(); at >= 0 && n >= at && !f.crashed.Load() {
		f.crashed.Store(true)
		if f.keepAll.Load() {
			f.syncAll("/")
		}
		f.mem.SetIgnoreSyncs(true)
	}
}

// Crash drops all state that was not made durable and re-enables syncs.
func (f *FS) Crash() {
	f.mem.SetIgnoreSyncs(true)
	f.mem.ResetToSyncedState()
	f.mem.SetIgnoreSyncs(false)
	f.crashed.Store(false)
	f.crashAt.Store(-1)
	f.keepAll.Store(false)
}

func (f *FS) Dump() string { return f.mem.String() }

type file struct {
	vfs.File
	fs   *FS
	name string
}

func (w *file) Write(p []byte) (int, error) {
	w.fs.tick("write " + w.name)
	return w.File.Write(p)
}

func (w *file) Sync() error {
	w.fs.tick("sync " + w.name)
	return w.File.Sync()
}

func (f *FS) wrap(x vfs.File, err error, name string) (vfs.File, error) {
	if err != nil {
		return nil, err
	}
	return &file{File: x, fs: f, name: name}, nil
}

func (f *FS) waitStall(name string) {
	if p := f.stall.Load(); p != nil && len(name) > 4 && name[len(name)-4:] == ".sst" {
		f.Stalled.Add(1)
		<-*p
	}
}

func (f *FS) Create(name string) (vfs.File, error) {
	f.waitStall(name)
	f.tick("create " + name)
	x, err := f.mem.Create(name)
	return f.wrap(x, err, name)
}

func (f *FS) Link(oldname, newname string) error {
	f.tick("link " + oldname + " " + newname)
	return f.mem.Link(oldname, newname)
}

func (f *FS) Open(name string, opts ...vfs.OpenOption) (vfs.File, error) {
	x, err := f.mem.Open(name, opts...)
	return f.wrap(x, err, name)
}

func (f *FS) OpenDir(name string) (vfs.File, error) {
	x, err := f.mem.OpenDir(name)
	return f.wrap(x, err, name)
}

func (f *FS) Remove(name string) error {
	f.tick("remove " + name)
	return f.mem.Remove(name)
}

func (f *FS) RemoveAll(name string) error {
	f.tick("removeall " + name)
	return f.mem.RemoveAll(name)
}

func (f *FS) Rename(oldname, newname string) error {
	f.tick("rename " + oldname + " " + newname)
	return f.mem.Rename(oldname, newname)
}

func (f *FS) ReuseForWrite(oldname, newname string) (vfs.File, error) {
	f.tick("reuse " + oldname + " " + newname)
	x, err := f.mem.ReuseForWrite(oldname, newname)
	return f.wrap(x, err, newname)
}

func (f *FS) MkdirAll(dir string, perm os.FileMode) error {
	f.tick("mkdirall " + dir)
	return f.mem.MkdirAll(dir, perm)
}

func (f *FS) Lock(name string) (io.Closer, error)          { return f.mem.Lock(name) }
func (f *FS) List(dir string) ([]string, error)            { return f.mem.List(dir) }
func (f *FS) Stat(name string) (os.FileInfo, error)        { return f.mem.Stat(name) }
func (f *FS) PathBase(path string) string                  { return f.mem.PathBase(path) }
func (f *FS) PathJoin(elem ...string) string               { return f.mem.PathJoin(elem...) }
func (f *FS) PathDir(path string) string                   { return f.mem.PathDir(path) }
func (f *FS) GetDiskUsage(p string) (vfs.DiskUsage, error) { return f.mem.GetDiskUsage(p) }
