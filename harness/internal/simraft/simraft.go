// Package simraft is an in-memory stand-in for the raft library: one shared log and several real
// table state machine replicas that lag behind it by amounts the harness controls.  A Handle
// implements the four methods table.ActiveTable needs (table's raftHandler), with dragonboat's
// documented semantics: SyncPropose returns the result produced by the local replica's Update,
// SyncRead is a ReadIndex read (the local replica first applies everything committed at call
// time), StaleRead reads whatever the local replica has applied.
package simraft

import (
	"context"
	"fmt"

	"github.com/jamf/regatta/storage/table/fsm"
	"github.com/lni/dragonboat/v4/client"
	"github.com/lni/dragonboat/v4"
	sm "github.com/lni/dragonboat/v4/statemachine"

	"verifharness/internal/fsmx"
)

type Cluster struct {
	Log      [][]byte // Log[i-1] = command of entry i
	Replicas []*fsmx.Replica
	Applied  []uint64
	// Batch decides how many consecutive entries go into the next Update call (>=1); nil = one by one.
	Batch func(pending int) int
	// trace of the commit index observed by each SyncRead (for the oracle)
	LastReadIndex uint64
	// FailSyncRead, when non-nil, is returned by the next SyncRead (a transient raft error such as dragonboat.ErrSystemBusy:
	// the read-index request could not be served); it is consumed by that call.
	FailSyncRead error
	// LoseNextAck: the next proposal is committed and applied like every other one, but its caller is told dragonboat.ErrTimeout - the
	// acknowledgement got lost (a slow quorum, a leader that moved): the outcome is ambiguous for the caller, the entry IS in the log.
	LoseNextAck bool
}

func New(n int, typ fsm.SnapshotRecoveryType) (*Cluster, error) {
	c := &Cluster{}
	for i := 0; i < n; i++ {
		r := fsmx.Create(fsmx.NewFS(), typ, uint64(i+1))
		if _, err := r.Open(); err != nil {
			return nil, err
		}
		c.Replicas = append(c.Replicas, r)
		c.Applied = append(c.Applied, 0)
	}
	return c, nil
}

func (c *Cluster) Close() {
	for _, r := range c.Replicas {
		_ = r.Close()
	}
}

func (c *Cluster) Commit() uint64 { return uint64(len(c.Log)) }

// CatchUp applies pending entries on replica i up to index `to` (capped at the commit index) and
// returns the results of the applied entries keyed by index.
func (c *Cluster) CatchUp(i int, to uint64) (map[uint64]sm.Result, error) {
	if to > c.Commit() {
		to = c.Commit()
	}
	out := map[uint64]sm.Result{}
	for c.Applied[i] < to {
		pending := int(to - c.Applied[i])
		n := 1
		if c.Batch != nil {
			n = c.Batch(pending)
			if n < 1 {
				n = 1
			}
			if n > pending {
				n = pending
			}
		}
		first := c.Applied[i] + 1
		res, err := c.Replicas[i].Apply(fsmx.MkEntries(first, c.Log[first-1:first-1+uint64(n)]))
		if err != nil {
			return nil, err
		}
		for _, e := range res {
			out[e.Index] = e.Result
		}
		c.Applied[i] += uint64(n)
	}
	return out, nil
}

// Handle is a client's view through one replica.
type Handle struct {
	C       *Cluster
	Replica int
}

func (h Handle) SyncPropose(_ context.Context, _ *client.Session, cmd []byte) (sm.Result, error) {
	h.C.Log = append(h.C.Log, append([]byte(nil), cmd...))
	idx := h.C.Commit()
	res, err := h.C.CatchUp(h.Replica, idx)
	if err != nil {
		return sm.Result{}, err
	}
	r, ok := res[idx]
	if !ok {
		return sm.Result{}, fmt.Errorf("simraft: no result for entry %d", idx)
	}
	if h.C.LoseNextAck {
		h.C.LoseNextAck = false
		return sm.Result{}, dragonboat.ErrTimeout
	}
	return r, nil
}

func (h Handle) SyncRead(_ context.Context, _ uint64, req interface{}) (interface{}, error) {
	if err := h.C.FailSyncRead; err != nil {
		h.C.FailSyncRead = nil
		return nil, err
	}
	idx := h.C.Commit() // ReadIndex: the commit index at the time of the call
	h.C.LastReadIndex = idx
	if _, err := h.C.CatchUp(h.Replica, idx); err != nil {
		return nil, err
	}
	return h.C.Replicas[h.Replica].SM.Lookup(req)
}

func (h Handle) StaleRead(_ uint64, req interface{}) (interface{}, error) {
	return h.C.Replicas[h.Replica].SM.Lookup(req)
}

func (h Handle) GetNoOPSession(id uint64) *client.Session { return nil }
