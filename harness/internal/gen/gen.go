// Package gen holds the shared rapid generators.  All randomness comes from rapid draws.
package gen

import (
	"bytes"
	"fmt"

	"github.com/jamf/regatta/regattapb"
	"pgregory.net/rapid"
)

var smallAlphabet = []byte{0x00, 0x01, 'a', 'b', 0xFE, 0xFF}

// bookkeeping look-alikes: the literal names and the raw encodings of the internal keys.
var lookalikes = [][]byte{
	[]byte("index"), []byte("leader_index"),
	append([]byte{1, 0, 0, 0, 2}, "index"...), append([]byte{1, 0, 0, 0, 2}, "leader_index"...),
	append([]byte{2}, "index"...), {1, 0, 0, 0, 1}, {1, 0, 0, 0, 2},
}

func repeatByte(b byte, n int) []byte { return bytes.Repeat([]byte{b}, n) }

// FreshKey draws a non-empty key from the biased mixture described in DESIGN.md section 2.
func FreshKey(t *rapid.T, label string) []byte {
	switch rapid.IntRange(0, 19).Draw(t, label+".class") {
	case 0, 1, 2, 3, 4, 5, 6, 7, 8, 9: // short keys over a tiny alphabet => collisions, prefixes, 0x00/0xFF
		n := rapid.IntRange(1, 3).Draw(t, label+".n")
		k := make([]byte, n)
		for i := range k {
			k[i] = rapid.SampledFrom(smallAlphabet).Draw(t, label+".b")
		}
		return k
	case 10, 11:
		return append([]byte(nil), rapid.SampledFrom(lookalikes).Draw(t, label+".look")...)
	case 12: // long keys around the encoder's body limit and the accepted maximum
		n := rapid.SampledFrom([]int{1018, 1019, 1020, 1023, 1024}).Draw(t, label+".len")
		b := rapid.SampledFrom([]byte{0xFF, 0x00, 'a'}).Draw(t, label+".fill")
		k := repeatByte(b, n)
		if rapid.Bool().Draw(t, label+".tweak") {
			k[n-1] = rapid.SampledFrom(smallAlphabet).Draw(t, label+".last")
		}
		return k
	default:
		return rapid.SliceOfN(rapid.Byte(), 1, 6).Draw(t, label+".rnd")
	}
}

// derive makes a neighbour of an existing key: extension, prefix, successor-like.
func derive(t *rapid.T, k []byte, label string) []byte {
	switch rapid.IntRange(0, 4).Draw(t, label+".how") {
	case 0:
		return append(append([]byte(nil), k...), 0x00)
	case 1:
		return append(append([]byte(nil), k...), 0xFF)
	case 2:
		if len(k) > 1 {
			return append([]byte(nil), k[:len(k)-1]...)
		}
		return append(append([]byte(nil), k...), 'a')
	case 3:
		c := append([]byte(nil), k...)
		c[len(c)-1]++
		if c[len(c)-1] == 0 && len(c) == 1 {
			c[0] = 1
		}
		return c
	default:
		return append(append([]byte(nil), k...), rapid.SampledFrom(smallAlphabet).Draw(t, label+".ext"))
	}
}

func clampKey(k []byte, maxLen int) []byte {
	if len(k) > maxLen {
		return k[:maxLen]
	}
	return k
}

// Pool is the set of keys a case plays with.
type Pool struct {
	Keys   [][]byte
	MaxLen int
}

// NewPool draws n keys, some derived from earlier ones.
func NewPool(t *rapid.T, minN, maxN, maxLen int) *Pool {
	n := rapid.IntRange(minN, maxN).Draw(t, "pool.n")
	p := &Pool{MaxLen: maxLen}
	for i := 0; i < n; i++ {
		var k []byte
		if i > 0 && rapid.IntRange(0, 2).Draw(t, "pool.derive") == 0 {
			k = derive(t, p.Keys[rapid.IntRange(0, i-1).Draw(t, "pool.from")], "pool")
		} else {
			k = FreshKey(t, "pool.key")
		}
		p.Keys = append(p.Keys, clampKey(k, maxLen))
	}
	return p
}

// Key draws a key: mostly from the pool, sometimes a neighbour or a fresh one.
func (p *Pool) Key(t *rapid.T, label string) []byte {
	switch c := rapid.IntRange(0, 9).Draw(t, label+".src"); {
	case c <= 6:
		return append([]byte(nil), rapid.SampledFrom(p.Keys).Draw(t, label+".k")...)
	case c == 7:
		return clampKey(derive(t, rapid.SampledFrom(p.Keys).Draw(t, label+".k"), label), p.MaxLen)
	default:
		return clampKey(FreshKey(t, label), p.MaxLen)
	}
}

// RangeEnd draws a range end: wildcard, a key, or (rarely, where the wire can carry it) present-but-empty.
// It never returns nil (= "single key"); callers decide that separately.
func (p *Pool) RangeEnd(t *rapid.T, label string, allowEmptyPresent bool) []byte {
	c := rapid.IntRange(0, 9).Draw(t, label+".endclass")
	switch {
	case c <= 2:
		return []byte{0}
	case c == 3 && allowEmptyPresent:
		return []byte{}
	case c == 4:
		// "just past k": the successor k+0x00 (or a longer extension) of a key - a bound is no key, it may exceed the key length
		// limit when k is as long as a key may be
		k := p.Key(t, label+".endof")
		// the pool's longest key, when it is about as long as a key may be, is the interesting one here
		longest := p.Keys[0]
		for _, pk := range p.Keys {
			if len(pk) > len(longest) {
				longest = pk
			}
		}
		if len(longest) >= p.MaxLen-4 && rapid.Bool().Draw(t, label+".endoflongest") {
			k = append([]byte(nil), longest...)
		}
		return append(k, rapid.SampledFrom([][]byte{{0}, {0}, {0xff}, {0xff, 0xff, 0xff}, {0, 0}}).Draw(t, label+".endext")...)
	default:
		return p.Key(t, label+".end")
	}
}

// Value draws a small value: empty, short, or a one-digit counter.
func Value(t *rapid.T, label string) []byte {
	switch rapid.IntRange(0, 5).Draw(t, label+".vclass") {
	case 0:
		return nil
	case 1, 2:
		return []byte{rapid.SampledFrom([]byte("0123456789")).Draw(t, label+".digit")}
	case 3:
		return rapid.SliceOfN(rapid.SampledFrom(smallAlphabet), 1, 3).Draw(t, label+".vsmall")
	case 4:
		return rapid.SliceOfN(rapid.Byte(), 1, 8).Draw(t, label+".vrnd")
	default:
		n := rapid.IntRange(30, 300).Draw(t, label+".vlen")
		return repeatByte(rapid.Byte().Draw(t, label+".vfill"), n)
	}
}

// ---- requests -------------------------------------------------------------------------------

// RangeReq draws a read request.  keys_only and count_only are never set together (the API
// layer rejects that combination) and limit is never negative.
func (p *Pool) RangeReq(t *rapid.T, label string) *regattapb.RequestOp_Range {
	r := &regattapb.RequestOp_Range{Key: p.Key(t, label+".key")}
	if rapid.IntRange(0, 3).Draw(t, label+".single") != 0 {
		r.RangeEnd = p.RangeEnd(t, label, true)
		if rapid.Bool().Draw(t, label+".haslimit") {
			r.Limit = int64(rapid.IntRange(1, 5).Draw(t, label+".limit"))
		}
	} else if rapid.IntRange(0, 3).Draw(t, label+".limit1") == 0 {
		r.Limit = int64(rapid.IntRange(1, 2).Draw(t, label+".limit")) // ignored by single-key reads
	}
	switch rapid.IntRange(0, 4).Draw(t, label+".flags") {
	case 0:
		r.KeysOnly = true
	case 1:
		r.CountOnly = true
	}
	return r
}

func (p *Pool) PutOp(t *rapid.T, label string) *regattapb.RequestOp_Put {
	return &regattapb.RequestOp_Put{Key: p.Key(t, label+".key"), Value: Value(t, label), PrevKv: rapid.Bool().Draw(t, label+".prev")}
}

func (p *Pool) DeleteOp(t *rapid.T, label string) *regattapb.RequestOp_DeleteRange {
	d := &regattapb.RequestOp_DeleteRange{Key: p.Key(t, label+".key")}
	if rapid.Bool().Draw(t, label+".isrange") {
		d.RangeEnd = p.RangeEnd(t, label, true)
	}
	d.PrevKv = rapid.Bool().Draw(t, label+".prev")
	d.Count = rapid.Bool().Draw(t, label+".count")
	return d
}

func (p *Pool) Compare(t *rapid.T, label string) *regattapb.Compare {
	c := &regattapb.Compare{Key: p.Key(t, label+".key")}
	if rapid.IntRange(0, 3).Draw(t, label+".isrange") == 0 {
		c.RangeEnd = p.RangeEnd(t, label, true)
	}
	c.Result = regattapb.Compare_CompareResult(rapid.IntRange(0, 3).Draw(t, label+".result"))
	if rapid.IntRange(0, 3).Draw(t, label+".existence") != 0 {
		c.TargetUnion = &regattapb.Compare_Value{Value: Value(t, label+".val")}
	}
	return c
}

func (p *Pool) RequestOp(t *rapid.T, label string, readOnly bool) *regattapb.RequestOp {
	k := 0
	if !readOnly {
		k = rapid.IntRange(0, 5).Draw(t, label+".opkind")
	}
	switch k {
	case 0, 1:
		return &regattapb.RequestOp{Request: &regattapb.RequestOp_RequestRange{RequestRange: p.RangeReq(t, label+".range")}}
	case 2, 3:
		return &regattapb.RequestOp{Request: &regattapb.RequestOp_RequestPut{RequestPut: p.PutOp(t, label+".put")}}
	default:
		return &regattapb.RequestOp{Request: &regattapb.RequestOp_RequestDeleteRange{RequestDeleteRange: p.DeleteOp(t, label+".del")}}
	}
}

// Txn draws a transaction body.
func (p *Pool) Txn(t *rapid.T, label string, readOnly bool) *regattapb.Txn {
	x := &regattapb.Txn{}
	nc := rapid.IntRange(0, 3).Draw(t, label+".ncmp")
	for i := 0; i < nc; i++ {
		x.Compare = append(x.Compare, p.Compare(t, label+".cmp"))
	}
	ns := rapid.IntRange(0, 4).Draw(t, label+".nsucc")
	if rapid.IntRange(0, 11).Draw(t, label+".longbranch") == 0 {
		ns = rapid.IntRange(13, 30).Draw(t, label+".nlongsucc")
	}
	for i := 0; i < ns; i++ {
		x.Success = append(x.Success, p.RequestOp(t, label+".succ", readOnly))
	}
	nf := rapid.IntRange(0, 4).Draw(t, label+".nfail")
	for i := 0; i < nf; i++ {
		x.Failure = append(x.Failure, p.RequestOp(t, label+".fail", readOnly))
	}
	return x
}

// CmdOpts tunes Command.
type CmdOpts struct {
	LeaderIndex bool // sometimes attach a leader index
	NoTxn       bool
	Depth       int
}

// Command draws one table command as the log carries it.
func (p *Pool) Command(t *rapid.T, label string, o CmdOpts) *regattapb.Command {
	c := &regattapb.Command{Table: []byte("t")}
	k := rapid.IntRange(0, 19).Draw(t, label+".kind")
	switch {
	case k <= 5:
		c.Type = regattapb.Command_PUT
		c.Kv = &regattapb.KeyValue{Key: p.Key(t, label+".key"), Value: Value(t, label)}
		c.PrevKvs = rapid.Bool().Draw(t, label+".prev")
	case k <= 7:
		c.Type = regattapb.Command_DELETE
		c.Kv = &regattapb.KeyValue{Key: p.Key(t, label+".key")}
		c.PrevKvs = rapid.Bool().Draw(t, label+".prev")
		c.Count = rapid.Bool().Draw(t, label+".count")
	case k <= 10:
		c.Type = regattapb.Command_DELETE
		c.Kv = &regattapb.KeyValue{Key: p.Key(t, label+".key")}
		c.RangeEnd = p.RangeEnd(t, label, true)
		c.PrevKvs = rapid.Bool().Draw(t, label+".prev")
		c.Count = rapid.Bool().Draw(t, label+".count")
	case k <= 12:
		c.Type = regattapb.Command_PUT_BATCH
		n := rapid.IntRange(0, 4).Draw(t, label+".nbatch")
		if rapid.IntRange(0, 5).Draw(t, label+".longbatch") == 0 {
			// batches as a table restore / a busy replication stream produces them: dozens of pairs, keys repeated (the last one wins)
			n = rapid.IntRange(13, 60).Draw(t, label+".nlong")
			for i := 0; i < n; i++ {
				c.Batch = append(c.Batch, &regattapb.KeyValue{Key: p.Key(t, label+".bkey"), Value: []byte(fmt.Sprintf("b%d", rapid.IntRange(0, 999).Draw(t, label+".bv")))})
			}
			break
		}
		for i := 0; i < n; i++ {
			c.Batch = append(c.Batch, &regattapb.KeyValue{Key: p.Key(t, label+".bkey"), Value: Value(t, label+".b")})
		}
	case k == 13:
		c.Type = regattapb.Command_DELETE_BATCH
		n := rapid.IntRange(0, 4).Draw(t, label+".nbatch")
		if rapid.IntRange(0, 7).Draw(t, label+".longbatch") == 0 {
			n = rapid.IntRange(13, 40).Draw(t, label+".nlong")
		}
		for i := 0; i < n; i++ {
			c.Batch = append(c.Batch, &regattapb.KeyValue{Key: p.Key(t, label+".bkey")})
		}
	case k <= 16 && !o.NoTxn:
		c.Type = regattapb.Command_TXN
		c.Txn = p.Txn(t, label+".txn", false)
	case k <= 18 && o.Depth < 2:
		c.Type = regattapb.Command_SEQUENCE
		n := rapid.IntRange(0, 4).Draw(t, label+".nseq")
		if o.Depth == 0 && rapid.IntRange(0, 7).Draw(t, label+".longseq") == 0 {
			n = rapid.IntRange(13, 30).Draw(t, label+".nlongseq") // a replication proposal holds as many commands as fit 256 KiB
		}
		for i := 0; i < n; i++ {
			sub := p.Command(t, label+".seq", CmdOpts{Depth: o.Depth + 1, NoTxn: o.NoTxn})
			c.Sequence = append(c.Sequence, sub)
		}
	default:
		c.Type = regattapb.Command_DUMMY
	}
	if o.LeaderIndex && o.Depth == 0 && rapid.IntRange(0, 2).Draw(t, label+".hasli") == 0 {
		li := uint64(rapid.IntRange(0, 1000).Draw(t, label+".li"))
		c.LeaderIndex = &li
	}
	return c
}
