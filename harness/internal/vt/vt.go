// Package vt is the shared core of every check: it drives rapid, turns each generated
// case into (a) a stats record (distinct / non-trivial / class labels / samples) and
// (b) on failure a replay file holding the complete case as plain data.
//
// Every check is written as   gen(*rapid.T) C   +   run(C, *Obs) *Failure   where C is a
// JSON-serialisable value that holds *everything* the executor needs (exact protobuf
// bytes, configuration, schedules).  A replay therefore needs no generator.
package vt

import (
	"crypto/sha256"
	"encoding/hex"
	"encoding/json"
	"fmt"
	"os"
	"path/filepath"
	"regexp"
	"runtime/debug"
	"sort"
	"strconv"
	"strings"
	"sync"
	"testing"

	"pgregory.net/rapid"
)

// Failure describes an oracle failure.
type Failure struct {
	// Signature is a coarse, stable classification (oracle clause + operation kind),
	// used to match KNOWN_FINDINGS entries.
	Signature string `json:"signature"`
	Msg       string `json:"message"`
	Step      int    `json:"step"`
	// Case, when set, replaces the generated case in the replay file (e.g. narrowed to the one
	// failing crash point so that the replay is minimal).
	Case any `json:"-"`
}

func Failf(sig string, step int, format string, args ...any) *Failure {
	msg := fmt.Sprintf(format, args...)
	if len(msg) > 6000 { // large values in a message would turn the replay file into megabytes; the case itself holds the data
		msg = msg[:3000] + fmt.Sprintf(" ...[%d bytes elided]... ", len(msg)-6000) + msg[len(msg)-3000:]
	}
	return &Failure{Signature: sig, Step: step, Msg: msg}
}

// Obs collects what a single case covered.
type Obs struct {
	labels     map[string]int
	NonTrivial bool
	// Evals is the number of executions this case stands for (e.g. crash points); default 1.
	Evals int
	// extra distinct non-trivial sub-cases (e.g. individual crash points), identified by key suffix.
	subNT map[string]struct{}
	// Known lists signatures of known findings tolerated (excluded by construction) in this case.
	Known []string
	// Note is attached to the sample (short, optional)
	Note string
	// Describe renders the case in readable form; only called for sampled cases.
	Describe func() string
}

func (o *Obs) Label(l string) {
	if o.labels == nil {
		o.labels = map[string]int{}
	}
	o.labels[l]++
}

func (o *Obs) LabelN(l string, n int) {
	if o.labels == nil {
		o.labels = map[string]int{}
	}
	o.labels[l] += n
}

// SubNonTrivial registers a distinct non-trivial sub-case of the current case.
func (o *Obs) SubNonTrivial(key string) {
	if o.subNT == nil {
		o.subNT = map[string]struct{}{}
	}
	o.subNT[key] = struct{}{}
}

func (o *Obs) KnownHit(sig string) { o.Known = append(o.Known, sig) }

// ---- known findings -------------------------------------------------------------------------

type knownEntry struct {
	Property  string `json:"property"`
	Status    string `json:"status"` // "finding" | "fixed"
	Signature string `json:"signature"`
}

var (
	knownOnce sync.Once
	knownSigs map[string]bool
)

// IsKnown reports whether sig is listed as an unrepaired finding in KNOWN_FINDINGS.json.
func IsKnown(sig string) bool {
	knownOnce.Do(func() {
		knownSigs = map[string]bool{}
		p := os.Getenv("VERIF_KNOWN")
		if p == "" {
			return
		}
		b, err := os.ReadFile(p)
		if err != nil {
			return
		}
		var doc struct {
			Findings []knownEntry `json:"findings"`
		}
		if json.Unmarshal(b, &doc) != nil {
			return
		}
		for _, e := range doc.Findings {
			if e.Status == "finding" {
				knownSigs[e.Signature] = true
			}
		}
	})
	return knownSigs[sig]
}

// ---- stats ----------------------------------------------------------------------------------

type stats struct {
	mu          sync.Mutex
	Test        string          `json:"test"`
	Property    string          `json:"property"`
	Cases       int             `json:"cases"`
	Evaluations int             `json:"evaluations"`
	Distinct    map[string]bool `json:"-"`
	NTHashes    []string        `json:"nontrivial_hashes"`
	ntSet       map[string]bool
	DistinctN   int               `json:"distinct_cases"`
	Labels      map[string]int    `json:"labels"`
	LabelCases  map[string]int    `json:"label_cases"`
	Known       map[string]int    `json:"known_finding_hits"`
	Samples     []json.RawMessage `json:"samples"`
	Failed      bool              `json:"failed"`
	FailureSig  string            `json:"failure_signature,omitempty"`
	FailureMsg  string            `json:"failure_message,omitempty"`
	ReplayFile  string            `json:"replay_file,omitempty"`
	sampleEvery int
	maxSamples  int
}

func newStats(prop, test string) *stats {
	return &stats{
		Test: test, Property: prop,
		Distinct: map[string]bool{}, ntSet: map[string]bool{},
		Labels: map[string]int{}, LabelCases: map[string]int{}, Known: map[string]int{},
		sampleEvery: 1, maxSamples: 6,
	}
}

func hashOf(b []byte) string {
	s := sha256.Sum256(b)
	return hex.EncodeToString(s[:8])
}

const maxSampleBytes = 6000

func (s *stats) record(caseJSON []byte, o *Obs) {
	s.mu.Lock()
	defer s.mu.Unlock()
	h := hashOf(caseJSON)
	s.Cases++
	ev := o.Evals
	if ev <= 0 {
		ev = 1
	}
	s.Evaluations += ev
	s.Distinct[h] = true
	if o.NonTrivial && !s.ntSet[h] {
		s.ntSet[h] = true
		s.NTHashes = append(s.NTHashes, h)
	}
	for k := range o.subNT {
		hk := hashOf([]byte(h + "/" + k))
		if !s.ntSet[hk] {
			s.ntSet[hk] = true
			s.NTHashes = append(s.NTHashes, hk)
		}
	}
	for l, n := range o.labels {
		s.Labels[l] += n
		s.LabelCases[l]++
	}
	for _, k := range o.Known {
		s.Known[k]++
	}
	// samples: prefer non-trivial cases; keep a few, spaced geometrically over the run.
	if (o.NonTrivial || len(o.subNT) > 0) && len(s.Samples) < s.maxSamples && s.Cases >= s.sampleEvery {
		s.sampleEvery = s.Cases*3 + 1
		var smp json.RawMessage
		if len(caseJSON) <= maxSampleBytes {
			smp = append(json.RawMessage(nil), caseJSON...)
		} else {
			q, _ := json.Marshal(map[string]any{"truncated_case_json_prefix": string(caseJSON[:maxSampleBytes]), "case_bytes": len(caseJSON)})
			smp = q
		}
		readable := ""
		if o.Describe != nil {
			readable = clip(o.Describe(), 3000)
		}
		wrapped, _ := json.Marshal(map[string]any{"case_no": s.Cases, "hash": h, "labels": keys(o.labels), "note": o.Note, "readable": readable, "case": smp})
		s.Samples = append(s.Samples, wrapped)
	}
}

func keys(m map[string]int) []string {
	r := make([]string, 0, len(m))
	for k := range m {
		r = append(r, k)
	}
	sort.Strings(r)
	return r
}

func (s *stats) flush() {
	s.mu.Lock()
	defer s.mu.Unlock()
	dir := os.Getenv("VERIF_STATS_DIR")
	if dir == "" {
		return
	}
	s.DistinctN = len(s.Distinct)
	b, err := json.Marshal(s)
	if err != nil {
		return
	}
	_ = os.MkdirAll(dir, 0o755)
	name := fmt.Sprintf("%s-%d.json", s.Test, os.Getpid())
	_ = os.WriteFile(filepath.Join(dir, name), b, 0o644)
}

// ---- replay files ---------------------------------------------------------------------------

type ReplayFile struct {
	Property  string          `json:"property"`
	Test      string          `json:"test"`
	Signature string          `json:"signature"`
	Message   string          `json:"message"`
	Step      int             `json:"step"`
	Case      json.RawMessage `json:"case"`
}

func replayOutPath(test string) string {
	dir := os.Getenv("VERIF_REPLAY_DIR")
	if dir == "" {
		dir = os.TempDir()
	}
	_ = os.MkdirAll(dir, 0o755)
	tag := os.Getenv("VERIF_REPLAY_TAG")
	if tag == "" {
		tag = strconv.Itoa(os.Getpid())
	}
	return filepath.Join(dir, fmt.Sprintf("%s-%s.json", test, tag))
}

func writeReplay(prop, test string, caseJSON []byte, f *Failure) string {
	p := replayOutPath(test)
	rf := ReplayFile{Property: prop, Test: test, Signature: f.Signature, Message: f.Msg, Step: f.Step, Case: caseJSON}
	b, _ := json.MarshalIndent(rf, "", " ")
	_ = os.WriteFile(p, b, 0o644)
	return p
}

// SafeRun executes run and converts a panic on the calling goroutine into a Failure.
func SafeRun[C any](prop string, run func(C, *Obs) *Failure, c C, o *Obs) (f *Failure) {
	defer func() {
		if r := recover(); r != nil {
			st := string(debug.Stack())
			f = &Failure{Signature: prop + "/panic:" + panicSite(st), Msg: fmt.Sprintf("panic: %v\n%s", r, st), Step: -1}
		}
	}()
	return run(c, o)
}

// panicSite returns the first regatta (or pebble) frame below the panic, as a stable site name.
func panicSite(stack string) string {
	lines := strings.Split(stack, "\n")
	seenPanic := false
	for _, l := range lines {
		if strings.HasPrefix(l, "panic(") {
			seenPanic = true
			continue
		}
		if !seenPanic {
			continue
		}
		if strings.HasPrefix(l, "github.com/jamf/regatta/") {
			fn := strings.TrimPrefix(l, "github.com/jamf/regatta/")
			if i := strings.Index(fn, "("); i > 0 {
				// keep receiver parens balanced: cut at the argument list (last '(')
				if j := strings.LastIndex(fn, "("); j > 0 {
					fn = fn[:j]
				}
			}
			return fn
		}
	}
	return "unknown"
}

var journalCases = os.Getenv("VERIF_JOURNAL_CASES") != ""

func journalPath(test string) string {
	return strings.TrimSuffix(replayOutPath(test), ".json") + ".current.json"
}

// Check runs the property under rapid.
func Check[C any](t *testing.T, prop string, gen func(*rapid.T) C, run func(C, *Obs) *Failure) {
	t.Helper()
	st := newStats(prop, t.Name())
	defer st.flush()
	failedOnce := false
	rapid.Check(t, func(rt *rapid.T) {
		c := gen(rt)
		cj, err := json.Marshal(c)
		if err != nil {
			panic(fmt.Sprintf("harness: cannot marshal case: %v", err))
		}
		o := &Obs{}
		if journalCases {
			// checks that run regatta code on goroutines the harness does not own (raft apply loop, gRPC handlers) cannot rely on
			// panic recovery: the case is written out BEFORE it runs, so that the driver can re-execute it if the process dies
			rf := ReplayFile{Property: prop, Test: t.Name(), Signature: prop + "/process-death", Message: "the test process died while executing this case", Case: cj}
			if b, err := json.Marshal(rf); err == nil {
				_ = os.WriteFile(journalPath(t.Name()), b, 0o644)
			}
		}
		f := SafeRun(prop, run, c, o)
		if f != nil && timedOut(f) {
			// "an operation failed" whose error is an expired deadline / a busy system is a time budget that ran out (a saturated
			// machine), not an observation about the property: could not judge
			Inconclusive(fmt.Sprintf("%s: %s", f.Signature, clip(strings.SplitN(f.Msg, "\n", 2)[0], 300)))
			f = nil
		}
		if f != nil && IsKnown(f.Signature) {
			o.KnownHit(f.Signature)
			f = nil
		}
		if !failedOnce {
			if f == nil {
				st.record(cj, o)
			} else {
				st.mu.Lock()
				st.Cases++
				st.Evaluations += max(o.Evals, 1)
				st.mu.Unlock()
			}
		}
		if f != nil {
			failedOnce = true
			if f.Case != nil {
				if nj, err := json.Marshal(f.Case); err == nil {
					cj = nj
				}
			}
			p := writeReplay(prop, t.Name(), cj, f)
			st.mu.Lock()
			st.Failed, st.FailureSig, st.FailureMsg, st.ReplayFile = true, f.Signature, clip(f.Msg, 4000), p
			st.mu.Unlock()
			rt.Fatalf("VERIF-FAIL signature=%s step=%d replay=%s\n%s", f.Signature, f.Step, p, clip(f.Msg, 4000))
		}
	})
}

// (`code = Unavailable` is how regatta's API handlers report the errors it classifies as safe to retry; the four before it are the raft library's own "temporary" errors: a raft group that has no leader at the moment - an election on a machine
// that starves its heartbeats - drops or aborts requests; availability is not what any of the properties states)
var timeoutRE = regexp.MustCompile(`context deadline exceeded|DeadlineExceeded|i/o timeout|: timeout$|: timeout\b|system is too busy|timeout waiting|request timed out|request dropped as the shard is not ready|request aborted|request canceled|request cancelled|code = Unavailable`)

// transientSigs: further signatures (registered by a check's package) whose failures report the error of an engine call the check judges:
// when that error is an expired deadline / a raft group without a leader, the call was not answered - the case cannot be judged.
var transientSigs = map[string]bool{}

// UnjudgedOnTimeout registers signatures (full, with the property prefix) to be treated like the "-error" kind by Check.
func UnjudgedOnTimeout(sigs ...string) {
	for _, s := range sigs {
		transientSigs[s] = true
	}
}

// TransientErr: the error text is an expired deadline / one of the raft library's temporary errors (see timeoutRE).
func TransientErr(err error) bool {
	return err != nil && timeoutRE.MatchString(err.Error())
}

// timedOut: failures of the "-error" kind (an engine / RPC call the harness needed returned an error) whose first line shows that the
// error is an expired deadline.
func timedOut(f *Failure) bool {
	if !strings.Contains(f.Signature, "-error") && !transientSigs[f.Signature] {
		return false
	}
	return timeoutRE.MatchString(clip(strings.SplitN(f.Msg, "\n", 2)[0], 600))
}

func clip(s string, n int) string {
	if len(s) > n {
		return s[:n] + "...(clipped)"
	}
	return s
}

// Replay re-executes the case stored in the file named by VERIF_REPLAY (no generator, no rapid).
// The test fails (with a VERIF-REPRODUCED line) iff the case still fails.
func Replay[C any](t *testing.T, prop string, run func(C, *Obs) *Failure) {
	p := os.Getenv("VERIF_REPLAY")
	if p == "" {
		t.Skip("VERIF_REPLAY not set")
	}
	f, c := ReplayFilePath[C](t, prop, p, run)
	_ = c
	if f != nil {
		t.Fatalf("VERIF-REPRODUCED signature=%s step=%d\n%s", f.Signature, f.Step, clip(f.Msg, 8000))
	}
	t.Logf("VERIF-NOT-REPRODUCED %s", p)
}

func ReplayFilePath[C any](t *testing.T, prop, path string, run func(C, *Obs) *Failure) (*Failure, C) {
	var c C
	b, err := os.ReadFile(path)
	if err != nil {
		t.Fatalf("harness: read replay: %v", err)
	}
	var rf ReplayFile
	if err := json.Unmarshal(b, &rf); err != nil {
		t.Fatalf("harness: parse replay: %v", err)
	}
	if err := json.Unmarshal(rf.Case, &c); err != nil {
		t.Fatalf("harness: parse replay case: %v", err)
	}
	o := &Obs{}
	return SafeRun(prop, run, c, o), c
}

// Regress replays every committed case under dir (testdata/regress/*.json for cases that must
// pass, testdata/known/*.json for listed findings that are expected to still fail with their
// recorded signature).  Prints machine-readable lines for the driver.
func Regress[C any](t *testing.T, prop string, dir string, run func(C, *Obs) *Failure) {
	for _, sub := range []string{"regress", "known"} {
		files, _ := filepath.Glob(filepath.Join(dir, sub, "*.json"))
		sort.Strings(files)
		for _, p := range files {
			if ap, err := filepath.Abs(p); err == nil {
				p = ap
			}
			b, err := os.ReadFile(p)
			if err != nil {
				t.Fatalf("harness: %v", err)
			}
			var rf ReplayFile
			if err := json.Unmarshal(b, &rf); err != nil {
				t.Fatalf("harness: parse %s: %v", p, err)
			}
			if rf.Test != "" && !strings.HasPrefix(t.Name(), rf.Test+"Regress") && rf.Test+"Regress" != t.Name() {
				continue
			}
			f, _ := ReplayFilePath[C](t, prop, p, run)
			switch {
			case sub == "regress" && f != nil:
				fmt.Printf("VERIF-REGRESS-FAIL file=%s signature=%s\n", p, f.Signature)
				t.Errorf("regression case %s fails: %s: %s", p, f.Signature, clip(f.Msg, 3000))
			case sub == "regress":
				fmt.Printf("VERIF-REGRESS-OK file=%s\n", p)
			case sub == "known" && f != nil && IsKnown(f.Signature):
				fmt.Printf("VERIF-KNOWN-REPRODUCED file=%s signature=%s\n", p, f.Signature)
			case sub == "known" && f != nil:
				fmt.Printf("VERIF-REGRESS-FAIL file=%s signature=%s\n", p, f.Signature)
				t.Errorf("known-finding case %s fails with an unlisted signature %s: %s", p, f.Signature, clip(f.Msg, 3000))
			default:
				fmt.Printf("VERIF-KNOWN-GONE file=%s\n", p)
			}
		}
	}
}

// Tier returns "quick" or "thorough".
func Tier() string {
	if os.Getenv("VERIF_TIER") == "thorough" {
		return "thorough"
	}
	return "quick"
}

func Thorough() bool { return Tier() == "thorough" }

// EnvInt reads an integer knob.
func EnvInt(name string, def int) int {
	if v := os.Getenv(name); v != "" {
		if n, err := strconv.Atoi(v); err == nil {
			return n
		}
	}
	return def
}

// Inconclusive reports that the current case could not be judged (resource problem, hang without a
// witness).  The driver turns the line into exit status 2; it is never a violation.
func Inconclusive(msg string) {
	fmt.Printf("VERIF-INCONCLUSIVE %s\n", msg)
}

// ---- manual stats (for checks that enumerate instead of going through rapid.Check) ---------------

type ManualStats struct {
	st   *stats
	prop string
	test string
}

func NewManualStats(prop, test string) *ManualStats {
	return &ManualStats{st: newStats(prop, test), prop: prop, test: test}
}

// Record registers one enumerated case.
func (m *ManualStats) Record(c any, nonTrivial bool, labels []string) {
	cj, err := json.Marshal(c)
	if err != nil {
		return
	}
	o := &Obs{NonTrivial: nonTrivial}
	for _, l := range labels {
		o.Label(l)
	}
	m.st.record(cj, o)
}

// Fail writes the replay file for a failure of an enumerated case and returns its path.
func (m *ManualStats) Fail(f *Failure) string {
	var cj []byte
	if f.Case != nil {
		cj, _ = json.Marshal(f.Case)
	}
	p := writeReplay(m.prop, m.test, cj, f)
	m.st.mu.Lock()
	m.st.Failed, m.st.FailureSig, m.st.FailureMsg, m.st.ReplayFile = true, f.Signature, clip(f.Msg, 4000), p
	m.st.mu.Unlock()
	return p
}

func (m *ManualStats) Flush() { m.st.flush() }
