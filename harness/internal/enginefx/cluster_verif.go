//go:build verif

package enginefx

import (
	"errors"
	"fmt"
	"time"

	serrors "github.com/jamf/regatta/storage/errors"
	"github.com/jamf/regatta/storage/table"
)

// ClusterCreateTable creates a table through node 0 and waits until every node serves it.  The other nodes start their replica in
// their reconcile loop (every 30 s in production, reading the catalogue from their possibly lagging local copy): rounds are run
// explicitly until the table answers everywhere.
func ClusterCreateTable(fxs []*Fixture, name string, d time.Duration) (uint64, error) {
	deadline := time.Now().Add(d)
	// the metadata raft group can be without a leader for a moment (right after node restarts of an earlier case, or on a saturated
	// machine): "shard not ready" / busy / timed out are retried; an ambiguous earlier attempt shows as "already exists"
	var tb table.Table
	for attempt := 0; ; attempt++ {
		var err error
		tb, err = fxs[0].E.CreateTable(name)
		if err == nil {
			break
		}
		if attempt > 0 && errors.Is(err, serrors.ErrTableExists) {
			if at, gerr := fxs[0].E.Manager.GetTable(name); gerr == nil {
				tb = at.Table
				break
			}
		}
		if time.Now().After(deadline) {
			return 0, err
		}
		time.Sleep(100 * time.Millisecond)
	}
	for {
		ready := true
		var lastErr error
		for _, f := range fxs {
			_ = f.E.Manager.VerifReconcile()
		}
		for i, f := range fxs {
			if err := f.WaitTable(name, 300*time.Millisecond); err != nil {
				ready, lastErr = false, fmt.Errorf("node %d: %w", i+1, err)
			}
		}
		if ready {
			return tb.ClusterID, nil
		}
		if time.Now().After(deadline) {
			return tb.ClusterID, lastErr
		}
	}
}

// ClusterDropTable deletes a table and stops its replicas on every node.
func ClusterDropTable(fxs []*Fixture, name string) {
	for _, f := range fxs {
		if f.E != nil {
			_ = f.E.DeleteTable(name)
			break
		}
	}
	for k := 0; k < 3; k++ {
		for _, f := range fxs {
			if f.E != nil {
				_ = f.E.Manager.VerifReconcile()
			}
		}
		time.Sleep(5 * time.Millisecond)
	}
}
