//go:build verif

package enginefx

import (
	"fmt"
	"time"
)

// ClusterCreateTable creates a table through node 0 and waits until every node serves it.  The other nodes start their replica in
// their reconcile loop (every 30 s in production, reading the catalogue from their possibly lagging local copy): rounds are run
// explicitly until the table answers everywhere.
func ClusterCreateTable(fxs []*Fixture, name string, d time.Duration) (uint64, error) {
	tb, err := fxs[0].E.CreateTable(name)
	if err != nil {
		return 0, err
	}
	deadline := time.Now().Add(d)
	for {
		ready := true
		var lastErr error
		for _, f := range fxs {
			_ = f.E.Manager.VerifReconcile()
		}
		for i, f := range fxs {
			if err := f.WaitTable(name, 300*time.Millisecond); err != nil {
				ready, lastErr = false, fmt.Errorf("node %d: %w", i+1, err)
			}
		}
		if ready {
			return tb.ClusterID, nil
		}
		if time.Now().After(deadline) {
			return tb.ClusterID, lastErr
		}
	}
}

// ClusterDropTable deletes a table and stops its replicas on every node.
func ClusterDropTable(fxs []*Fixture, name string) {
	_ = fxs[0].E.DeleteTable(name)
	for k := 0; k < 3; k++ {
		for _, f := range fxs {
			if f.E != nil {
				_ = f.E.Manager.VerifReconcile()
			}
		}
		time.Sleep(5 * time.Millisecond)
	}
}
