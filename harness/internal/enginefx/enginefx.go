// Package enginefx starts real single-node storage.Engine instances in-process (dragonboat
// NodeHost + metadata store + table manager) on in-memory file systems and loopback ports, and
// real gRPC servers in front of them.
package enginefx

import (
	"context"
	"fmt"
	"net"
	"sync"
	"time"

	pvfs "github.com/cockroachdb/pebble/vfs"
	"github.com/jamf/regatta/regattapb"
	"github.com/jamf/regatta/regattaserver"
	"github.com/jamf/regatta/storage"
	"github.com/jamf/regatta/storage/table"
	dbl "github.com/lni/dragonboat/v4/logger"
	lvfs "github.com/lni/vfs"
	"go.uber.org/zap"
	"google.golang.org/grpc"
	"google.golang.org/grpc/credentials/insecure"
)

var quietOnce sync.Once

func quiet() {
	quietOnce.Do(func() {
		for _, n := range []string{"raft", "rsm", "transport", "dragonboat", "logdb", "tan", "settings", "grpc", "raftpb", "config", "utils", "registry"} {
			dbl.GetLogger(n).SetLevel(dbl.CRITICAL)
		}
	})
}

type Opts struct {
	NodeID             uint64
	LogCacheSize       int
	MaxInMemLogSize    uint64
	SnapshotEntries    uint64
	CompactionOverhead uint64
	RecoveryType       table.SnapshotRecoveryType
	// RecoveryTypes (StartCluster): per-node snapshot format, overriding RecoveryType (replicas configured with different formats)
	RecoveryTypes []table.SnapshotRecoveryType
	Applied       func(table string, rev uint64)
	// AppliedNode (StartCluster): like Applied, with the index of the node whose table state machine applied - it runs ON that node's
	// apply path, so a hook that sleeps holds exactly that replica back
	AppliedNode func(node int, table string, rev uint64)
	Pebble      bool // use the pebble LogDB instead of tan
}

type Fixture struct {
	E    *storage.Engine
	Cfg  storage.Config
	opts Opts
}

func FreePort() int {
	l, err := net.Listen("tcp", "127.0.0.1:0")
	if err != nil {
		panic(err)
	}
	defer l.Close()
	return l.Addr().(*net.TCPAddr).Port
}

// Start creates and starts an engine; retries on port clashes.
func Start(o Opts) (*Fixture, error) {
	quiet()
	if o.NodeID == 0 {
		o.NodeID = 1
	}
	var lastErr error
	for attempt := 0; attempt < 5; attempt++ {
		raftPort, gossipPort := FreePort(), FreePort()
		cfg := storage.Config{
			NodeID:         o.NodeID,
			InitialMembers: map[uint64]string{o.NodeID: fmt.Sprintf("127.0.0.1:%d", raftPort)},
			WALDir:         "/wal",
			NodeHostDir:    "/nh",
			RTTMillisecond: 2,
			RaftAddress:    fmt.Sprintf("127.0.0.1:%d", raftPort),
			Gossip:         storage.GossipConfig{BindAddress: fmt.Sprintf("127.0.0.1:%d", gossipPort), InitialMembers: []string{fmt.Sprintf("127.0.0.1:%d", gossipPort)}, ClusterName: fmt.Sprintf("c%d", gossipPort), NodeName: fmt.Sprintf("n%d-%d", o.NodeID, gossipPort)},
			Table: storage.TableConfig{
				FS: pvfs.NewMem(), TableCacheSize: 1024, ElectionRTT: 10, HeartbeatRTT: 1,
				MaxInMemLogSize: o.MaxInMemLogSize, SnapshotEntries: o.SnapshotEntries, CompactionOverhead: o.CompactionOverhead,
				RecoveryType: o.RecoveryType, AppliedIndexListener: o.Applied, DataDir: "/tables",
			},
			Meta:         storage.MetaConfig{ElectionRTT: 10, HeartbeatRTT: 1},
			FS:           lvfs.NewMem(),
			Log:          zap.NewNop().Sugar(),
			LogCacheSize: o.LogCacheSize,
		}
		if o.Pebble {
			cfg.LogDBImplementation = storage.Pebble
		}
		f := &Fixture{Cfg: cfg, opts: o}
		if err := f.boot(); err != nil {
			lastErr = err
			continue
		}
		return f, nil
	}
	return nil, lastErr
}

func (f *Fixture) boot() error {
	e, err := storage.New(f.Cfg)
	if err != nil {
		return err
	}
	if err := e.Start(); err != nil {
		_ = e.Close()
		return err
	}
	ctx, cancel := context.WithTimeout(context.Background(), 20*time.Second)
	defer cancel()
	if err := e.WaitUntilReady(ctx); err != nil {
		_ = e.Close()
		return err
	}
	f.E = e
	return nil
}

// Restart = Close + New on the same file systems and the same raft address.
func (f *Fixture) Restart() error {
	if err := f.Stop(); err != nil {
		return err
	}
	var err error
	for attempt := 0; attempt < 20; attempt++ {
		if err = f.boot(); err == nil {
			return nil
		}
		time.Sleep(100 * time.Millisecond) // the listening ports may linger shortly
	}
	return err
}

func (f *Fixture) Stop() error {
	if f.E == nil {
		return nil
	}
	e := f.E
	f.E = nil
	// Quiesce first.  Closing a NodeHost while one of its raft events is still being dispatched can deadlock regatta's shutdown:
	// NodeHost.Close holds the NodeHost lock while it publishes NodeUnloaded events synchronously, regatta's dispatcher handles every
	// event by re-reading the NodeHost info (which needs that lock) and its one-slot event channel is already taken by the
	// shutting-down event.  (Observed as a hang of Engine.Close in a table-set history that restarted the follower right after
	// tables had been started.)  Not one of the listed properties; the harness just keeps out of that window.
	time.Sleep(150 * time.Millisecond)
	_ = e.Cluster.Close()
	done := make(chan error, 1)
	go func() { done <- e.Close() }()
	select {
	case err := <-done:
		return err
	case <-time.After(40 * time.Second):
		return fmt.Errorf("engine shutdown hung (regatta event dispatcher vs NodeHost.Close)")
	}
}

// WaitTable waits until the named table answers a linearizable read.
func (f *Fixture) WaitTable(name string, d time.Duration) error {
	deadline := time.Now().Add(d)
	var err error
	for time.Now().Before(deadline) {
		ctx, cancel := context.WithTimeout(context.Background(), time.Second)
		_, err = f.E.Range(ctx, &regattapb.RangeRequest{Table: []byte(name), Key: []byte{0}, RangeEnd: []byte{0}, Linearizable: true, CountOnly: true})
		cancel()
		if err == nil {
			return nil
		}
		time.Sleep(5 * time.Millisecond)
	}
	return fmt.Errorf("table %q not ready: %w", name, err)
}

// WaitTablePatient is WaitTable for oracles: a table that does not answer within d is given another two minutes (a loaded machine
// can starve a fresh shard's election and the per-attempt deadline for a long time); the caller must treat a remaining error as
// "could not judge" (vt.Inconclusive), never as a violation - no property bounds the time a table needs to become ready.
func (f *Fixture) WaitTablePatient(name string, d time.Duration) error {
	if err := f.WaitTable(name, d); err == nil {
		return nil
	}
	return f.WaitTable(name, 2*time.Minute)
}

// CreateTable creates a table and waits until it is usable.
func (f *Fixture) CreateTable(name string) (table.Table, error) {
	t, err := f.E.CreateTable(name)
	if err != nil {
		return t, err
	}
	return t, f.WaitTable(name, 15*time.Second)
}

// ---- gRPC ------------------------------------------------------------------------------------

type Server struct {
	S    *regattaserver.RegattaServer
	Addr string
	done chan struct{}
}

// Serve starts a real gRPC server on a loopback port with the given registrations.
func Serve(reg func(r grpc.ServiceRegistrar), opts ...grpc.ServerOption) (*Server, error) {
	l, err := net.Listen("tcp", "127.0.0.1:0")
	if err != nil {
		return nil, err
	}
	s := regattaserver.NewServer(l, zap.NewNop().Sugar(), opts...)
	reg(s)
	srv := &Server{S: s, Addr: l.Addr().String(), done: make(chan struct{})}
	go func() {
		_ = s.Serve()
		close(srv.done)
	}()
	return srv, nil
}

func (s *Server) Stop() {
	s.S.Server.Stop()
	<-s.done
}

// Dial opens an insecure client connection (the registered vtproto codec is used automatically).
func Dial(addr string, opts ...grpc.DialOption) (*grpc.ClientConn, error) {
	all := append([]grpc.DialOption{grpc.WithTransportCredentials(insecure.NewCredentials())}, opts...)
	return grpc.NewClient("passthrough:///"+addr, all...)
}

// ---- multi-node clusters ---------------------------------------------------------------------------

// StartCluster starts n engines forming ONE regatta cluster (one metadata raft group, every table replicated on all nodes), each on
// its own in-memory file systems, talking raft and gossip over loopback.
func StartCluster(n int, o Opts) ([]*Fixture, error) {
	quiet()
	var lastErr error
	for attempt := 0; attempt < 4; attempt++ {
		members := map[uint64]string{}
		var gossip []string
		for i := 1; i <= n; i++ {
			members[uint64(i)] = fmt.Sprintf("127.0.0.1:%d", FreePort())
			gossip = append(gossip, fmt.Sprintf("127.0.0.1:%d", FreePort()))
		}
		cname := fmt.Sprintf("mc%d", FreePort())
		fxs := make([]*Fixture, n)
		errs := make([]error, n)
		var wg sync.WaitGroup
		for i := 1; i <= n; i++ {
			cfg := storage.Config{
				NodeID: uint64(i), InitialMembers: members, WALDir: "/wal", NodeHostDir: "/nh", RTTMillisecond: 5, RaftAddress: members[uint64(i)],
				Gossip: storage.GossipConfig{BindAddress: gossip[i-1], InitialMembers: gossip, ClusterName: cname, NodeName: fmt.Sprintf("n%d", i)},
				Table: storage.TableConfig{
					FS: pvfs.NewMem(), TableCacheSize: 1024, ElectionRTT: 10, HeartbeatRTT: 1,
					MaxInMemLogSize: o.MaxInMemLogSize, SnapshotEntries: o.SnapshotEntries, CompactionOverhead: o.CompactionOverhead,
					RecoveryType: o.RecoveryType, AppliedIndexListener: o.Applied, DataDir: "/tables",
				},
				Meta: storage.MetaConfig{ElectionRTT: 10, HeartbeatRTT: 1},
				FS:   lvfs.NewMem(), Log: zap.NewNop().Sugar(), LogCacheSize: o.LogCacheSize,
			}
			if len(o.RecoveryTypes) >= i {
				cfg.Table.RecoveryType = o.RecoveryTypes[i-1]
			}
			if o.AppliedNode != nil {
				node := i - 1
				cfg.Table.AppliedIndexListener = func(table string, rev uint64) {
					if o.Applied != nil {
						o.Applied(table, rev)
					}
					o.AppliedNode(node, table, rev)
				}
			}
			fxs[i-1] = &Fixture{Cfg: cfg, opts: o}
			wg.Add(1)
			go func(i int) { defer wg.Done(); errs[i] = fxs[i].boot() }(i - 1)
		}
		wg.Wait()
		lastErr = nil
		for _, e := range errs {
			if e != nil {
				lastErr = e
			}
		}
		if lastErr == nil {
			return fxs, nil
		}
		for _, f := range fxs {
			_ = f.Stop()
		}
	}
	return nil, lastErr
}
