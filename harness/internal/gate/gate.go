// Package gate provides a metadata store backed by the real kv.LFSM (driven with increasing entry
// indices, i.e. the real compare-and-set rule) whose every operation parks at a gate until a
// scheduler owned by the harness releases it.  Callers run their programs on goroutines, but
// only one of them is ever runnable, so an execution is a pure function of the schedule.
package gate

import (
	"bytes"
	"encoding/json"
	"fmt"
	"sync"
	"time"

	"github.com/jamf/regatta/storage/kv"
	sm "github.com/lni/dragonboat/v4/statemachine"
)

// World is the shared store + scheduler.
type World struct {
	mu     sync.Mutex
	fsm    *kv.LFSM
	index  uint64
	events chan event
	// Trace of released operations (diagnostics / replay description).
	Trace []string
	// Branching[i] = number of parked callers the scheduler could choose from at step i.
	Branching []int
	// OnRelease is called (scheduler goroutine) right before a parked operation is executed.
	OnRelease func(caller int, op string, key string)
	// OnDone is called after the operation was executed.
	OnDone func(caller int, op string, key string, err error)
	// Batch: whenever the scheduler releases a write while another caller is parked at a write too, the two proposals are applied by
	// ONE Update call of the state machine (what raft does with proposals that are committed together); each caller still gets its own
	// result.  During such a step Peek answers from a replica that applies the two entries one after the other, so that hooks observe
	// the state "at the write point" of each entry.
	Batch   bool
	Batched int // number of batched steps taken
	shadow  *kv.LFSM
	// Direct: no scheduler - operations execute at once on the calling goroutine (for checks that run real goroutines against the store)
	Direct bool
	// Replicas > 0: every caller is a NODE with a replica of its own of the metadata state machine, as with kv.RaftStore: reads are
	// stale reads of the node's replica, a write is committed to the shared log and answered with the result of the node's own replica
	// once that has applied the entry.  Replicas other than the writer's lag until the scheduler lets them apply the next entry of the
	// log - or catches them up by a SNAPSHOT of an up-to-date replica installed into the live state machine (what raft does for a
	// member that fell behind the compacted log).  The scheduler's choices are then: the parked callers, followed by "advance replica r"
	// and "install a snapshot on replica r" for every replica that is behind.  w.fsm stays the up-to-date replica the oracle reads.
	Replicas    int
	log         [][]byte
	reps        []*kv.LFSM
	applied     []uint64
	SnapInstall int // snapshots installed on lagging replicas
	LagReads    int // reads served by a replica that was behind the log
}

type event struct {
	caller  int
	kind    string // "gate" | "finished"
	op, key string
	update  *kv.Update // writes: the proposal
	proceed chan *sm.Result
}

func NewWorld() *World {
	return &World{fsm: kv.NewLFSM()(1000, 1).(*kv.LFSM), events: make(chan event)}
}

// NewReplicatedWorld: see World.Replicas.
func NewReplicatedWorld(n int) *World {
	w := NewWorld()
	w.Replicas = n
	for i := 0; i < n; i++ {
		w.reps = append(w.reps, kv.NewLFSM()(1000, uint64(i+1)).(*kv.LFSM))
		w.applied = append(w.applied, 0)
	}
	return w
}

// reader is the state machine a caller's reads are served by.
func (w *World) reader(caller int) *kv.LFSM {
	if w.Replicas > 0 && caller < len(w.reps) {
		if w.applied[caller] < w.index {
			w.LagReads++
		}
		return w.reps[caller]
	}
	return w.fsm
}

// advance applies log entries to replica r: one entry, or (all = true) everything it lacks - in ONE Update call when Batch is set.
func (w *World) advance(r int, all bool) ([]sm.Entry, error) {
	var out []sm.Entry
	for w.applied[r] < w.index {
		var es []sm.Entry
		for i := w.applied[r] + 1; i <= w.index; i++ {
			es = append(es, sm.Entry{Index: i, Cmd: w.log[i-1]})
			if !(all && w.Batch) {
				break
			}
		}
		res, err := w.reps[r].Update(es)
		if err != nil {
			return nil, err
		}
		w.applied[r] += uint64(len(es))
		out = append(out, res...)
		if !all {
			break
		}
	}
	return out, nil
}

// Settle lets every replica apply the rest of the log and returns, per replica, what it then holds under the pattern.
func (w *World) Settle(pattern string) ([][]kv.Pair, error) {
	var out [][]kv.Pair
	for r := range w.reps {
		if _, err := w.advance(r, true); err != nil {
			return nil, err
		}
		v, err := w.reps[r].Lookup(kv.QueryAll{Pattern: pattern})
		if err != nil {
			return nil, err
		}
		out = append(out, v.([]kv.Pair))
	}
	return out, nil
}

// install catches replica r up by a snapshot of the up-to-date replica, installed into the live state machine.
func (w *World) install(r int) error {
	ctx, err := w.fsm.PrepareSnapshot()
	if err != nil {
		return err
	}
	var buf bytes.Buffer
	if err := w.fsm.SaveSnapshot(ctx, &buf, nil, nil); err != nil {
		return err
	}
	if err := w.reps[r].RecoverFromSnapshot(bytes.NewReader(buf.Bytes()), nil, nil); err != nil {
		return err
	}
	w.applied[r] = w.index
	w.SnapInstall++
	return nil
}

// Peek reads a key without scheduling (oracle use only).
func (w *World) Peek(key string) (kv.Pair, bool) {
	f := w.fsm
	if w.shadow != nil {
		f = w.shadow
	}
	v, err := f.Lookup(kv.QueryKey{Key: key})
	if err != nil {
		return kv.Pair{}, false
	}
	return v.(kv.Pair), true
}

func (w *World) PeekAll(pattern string) []kv.Pair {
	v, err := w.fsm.Lookup(kv.QueryAll{Pattern: pattern})
	if err != nil {
		return nil
	}
	return v.([]kv.Pair)
}

// clone returns a second state machine holding exactly the current content (snapshot + restore).
func (w *World) clone() (*kv.LFSM, error) {
	ctx, err := w.fsm.PrepareSnapshot()
	if err != nil {
		return nil, err
	}
	var buf bytes.Buffer
	if err := w.fsm.SaveSnapshot(ctx, &buf, nil, nil); err != nil {
		return nil, err
	}
	n := kv.NewLFSM()(1000, 2).(*kv.LFSM)
	if err := n.RecoverFromSnapshot(bytes.NewReader(buf.Bytes()), nil, nil); err != nil {
		return nil, err
	}
	return n, nil
}

// Store is one caller's handle; it satisfies the store interfaces of table.Manager.
type Store struct {
	W      *World
	Caller int
	lastOp string
	lastKy string
	lastEr error
}

func (s *Store) gate(op, key string) { s.gateW(op, key, nil) }

// gateW parks; for writes the scheduler may hand back the result of a batched application.
func (s *Store) gateW(op, key string, u *kv.Update) *sm.Result {
	if s.W.Direct {
		return nil
	}
	p := make(chan *sm.Result)
	s.W.events <- event{caller: s.Caller, kind: "gate", op: op, key: key, update: u, proceed: p}
	r := <-p
	s.lastOp, s.lastKy = op, key
	return r
}

func (s *Store) propose(u kv.Update, pre *sm.Result) (sm.Result, error) {
	if pre != nil {
		return *pre, nil
	}
	s.W.mu.Lock()
	defer s.W.mu.Unlock()
	s.W.index++
	b, _ := json.Marshal(u)
	res, err := s.W.fsm.Update([]sm.Entry{{Index: s.W.index, Cmd: b}})
	if err != nil {
		return sm.Result{}, err
	}
	if s.W.Replicas > 0 && s.Caller < len(s.W.reps) {
		// committed; the proposer is answered by its own replica once that has applied the entry (and everything before it)
		s.W.log = append(s.W.log, b)
		own, err := s.W.advance(s.Caller, true)
		if err != nil {
			return sm.Result{}, err
		}
		return own[len(own)-1].Result, nil
	}
	return res[0].Result, nil
}

func (s *Store) Exists(key string) (bool, error) {
	s.gate("exists", key)
	v, err := s.W.reader(s.Caller).Lookup(kv.QueryExist{Key: key})
	s.lastEr = err
	if err != nil {
		return false, err
	}
	return v.(bool), nil
}

func (s *Store) Get(key string) (kv.Pair, error) {
	s.gate("get", key)
	v, err := s.W.reader(s.Caller).Lookup(kv.QueryKey{Key: key})
	s.lastEr = err
	if err != nil {
		return kv.Pair{}, err
	}
	return v.(kv.Pair), nil
}

func (s *Store) GetAll(pattern string) ([]kv.Pair, error) {
	s.gate("getall", pattern)
	v, err := s.W.reader(s.Caller).Lookup(kv.QueryAll{Pattern: pattern})
	s.lastEr = err
	if err != nil {
		return nil, err
	}
	return v.([]kv.Pair), nil
}

// GetAllValues mirrors kv.RaftStore.GetAllValues.
func (s *Store) GetAllValues(pattern string) ([]string, error) {
	s.gate("getallvalues", pattern)
	v, err := s.W.reader(s.Caller).Lookup(kv.QueryAllValues{Pattern: pattern})
	s.lastEr = err
	if err != nil {
		return nil, err
	}
	return v.([]string), nil
}

// Set mirrors kv.RaftStore.Set (same result decoding and error mapping).
func (s *Store) Set(key, value string, ver uint64) (kv.Pair, error) {
	pair := kv.Pair{Key: key, Value: value, Ver: ver}
	upd := kv.Update{Op: kv.UpdateOpSet, KVPair: pair}
	res, err := s.propose(upd, s.gateW("set", key, &upd))
	if err != nil {
		s.lastEr = err
		return kv.Pair{}, err
	}
	if err := json.Unmarshal(res.Data, &pair); err != nil {
		s.lastEr = err
		return kv.Pair{}, err
	}
	if res.Value == kv.ResultCodeVersionMismatch {
		s.lastEr = kv.ErrVersionMismatch
		return pair, kv.ErrVersionMismatch
	}
	s.lastEr = nil
	return pair, nil
}

// Delete mirrors kv.RaftStore.Delete.
func (s *Store) Delete(key string, ver uint64) error {
	upd := kv.Update{Op: kv.UpdateOpDelete, KVPair: kv.Pair{Key: key, Ver: ver}}
	res, err := s.propose(upd, s.gateW("delete", key, &upd))
	if err != nil {
		s.lastEr = err
		return err
	}
	if res.Value == kv.ResultCodeVersionMismatch {
		s.lastEr = kv.ErrVersionMismatch
		return kv.ErrVersionMismatch
	}
	s.lastEr = nil
	return nil
}

// Run executes the programs (one goroutine per caller) under the given schedule: at every step the
// schedule picks which parked caller proceeds.  Returns the number of steps taken, and whether the
// schedule was exhausted (then the remaining choices are 0).
func (w *World) Run(programs []func(s *Store), schedule []int) (steps int, err error) {
	return w.RunWith(nil, programs, schedule)
}

// RunWith is Run with caller-provided (reusable) Store objects; their World is re-pointed to w.
func (w *World) RunWith(stores []*Store, programs []func(s *Store), schedule []int) (steps int, err error) {
	n := len(programs)
	if stores == nil {
		stores = make([]*Store, n)
	}
	parked := map[int]event{}
	finished := 0
	wait := func() error {
		select {
		case e := <-w.events:
			if e.kind == "finished" {
				finished++
			} else {
				parked[e.caller] = e
			}
			return nil
		case <-time.After(20 * time.Second):
			return fmt.Errorf("gate: no event within 20 s (a caller is stuck outside the store)")
		}
	}
	// callers are started one after the other, each runs until its first gate (or finishes) before the next one
	// starts: at no time two callers are runnable
	for i := range programs {
		if stores[i] == nil {
			stores[i] = &Store{Caller: i}
		}
		stores[i].W, stores[i].Caller = w, i
		go func(i int) {
			programs[i](stores[i])
			w.events <- event{caller: i, kind: "finished"}
		}(i)
		if err := wait(); err != nil {
			return steps, err
		}
	}
	for finished < n {
		if len(parked) == 0 {
			return steps, fmt.Errorf("gate: nobody is parked but %d callers are unfinished", n-finished)
		}
		// deterministic order of the parked callers
		var ids []int
		for id := 0; id < n; id++ {
			if _, ok := parked[id]; ok {
				ids = append(ids, id)
			}
		}
		choice := 0
		if steps < len(schedule) {
			choice = schedule[steps]
		}
		if w.Replicas > 0 {
			// replicas that are behind can be advanced by one log entry or caught up by a snapshot
			var lagging []int
			for r := range w.reps {
				if w.applied[r] < w.index {
					lagging = append(lagging, r)
				}
			}
			options := len(ids) + 2*len(lagging)
			w.Branching = append(w.Branching, options)
			if k := choice % options; k >= len(ids) {
				k -= len(ids)
				r := lagging[k/2]
				steps++
				if k%2 == 0 {
					w.Trace = append(w.Trace, fmt.Sprintf("replica%d:apply-next-entry", r))
					if _, err := w.advance(r, false); err != nil {
						return steps, err
					}
				} else {
					w.Trace = append(w.Trace, fmt.Sprintf("replica%d:install-snapshot", r))
					if err := w.install(r); err != nil {
						return steps, err
					}
				}
				continue
			}
			choice = choice % options
		} else {
			w.Branching = append(w.Branching, len(ids))
		}
		id := ids[choice%len(ids)]
		e := parked[id]
		// batching: a second parked write joins the released one in a single Update call
		other := -1
		if w.Batch && w.Replicas == 0 && e.update != nil {
			for _, o := range ids {
				if o != id && parked[o].update != nil {
					other = o
					break
				}
			}
		}
		if other >= 0 {
			e2 := parked[other]
			shadow, err := w.clone()
			if err != nil {
				return steps, err
			}
			b1, _ := json.Marshal(*e.update)
			b2, _ := json.Marshal(*e2.update)
			w.mu.Lock()
			i1, i2 := w.index+1, w.index+2
			w.index += 2
			res, err := w.fsm.Update([]sm.Entry{{Index: i1, Cmd: b1}, {Index: i2, Cmd: b2}})
			w.mu.Unlock()
			if err != nil {
				return steps, err
			}
			w.shadow = shadow
			w.Batched++
			for k, x := range []struct {
				id  int
				e   event
				idx uint64
				cmd []byte
			}{{id, e, i1, b1}, {other, e2, i2, b2}} {
				delete(parked, x.id)
				if k == 1 {
					w.Branching = append(w.Branching, 1) // no choice at this step: the schedule index stays aligned with the step number
				}
				w.Trace = append(w.Trace, fmt.Sprintf("caller%d:%s(%s)[batched %d/2]", x.id, x.e.op, x.e.key, k+1))
				if w.OnRelease != nil {
					w.OnRelease(x.id, x.e.op, x.e.key)
				}
				steps++
				r := res[k].Result
				x.e.proceed <- &r
				if err := wait(); err != nil {
					w.shadow = nil
					return steps, err
				}
				if _, err := shadow.Update([]sm.Entry{{Index: x.idx, Cmd: x.cmd}}); err != nil {
					w.shadow = nil
					return steps, err
				}
				if w.OnDone != nil {
					w.OnDone(x.id, x.e.op, x.e.key, stores[x.id].lastEr)
				}
			}
			w.shadow = nil
			continue
		}
		delete(parked, id)
		w.Trace = append(w.Trace, fmt.Sprintf("caller%d:%s(%s)", id, e.op, e.key))
		if w.OnRelease != nil {
			w.OnRelease(id, e.op, e.key)
		}
		steps++
		e.proceed <- nil
		// the released caller executes its operation and runs on until its next gate or the end of its program
		if err := wait(); err != nil {
			return steps, err
		}
		if w.OnDone != nil {
			w.OnDone(id, e.op, e.key, stores[id].lastEr)
		}
	}
	return steps, nil
}
