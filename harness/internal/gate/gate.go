// Package gate provides a metadata store backed by the real kv.LFSM (driven with increasing entry
// indices, i.e. the real compare-and-set rule) whose every operation parks at a gate until a
// scheduler owned by the harness releases it.  Callers run their programs on goroutines, but
// only one of them is ever runnable, so an execution is a pure function of the schedule.
package gate

import (
	"encoding/json"
	"fmt"
	"sync"
	"time"

	"github.com/jamf/regatta/storage/kv"
	sm "github.com/lni/dragonboat/v4/statemachine"
)

// World is the shared store + scheduler.
type World struct {
	mu     sync.Mutex
	fsm    *kv.LFSM
	index  uint64
	events chan event
	// Trace of released operations (diagnostics / replay description).
	Trace []string
	// Branching[i] = number of parked callers the scheduler could choose from at step i.
	Branching []int
	// OnRelease is called (scheduler goroutine) right before a parked operation is executed.
	OnRelease func(caller int, op string, key string)
	// OnDone is called after the operation was executed.
	OnDone func(caller int, op string, key string, err error)
}

type event struct {
	caller  int
	kind    string // "gate" | "finished"
	op, key string
	proceed chan struct{}
}

func NewWorld() *World {
	return &World{fsm: kv.NewLFSM()(1000, 1).(*kv.LFSM), events: make(chan event)}
}

// Peek reads a key without scheduling (oracle use only).
func (w *World) Peek(key string) (kv.Pair, bool) {
	v, err := w.fsm.Lookup(kv.QueryKey{Key: key})
	if err != nil {
		return kv.Pair{}, false
	}
	return v.(kv.Pair), true
}

func (w *World) PeekAll(pattern string) []kv.Pair {
	v, err := w.fsm.Lookup(kv.QueryAll{Pattern: pattern})
	if err != nil {
		return nil
	}
	return v.([]kv.Pair)
}

// Store is one caller's handle; it satisfies the store interfaces of table.Manager.
type Store struct {
	W      *World
	Caller int
	lastOp string
	lastKy string
	lastEr error
}

func (s *Store) gate(op, key string) {
	p := make(chan struct{})
	s.W.events <- event{caller: s.Caller, kind: "gate", op: op, key: key, proceed: p}
	<-p
	s.lastOp, s.lastKy = op, key
}

func (s *Store) propose(u kv.Update) (sm.Result, error) {
	s.W.mu.Lock()
	defer s.W.mu.Unlock()
	s.W.index++
	b, _ := json.Marshal(u)
	res, err := s.W.fsm.Update([]sm.Entry{{Index: s.W.index, Cmd: b}})
	if err != nil {
		return sm.Result{}, err
	}
	return res[0].Result, nil
}

func (s *Store) Exists(key string) (bool, error) {
	s.gate("exists", key)
	v, err := s.W.fsm.Lookup(kv.QueryExist{Key: key})
	s.lastEr = err
	if err != nil {
		return false, err
	}
	return v.(bool), nil
}

func (s *Store) Get(key string) (kv.Pair, error) {
	s.gate("get", key)
	v, err := s.W.fsm.Lookup(kv.QueryKey{Key: key})
	s.lastEr = err
	if err != nil {
		return kv.Pair{}, err
	}
	return v.(kv.Pair), nil
}

func (s *Store) GetAll(pattern string) ([]kv.Pair, error) {
	s.gate("getall", pattern)
	v, err := s.W.fsm.Lookup(kv.QueryAll{Pattern: pattern})
	s.lastEr = err
	if err != nil {
		return nil, err
	}
	return v.([]kv.Pair), nil
}

// Set mirrors kv.RaftStore.Set (same result decoding and error mapping).
func (s *Store) Set(key, value string, ver uint64) (kv.Pair, error) {
	s.gate("set", key)
	pair := kv.Pair{Key: key, Value: value, Ver: ver}
	res, err := s.propose(kv.Update{Op: kv.UpdateOpSet, KVPair: pair})
	if err != nil {
		s.lastEr = err
		return kv.Pair{}, err
	}
	if err := json.Unmarshal(res.Data, &pair); err != nil {
		s.lastEr = err
		return kv.Pair{}, err
	}
	if res.Value == kv.ResultCodeVersionMismatch {
		s.lastEr = kv.ErrVersionMismatch
		return pair, kv.ErrVersionMismatch
	}
	s.lastEr = nil
	return pair, nil
}

// Delete mirrors kv.RaftStore.Delete.
func (s *Store) Delete(key string, ver uint64) error {
	s.gate("delete", key)
	res, err := s.propose(kv.Update{Op: kv.UpdateOpDelete, KVPair: kv.Pair{Key: key, Ver: ver}})
	if err != nil {
		s.lastEr = err
		return err
	}
	if res.Value == kv.ResultCodeVersionMismatch {
		s.lastEr = kv.ErrVersionMismatch
		return kv.ErrVersionMismatch
	}
	s.lastEr = nil
	return nil
}

// Run executes the programs (one goroutine per caller) under the given schedule: at every step the
// schedule picks which parked caller proceeds.  Returns the number of steps taken, and whether the
// schedule was exhausted (then the remaining choices are 0).
func (w *World) Run(programs []func(s *Store), schedule []int) (steps int, err error) {
	return w.RunWith(nil, programs, schedule)
}

// RunWith is Run with caller-provided (reusable) Store objects; their World is re-pointed to w.
func (w *World) RunWith(stores []*Store, programs []func(s *Store), schedule []int) (steps int, err error) {
	n := len(programs)
	if stores == nil {
		stores = make([]*Store, n)
	}
	parked := map[int]event{}
	finished := 0
	wait := func() error {
		select {
		case e := <-w.events:
			if e.kind == "finished" {
				finished++
			} else {
				parked[e.caller] = e
			}
			return nil
		case <-time.After(20 * time.Second):
			return fmt.Errorf("gate: no event within 20 s (a caller is stuck outside the store)")
		}
	}
	// callers are started one after the other, each runs until its first gate (or finishes) before the next one
	// starts: at no time two callers are runnable
	for i := range programs {
		if stores[i] == nil {
			stores[i] = &Store{Caller: i}
		}
		stores[i].W, stores[i].Caller = w, i
		go func(i int) {
			programs[i](stores[i])
			w.events <- event{caller: i, kind: "finished"}
		}(i)
		if err := wait(); err != nil {
			return steps, err
		}
	}
	for finished < n {
		if len(parked) == 0 {
			return steps, fmt.Errorf("gate: nobody is parked but %d callers are unfinished", n-finished)
		}
		// deterministic order of the parked callers
		var ids []int
		for id := 0; id < n; id++ {
			if _, ok := parked[id]; ok {
				ids = append(ids, id)
			}
		}
		choice := 0
		if steps < len(schedule) {
			choice = schedule[steps]
		}
		w.Branching = append(w.Branching, len(ids))
		id := ids[choice%len(ids)]
		e := parked[id]
		delete(parked, id)
		w.Trace = append(w.Trace, fmt.Sprintf("caller%d:%s(%s)", id, e.op, e.key))
		if w.OnRelease != nil {
			w.OnRelease(id, e.op, e.key)
		}
		steps++
		e.proceed <- struct{}{}
		// the released caller executes its operation and runs on until its next gate or the end of its program
		if err := wait(); err != nil {
			return steps, err
		}
		if w.OnDone != nil {
			w.OnDone(id, e.op, e.key, stores[id].lastEr)
		}
	}
	return steps, nil
}
