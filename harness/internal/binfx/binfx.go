// Package binfx runs the real `regatta leader` / `regatta follower` binaries (production wiring of
// cmd/leader.go and cmd/follower.go) as sub-processes on loopback ports with data under a scratch
// directory, and observes process exit as a first-class, timing-free fact.
package binfx

import (
	"context"
	"errors"
	"fmt"
	"net"
	"os"
	"os/exec"
	"path/filepath"
	"runtime"
	"sync"
	"syscall"
	"time"

	"github.com/jamf/regatta/regattapb"
	_ "github.com/jamf/regatta/regattaserver" // codec registration
	"google.golang.org/grpc"
	"google.golang.org/grpc/credentials/insecure"
)

type Proc struct {
	Role     string
	Cmd      *exec.Cmd
	Dir      string
	API      string // host:port of the client API
	Repl     string // host:port of the replication API (leader only)
	LogPath  string
	exited   chan struct{}
	exitErr  error
	exitOnce sync.Once
	Conn     *grpc.ClientConn
}

func freePort() int {
	l, err := net.Listen("tcp", "127.0.0.1:0")
	if err != nil {
		panic(err)
	}
	defer l.Close()
	return l.Addr().(*net.TCPAddr).Port
}

func Binary() (string, error) {
	b := os.Getenv("VERIF_REGATTA_BIN")
	if b == "" {
		return "", fmt.Errorf("VERIF_REGATTA_BIN not set (the driver builds /repo's regatta binary and exports its path)")
	}
	if _, err := os.Stat(b); err != nil {
		return "", err
	}
	return b, nil
}

func Scratch() string {
	d := os.Getenv("VERIF_SCRATCH")
	if d == "" {
		d = "/dev/shm/verif-scratch"
	}
	_ = os.MkdirAll(d, 0o755)
	return d
}

type Opts struct {
	Role             string // leader | follower
	LeaderRepl       string // follower: leader replication address host:port
	TablesToken      string
	MaintenanceToken string
	Extra            []string
	APIScheme        string // http (default) | https
	ReplScheme       string // leader: http (default) | https
	ConfigYAML       string // written to <process dir>/config.yaml (regatta reads ./config.* through viper) - for settings that have no flag
}

// Start launches a process and waits until its API answers.
func Start(o Opts) (*Proc, error) {
	bin, err := Binary()
	if err != nil {
		return nil, err
	}
	var lastErr error
	for attempt := 0; attempt < 4; attempt++ {
		p, err := start(bin, o)
		if err == nil {
			return p, nil
		}
		lastErr = err
	}
	return nil, lastErr
}

func apiAddress(scheme, dir string, port int) string {
	if scheme == "unix" || scheme == "unixs" {
		return fmt.Sprintf("--api.address=%s://%s", scheme, filepath.Join(dir, "api.sock"))
	}
	return fmt.Sprintf("--api.address=%s://127.0.0.1:%d", scheme, port)
}

func start(bin string, o Opts) (*Proc, error) {
	dir, err := os.MkdirTemp(Scratch(), "regatta-"+o.Role+"-")
	if err != nil {
		return nil, err
	}
	api, repl, rest, raft, gossip := freePort(), freePort(), freePort(), freePort(), freePort()
	scheme := o.APIScheme
	if scheme == "" {
		scheme = "http"
	}
	lvl := os.Getenv("VERIF_BIN_LOGLEVEL")
	if lvl == "" {
		lvl = "ERROR"
	}
	args := []string{o.Role,
		"--log-level=" + lvl,
		apiAddress(scheme, dir, api),
		fmt.Sprintf("--rest.address=http://127.0.0.1:%d", rest),
		fmt.Sprintf("--raft.address=127.0.0.1:%d", raft),
		fmt.Sprintf("--raft.initial-members=1=127.0.0.1:%d", raft),
		"--raft.node-id=1",
		"--raft.rtt=5ms", "--raft.election-rtt=10", "--raft.heartbeat-rtt=1",
		"--raft.node-host-dir=" + filepath.Join(dir, "raft"),
		"--raft.state-machine-dir=" + filepath.Join(dir, "sm"),
		fmt.Sprintf("--memberlist.address=127.0.0.1:%d", gossip),
		fmt.Sprintf("--memberlist.cluster-name=c%d", gossip),
		fmt.Sprintf("--memberlist.node-name=n%d", gossip),
	}
	if o.TablesToken != "" {
		args = append(args, "--tables.token="+o.TablesToken)
	}
	if o.MaintenanceToken != "" {
		args = append(args, "--maintenance.token="+o.MaintenanceToken)
	}
	if o.Role == "leader" {
		rs := o.ReplScheme
		if rs == "" {
			rs = "http"
		}
		if rs == "unix" || rs == "unixs" {
			args = append(args, fmt.Sprintf("--replication.address=%s://%s", rs, filepath.Join(dir, "repl.sock")))
		} else {
			args = append(args, fmt.Sprintf("--replication.address=%s://127.0.0.1:%d", rs, repl))
		}
	} else {
		args = append(args, "--replication.leader-address=http://"+o.LeaderRepl,
			"--replication.poll-interval=20ms", "--replication.lease-interval=50ms", "--replication.reconcile-interval=100ms")
	}
	args = append(args, o.Extra...)
	if o.ConfigYAML != "" {
		if err := os.WriteFile(filepath.Join(dir, "config.yaml"), []byte(o.ConfigYAML), 0o600); err != nil {
			return nil, err
		}
	}
	cmd := exec.Command(bin, args...)
	cmd.Dir = dir
	cmd.Env = append(os.Environ(), "TMPDIR="+dir)
	logPath := filepath.Join(dir, "process.log")
	lf, err := os.Create(logPath)
	if err != nil {
		return nil, err
	}
	cmd.Stdout, cmd.Stderr = lf, lf
	// Pdeathsig makes sure no server process outlives a test binary that dies.  Linux delivers it when the *thread* that forked the
	// child exits, not the process - and the Go runtime does retire threads.  (Found the hard way: long thorough runs lost servers to
	// "signal: killed" and reported it as a request having terminated the server.)  The child is therefore started from a goroutine
	// that is locked to its OS thread and stays parked in Wait on that very thread until the child has been reaped.
	cmd.SysProcAttr = &syscall.SysProcAttr{Pdeathsig: syscall.SIGKILL}
	p := &Proc{Role: o.Role, Cmd: cmd, Dir: dir, API: fmt.Sprintf("127.0.0.1:%d", api), LogPath: logPath, exited: make(chan struct{})}
	if scheme == "unix" || scheme == "unixs" {
		p.API = "unix://" + filepath.Join(dir, "api.sock") // a complete gRPC target
	}
	if o.Role == "leader" {
		p.Repl = fmt.Sprintf("127.0.0.1:%d", repl)
		if o.ReplScheme == "unix" || o.ReplScheme == "unixs" {
			p.Repl = "unix://" + filepath.Join(dir, "repl.sock")
		}
	}
	started := make(chan error, 1)
	go func() {
		runtime.LockOSThread() // never unlocked: the thread ends with this goroutine, after the child is gone
		if err := cmd.Start(); err != nil {
			started <- err
			return
		}
		started <- nil
		p.exitErr = cmd.Wait()
		_ = lf.Close()
		close(p.exited)
	}()
	if err := <-started; err != nil {
		_ = lf.Close()
		return nil, err
	}
	if scheme == "http" {
		conn, err := grpc.NewClient("passthrough:///"+p.API, grpc.WithTransportCredentials(insecure.NewCredentials()),
			grpc.WithDefaultCallOptions(grpc.MaxCallRecvMsgSize(64*1024*1024), grpc.MaxCallSendMsgSize(64*1024*1024)))
		if err != nil {
			p.Kill()
			return nil, err
		}
		p.Conn = conn
		// ready = the cluster service answers and the metadata store has a leader (table listing works)
		deadline := time.Now().Add(20 * time.Second)
		for {
			if !p.Alive() {
				return nil, fmt.Errorf("%s process exited during start: %v\n%s", o.Role, p.exitErr, p.LogTail(2000))
			}
			ctx, cancel := context.WithTimeout(context.Background(), time.Second)
			_, err := regattapb.NewClusterClient(conn).Status(ctx, &regattapb.StatusRequest{})
			cancel()
			if err == nil {
				break
			}
			if time.Now().After(deadline) {
				p.Kill()
				return nil, fmt.Errorf("%s process not ready: %v\n%s", o.Role, err, p.LogTail(2000))
			}
			time.Sleep(20 * time.Millisecond)
		}
	}
	return p, nil
}

// Alive reports whether the process is still running (Wait has not returned).
func (p *Proc) Alive() bool {
	select {
	case <-p.exited:
		return false
	default:
		return true
	}
}

func (p *Proc) ExitErr() error { return p.exitErr }

// KilledFromOutside reports that the process ended by SIGKILL: a process cannot do that to itself in response to a request (a panic,
// a fatal log call or os.Exit end it with an exit status; a runtime crash with SIGABRT/SIGSEGV), so somebody else killed it - the
// kernel's OOM killer, an operator, a parent-death signal.  Checks treat that as "could not judge", never as a violation.
func (p *Proc) KilledFromOutside() bool {
	if p.Alive() {
		return false
	}
	var ee *exec.ExitError
	if errors.As(p.exitErr, &ee) {
		if ws, ok := ee.Sys().(syscall.WaitStatus); ok && ws.Signaled() && ws.Signal() == syscall.SIGKILL {
			return true
		}
	}
	return false
}

func (p *Proc) LogTail(n int) string {
	b, err := os.ReadFile(p.LogPath)
	if err != nil {
		return ""
	}
	if len(b) > n {
		b = b[len(b)-n:]
	}
	return string(b)
}

// Kill terminates the process and removes its data.
func (p *Proc) Kill() {
	if p.Conn != nil {
		_ = p.Conn.Close()
	}
	if p.Alive() {
		_ = p.Cmd.Process.Kill()
		<-p.exited
	}
	_ = os.RemoveAll(p.Dir)
}

// WaitTable waits until a table answers reads through the process' API.
func (p *Proc) WaitTable(name string, d time.Duration) error {
	kv := regattapb.NewKVClient(p.Conn)
	deadline := time.Now().Add(d)
	var err error
	for time.Now().Before(deadline) {
		ctx, cancel := context.WithTimeout(context.Background(), time.Second)
		_, err = kv.Range(ctx, &regattapb.RangeRequest{Table: []byte(name), Key: []byte{0}, RangeEnd: []byte{0}, CountOnly: true, Linearizable: true})
		cancel()
		if err == nil {
			return nil
		}
		if !p.Alive() {
			return fmt.Errorf("process exited: %s", p.LogTail(1500))
		}
		time.Sleep(20 * time.Millisecond)
	}
	return fmt.Errorf("table %q not ready on %s: %w", name, p.Role, err)
}
