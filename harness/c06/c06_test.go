// C06 — the replication log stream is exact: consecutive applied entries, no gap or repeat.
package c06

import (
	"bytes"
	"context"
	"errors"
	"fmt"
	"io"
	"reflect"
	"testing"

	"github.com/jamf/regatta/regattapb"
	"github.com/jamf/regatta/regattaserver"
	serrors "github.com/jamf/regatta/storage/errors"
	"github.com/jamf/regatta/storage/logreader"
	"github.com/jamf/regatta/storage/table"
	"github.com/jamf/regatta/storage/table/fsm"
	"github.com/lni/dragonboat/v4"
	"github.com/lni/dragonboat/v4/client"
	"github.com/lni/dragonboat/v4/raftpb"
	sm "github.com/lni/dragonboat/v4/statemachine"
	"go.uber.org/zap"
	"google.golang.org/grpc/codes"
	"google.golang.org/grpc/metadata"
	"google.golang.org/grpc/status"
	"pgregory.net/rapid"

	"verifharness/internal/vt"
)

const prop = "C06"

// deliverLogCompacted hands the compaction event to the cache the way storage/engine_events.go does.  It goes through reflection so that
// the check still builds when the notification carries more of dragonboat's event (raftio.EntryInfo: shard, replica, index of the last
// removed entry) than the shard id it carries today.
func deliverLogCompacted(sc any, shard, lastRemoved uint64) {
	m := reflect.ValueOf(sc).MethodByName("LogCompacted")
	if !m.IsValid() {
		panic("harness: the log cache has no LogCompacted method any more")
	}
	args := []reflect.Value{reflect.ValueOf(shard)}
	for i := 1; i < m.Type().NumIn(); i++ {
		if m.Type().In(i).Kind() != reflect.Uint64 {
			panic("harness: unexpected LogCompacted parameter " + m.Type().In(i).String())
		}
		args = append(args, reflect.ValueOf(lastRemoved))
	}
	m.Call(args)
}

const shardID = 10001

// ---- the model log and a fake dragonboat log reader serving it -------------------------------

type EntrySpec struct {
	Type int `json:"type"` // 0 application (empty cmd), 1 encoded regatta command, 2 config change, 3 metadata
	Size int `json:"size"` // value size of the PUT carried by an encoded entry / payload size otherwise
}

type Op struct {
	Kind    string      `json:"kind"` // append | applied | compact | query | replicate
	Entries []EntrySpec `json:"entries,omitempty"`
	N       uint64      `json:"n,omitempty"`     // applied: advance by n; compact: move the first index forward by n
	Start   uint64      `json:"start,omitempty"` // query/replicate: requested index
	MaxSize uint64      `json:"max_size,omitempty"`
	// replicate: the leader table moves on WHILE the stream is being produced - right after message number MidAt (1-based) has been
	// sent, Entries are appended to the log and the applied index advances by N (the call still answers for the applied index it
	// read when it started; the terminating empty batch may carry a newer one)
	MidAt int `json:"mid_at,omitempty"`
	// ... and then, optionally, the leader's log is compacted up to the last entry this stream has already shipped (the engine drops the
	// shard's log cache on that event), and ANOTHER follower's stream - one that is further ahead - reads the newest entries through
	// the same cached reader (MidOther: how many entries below the new applied index it starts; MidOtherMax: its size limit)
	MidCompact  bool   `json:"mid_compact,omitempty"`
	MidOther    int    `json:"mid_other,omitempty"`
	MidOtherMax uint64 `json:"mid_other_max,omitempty"`
	// replicate: the node that serves the call is one of several replicas of the leader table - its OWN copy has applied NodeLag entries
	// fewer than the table when the call starts (a consensus read brings it up to date, a local read does not); Busy: the consensus read
	// the call starts with is refused with the raft library's transient "system busy" error (read-index queue full)
	NodeLag uint64 `json:"node_lag,omitempty"`
	Busy    bool   `json:"busy,omitempty"`
}

type Case struct {
	CacheSize int  `json:"cache_size"`
	Ops       []Op `json:"ops"`
}

type mlog struct {
	marker  uint64 // entries <= marker are compacted
	entries []raftpb.Entry
	applied uint64
	ever    map[uint64]raftpb.Entry // every entry the log ever held (oracle use: an entry shipped before it was compacted)
	// the serving node: how far its own copy is behind `applied`, and whether its next consensus read is refused
	nodeLag uint64
	busy    bool
}

func (l *mlog) first() uint64 { return l.marker + 1 }
func (l *mlog) last() uint64  { return l.marker + uint64(len(l.entries)) }
func (l *mlog) at(i uint64) raftpb.Entry {
	if i > l.marker && i <= l.last() {
		return l.entries[i-l.marker-1]
	}
	return l.ever[i]
}

func (l *mlog) add(s EntrySpec) {
	e := mkEntry(l.last()+1, s)
	l.entries = append(l.entries, e)
	if l.ever == nil {
		l.ever = map[uint64]raftpb.Entry{}
	}
	l.ever[e.Index] = e
}

func mkEntry(index uint64, s EntrySpec) raftpb.Entry {
	e := raftpb.Entry{Index: index, Term: 1 + index/7}
	switch s.Type {
	case 0:
		e.Type = raftpb.ApplicationEntry
	case 1:
		e.Type = raftpb.EncodedEntry
		cmd := &regattapb.Command{Table: []byte("t"), Type: regattapb.Command_PUT, Kv: &regattapb.KeyValue{Key: []byte(fmt.Sprintf("key-%d", index)), Value: bytes.Repeat([]byte{byte('a' + index%26)}, s.Size)}}
		b, _ := cmd.MarshalVT()
		e.Cmd = append([]byte{0}, b...) // 1 header byte (encoding version 0, no compression), as dragonboat stores proposals
	case 2:
		e.Type = raftpb.ConfigChangeEntry
		e.Cmd = bytes.Repeat([]byte{0xCC}, s.Size)
	default:
		e.Type = raftpb.MetadataEntry
		e.Cmd = bytes.Repeat([]byte{0xDD}, s.Size)
	}
	return e
}

// fakeReader implements dragonboat.ReadonlyLogReader with the documented contract of the real one.
type fakeReader struct {
	l     *mlog
	calls *[][2]uint64
}

func (f fakeReader) GetRange() (uint64, uint64) { return f.l.first(), f.l.last() }
func (f fakeReader) NodeState() (raftpb.State, raftpb.Membership) {
	return raftpb.State{}, raftpb.Membership{}
}
func (f fakeReader) Snapshot() raftpb.Snapshot         { return raftpb.Snapshot{Index: f.l.marker} }
func (f fakeReader) Term(index uint64) (uint64, error) { return 1 + index/7, nil }
func (f fakeReader) Entries(low, high, maxSize uint64) ([]raftpb.Entry, error) {
	if f.calls != nil {
		*f.calls = append(*f.calls, [2]uint64{low, high})
	}
	if low > high {
		return nil, fmt.Errorf("high (%d) < low (%d)", high, low)
	}
	if low <= f.l.marker {
		return nil, errors.New("log compacted")
	}
	if high > f.l.last()+1 {
		return nil, errors.New("log unavailable")
	}
	var ents []raftpb.Entry
	size := uint64(0)
	for i := low; i < high; i++ {
		e := f.l.at(i)
		e.Cmd = append([]byte(nil), e.Cmd...)
		ents = append(ents, e)
		size += uint64(e.SizeUpperLimit())
		if size > maxSize {
			break
		}
	}
	if size > maxSize && len(ents) > 1 {
		if maxSize > 0 {
			return ents[:len(ents)-1], nil
		}
		return ents[:1], nil
	}
	return ents, nil
}

type fakeQuerier struct {
	l     *mlog
	calls *[][2]uint64 // (low, high) of every Entries call, for coverage classification only
}

func (q fakeQuerier) GetLogReader(uint64) (dragonboat.ReadonlyLogReader, error) {
	return fakeReader{q.l, q.calls}, nil
}

// fakeRaft answers the index lookups LogServer.Replicate performs.
type fakeRaft struct{ l *mlog }

func (r fakeRaft) SyncRead(_ context.Context, _ uint64, req interface{}) (interface{}, error) {
	if r.l.busy {
		r.l.busy = false
		return nil, dragonboat.ErrSystemBusy
	}
	r.l.nodeLag = 0 // a consensus read waits until the node has applied everything committed before it
	return r.StaleRead(0, req)
}
func (r fakeRaft) StaleRead(_ uint64, req interface{}) (interface{}, error) {
	if _, ok := req.(fsm.LocalIndexRequest); ok {
		return &fsm.IndexResponse{Index: r.l.applied - min(r.l.nodeLag, r.l.applied)}, nil
	}
	return nil, errors.New("unexpected request")
}
func (r fakeRaft) SyncPropose(context.Context, *client.Session, []byte) (sm.Result, error) {
	return sm.Result{}, errors.New("unexpected proposal")
}
func (r fakeRaft) GetNoOPSession(id uint64) *client.Session { return nil }

type fakeTables struct{ l *mlog }

func (f fakeTables) GetTables() ([]table.Table, error) { return nil, nil }
func (f fakeTables) GetTable(name string) (table.ActiveTable, error) {
	if name != "t" {
		return table.ActiveTable{}, serrors.ErrTableNotFound
	}
	return table.Table{Name: "t", ClusterID: shardID}.AsActive(fakeRaft{f.l}), nil
}
func (f fakeTables) Restore(string, io.Reader) error         { return errors.New("n/a") }
func (f fakeTables) CreateTable(string) (table.Table, error) { return table.Table{}, errors.New("n/a") }
func (f fakeTables) DeleteTable(string) error                { return errors.New("n/a") }

type fakeStream struct {
	ctx    context.Context
	msgs   []*regattapb.ReplicateResponse
	onSent func(n int) // called after the n-th message was taken over
}

func (s *fakeStream) Send(m *regattapb.ReplicateResponse) error {
	b, _ := m.MarshalVT()
	cp := &regattapb.ReplicateResponse{}
	_ = cp.UnmarshalVT(b)
	s.msgs = append(s.msgs, cp)
	if s.onSent != nil {
		s.onSent(len(s.msgs))
	}
	return nil
}
func (s *fakeStream) SetHeader(metadata.MD) error  { return nil }
func (s *fakeStream) SendHeader(metadata.MD) error { return nil }
func (s *fakeStream) SetTrailer(metadata.MD)       {}
func (s *fakeStream) Context() context.Context     { return s.ctx }
func (s *fakeStream) SendMsg(any) error            { return nil }
func (s *fakeStream) RecvMsg(any) error            { return io.EOF }

// ---- generation --------------------------------------------------------------------------------

var maxSizes = []uint64{1, 64, 300, 1000, 4096, 64 * 1024, 4 * 1024 * 1024}

func genCase(t *rapid.T) Case {
	c := Case{CacheSize: rapid.SampledFrom([]int{1, 2, 3, 5, 8, 16, 64}).Draw(t, "cache")}
	var marker, n, applied uint64 // generator-side shadow of the log bounds, to aim the start indices
	steps := rapid.IntRange(1, 30).Draw(t, "steps")
	for i := 0; i < steps; i++ {
		last := marker + n
		k := rapid.IntRange(0, 11).Draw(t, "kind")
		switch {
		case k <= 2 || last == 0:
			cnt := rapid.IntRange(1, 8).Draw(t, "append.n")
			op := Op{Kind: "append"}
			for j := 0; j < cnt; j++ {
				s := EntrySpec{Type: rapid.SampledFrom([]int{1, 1, 1, 1, 0, 2, 3}).Draw(t, "etype")}
				if s.Type != 0 {
					s.Size = rapid.SampledFrom([]int{0, 1, 10, 40, 200, 900, 5000}).Draw(t, "esize")
				}
				op.Entries = append(op.Entries, s)
			}
			n += uint64(cnt)
			c.Ops = append(c.Ops, op)
		case k <= 4:
			adv := uint64(rapid.IntRange(1, 6).Draw(t, "applied.n"))
			applied = min(last, applied+adv)
			c.Ops = append(c.Ops, Op{Kind: "applied", N: adv})
		case k == 5:
			adv := uint64(rapid.IntRange(1, 5).Draw(t, "compact.n"))
			nm := min(applied, marker+adv)
			n -= nm - marker
			marker = nm
			c.Ops = append(c.Ops, Op{Kind: "compact", N: adv})
		default:
			kind := "query"
			if k >= 10 {
				kind = "replicate"
			}
			var start uint64
			switch rapid.IntRange(0, 7).Draw(t, "startclass") {
			case 0:
				start = applied + 1
			case 1:
				start = marker + 1
			case 2:
				start = marker // just compacted (or 0)
			case 3:
				start = applied
			case 4:
				if kind == "replicate" {
					start = applied + 1 + uint64(rapid.IntRange(1, 3).Draw(t, "beyond"))
				} else {
					start = applied + 1
				}
			default:
				lo, hi := int(marker)-1, int(applied)+1
				if lo < 0 {
					lo = 0
				}
				start = uint64(rapid.IntRange(lo, hi).Draw(t, "start"))
			}
			if kind == "query" && start == 0 {
				start = 1
			}
			if kind == "query" && start > applied+1 {
				start = applied + 1
			}
			op := Op{Kind: kind, Start: start, MaxSize: rapid.SampledFrom(maxSizes).Draw(t, "maxsize")}
			if kind == "replicate" && start >= marker+1 && start <= applied && rapid.IntRange(0, 2).Draw(t, "mid") == 0 {
				// writes are applied on the leader while this call streams
				op.MidAt = rapid.IntRange(1, 3).Draw(t, "mid.at")
				op.MaxSize = rapid.SampledFrom([]uint64{1, 64, 300, 1000}).Draw(t, "mid.maxsize") // several messages
				cnt := rapid.IntRange(1, 4).Draw(t, "mid.n")
				for j := 0; j < cnt; j++ {
					es := EntrySpec{Type: rapid.SampledFrom([]int{1, 1, 1, 0, 2}).Draw(t, "mid.etype")}
					if es.Type != 0 {
						es.Size = rapid.SampledFrom([]int{0, 10, 200}).Draw(t, "mid.esize")
					}
					op.Entries = append(op.Entries, es)
				}
				op.N = uint64(rapid.IntRange(1, 8).Draw(t, "mid.applied"))
				n += uint64(cnt)
				applied = min(marker+n, applied+op.N)
				op.MidCompact = rapid.Bool().Draw(t, "mid.compact")
				if rapid.Bool().Draw(t, "mid.other") {
					op.MidOther = rapid.IntRange(1, cnt+1).Draw(t, "mid.otheroff")
					op.MidOtherMax = rapid.SampledFrom(maxSizes).Draw(t, "mid.othermax")
				}
			}
			if kind == "replicate" {
				switch rapid.IntRange(0, 7).Draw(t, "node") {
				case 0:
					op.NodeLag = uint64(rapid.IntRange(1, 4).Draw(t, "node.lag"))
				case 1:
					op.NodeLag, op.Busy = uint64(rapid.IntRange(1, 4).Draw(t, "node.lag")), true
				case 2:
					op.Busy = true
				}
			}
			c.Ops = append(c.Ops, op)
		}
	}
	return c
}

// ---- oracle ------------------------------------------------------------------------------------

func sameEntry(a, b raftpb.Entry) bool {
	return a.Index == b.Index && a.Term == b.Term && a.Type == b.Type && bytes.Equal(a.Cmd, b.Cmd)
}

// checkQuery validates one reader answer against the model log.
func checkQuery(l *mlog, who string, start uint64, ents []raftpb.Entry, err error) (string, error) {
	end := l.applied + 1
	switch {
	case start == end:
		if err != nil || len(ents) != 0 {
			return "query-at-applied+1", fmt.Errorf("%s: start == applied+1 (%d): got %d entries, err %v; want empty", who, start, len(ents), err)
		}
		return "", nil
	case start < l.first():
		if !errors.Is(err, serrors.ErrLogAhead) {
			return "compacted-not-reported", fmt.Errorf("%s: start %d is compacted (first %d): got %d entries, err %v; want ErrLogAhead", who, start, l.first(), len(ents), err)
		}
		return "", nil
	}
	if err != nil {
		return "query-error", fmt.Errorf("%s: start %d in [%d,%d]: unexpected error %v", who, start, l.first(), l.applied, err)
	}
	if len(ents) == 0 {
		return "empty-answer", fmt.Errorf("%s: non-empty range [%d,%d] answered with zero entries", who, start, l.applied)
	}
	for i, e := range ents {
		idx := start + uint64(i)
		if idx > l.applied {
			return "beyond-applied", fmt.Errorf("%s: entry %d returned, applied index is %d", who, e.Index, l.applied)
		}
		if !sameEntry(e, l.at(idx)) {
			return "wrong-entry", fmt.Errorf("%s: position %d: got entry index %d type %v (%d bytes), log has index %d type %v (%d bytes)", who, i, e.Index, e.Type, len(e.Cmd), idx, l.at(idx).Type, len(l.at(idx).Cmd))
		}
	}
	return "", nil
}

func run(c Case, o *vt.Obs) *vt.Failure {
	l := &mlog{}
	ctx := context.Background()
	nt := false
	simple := &logreader.Simple{LogQuerier: fakeQuerier{l: l}}
	sc := logreader.NewShardCache(c.CacheSize)
	var calls [][2]uint64
	cached := &logreader.Cached{LogQuerier: fakeQuerier{l: l, calls: &calls}, ShardCache: sc}
	classify := func(start uint64, n int) {
		if n == 0 {
			return
		}
		switch {
		case len(calls) == 0:
			o.Label("served-entirely-from-cache")
		case calls[0][0] > start:
			nt = true
			o.Label("cache-then-log(append-path)")
		case calls[0][1] < l.applied+1:
			nt = true
			o.Label("log-then-cache(prepend-path)")
		}
	}
	for i, op := range c.Ops {
		switch op.Kind {
		case "append":
			for _, s := range op.Entries {
				l.add(s)
			}
		case "applied":
			l.applied = min(l.last(), l.applied+op.N)
		case "compact":
			nm := min(l.applied, l.marker+op.N)
			l.entries = l.entries[nm-l.marker:]
			l.marker = nm
			// the engine forwards dragonboat's LogCompacted event (shard, index of the last removed entry) to the cache
			deliverLogCompacted(sc, shardID, l.marker)
		case "query":
			rng := dragonboat.LogRange{FirstIndex: op.Start, LastIndex: l.applied + 1}
			se, serr := simple.QueryRaftLog(ctx, shardID, rng, op.MaxSize)
			if sig, err := checkQuery(l, "Simple", op.Start, se, serr); err != nil {
				return vt.Failf(prop+"/simple-"+sig, i, "%v", err)
			}
			calls = calls[:0]
			ce, cerr := cached.QueryRaftLog(ctx, shardID, rng, op.MaxSize)
			if sig, err := checkQuery(l, "Cached", op.Start, ce, cerr); err != nil {
				return vt.Failf(prop+"/cached-"+sig, i, "%v (cache size %d, maxSize %d)", err, c.CacheSize, op.MaxSize)
			}
			classify(op.Start, len(ce))
			if len(se) > 0 && uint64(se[0].SizeUpperLimit()) > op.MaxSize {
				nt = true
				o.Label("first-entry-larger-than-maxSize")
			}
			if len(ce) > 0 && len(se) > 0 && len(ce) != len(se) {
				o.Label("cached-and-simple-cut-differently")
			}
		case "replicate":
			ls := regattaserver.NewLogServer(fakeTables{l}, cached, zap.NewNop(), op.MaxSize)
			var midFail *vt.Failure
			midExtra = func(lastStreamed uint64) {
				if op.MidCompact {
					if nm := min(lastStreamed, l.applied); nm > l.marker {
						l.entries = l.entries[nm-l.marker:]
						l.marker = nm
						deliverLogCompacted(sc, shardID, l.marker)
						o.Label("log-compacted-while-a-call-streams")
					}
				}
				if op.MidOther > 0 {
					start := l.applied + 1
					if uint64(op.MidOther) < start {
						start -= uint64(op.MidOther)
					}
					if start < l.first() {
						start = l.first()
					}
					if start <= l.applied {
						ce, cerr := cached.QueryRaftLog(ctx, shardID, dragonboat.LogRange{FirstIndex: start, LastIndex: l.applied + 1}, op.MidOtherMax)
						if sig, err := checkQuery(l, "Cached", start, ce, cerr); err != nil && midFail == nil {
							midFail = vt.Failf(prop+"/cached-"+sig, i, "another follower's read while a call streams: %v", err)
						}
						o.Label("another-stream-reads-the-newest-entries-while-a-call-streams")
					}
				}
			}
			f := checkReplicate(l, ls, "Cached", i, op)
			midExtra = nil
			if midFail != nil {
				return midFail
			}
			if f != nil {
				return f
			}
			if op.MidAt > 0 {
				o.Label("replicate-while-the-leader-applies-writes")
			}
			op.MidAt = 0 // the change has happened; the second server answers for the new state
			ls2 := regattaserver.NewLogServer(fakeTables{l}, simple, zap.NewNop(), op.MaxSize)
			if f := checkReplicate(l, ls2, "Simple", i, op); f != nil {
				return f
			}
			o.Label("replicate")
			if op.NodeLag > 0 {
				o.Label("replicate-served-by-a-node-whose-own-copy-lags")
			}
			if op.Busy {
				o.Label("replicate-whose-consensus-read-is-refused")
			}
		}
	}
	// cache interplay coverage: a second pass of queries over every start index with a warm cache
	for start := l.first(); start <= l.applied+1 && start < l.first()+40; start++ {
		rng := dragonboat.LogRange{FirstIndex: start, LastIndex: l.applied + 1}
		for _, ms := range []uint64{1, 300, 4096} {
			calls = calls[:0]
			ce, cerr := cached.QueryRaftLog(ctx, shardID, rng, ms)
			if sig, err := checkQuery(l, "Cached", start, ce, cerr); err != nil {
				return vt.Failf(prop+"/cached-"+sig, len(c.Ops), "sweep: %v (cache size %d, maxSize %d)", err, c.CacheSize, ms)
			}
			classify(start, len(ce))
		}
	}
	if l.applied >= l.first()+2 {
		o.Label("warm-cache-sweep>=3-indices")
	}
	o.NonTrivial = nt
	o.Describe = func() string { return fmt.Sprintf("cache=%d ops=%+v", c.CacheSize, c.Ops) }
	return nil
}

// midExtra: what else happens on the leader right after the mid-stream writes of a replicate call (set by run for the cached server)
var midExtra func(lastStreamed uint64)

func checkReplicate(l *mlog, ls *regattaserver.LogServer, who string, stepNo int, op Op) *vt.Failure {
	st := &fakeStream{ctx: context.Background()}
	atCall := l.applied // "the leader's applied index at the time of the call"
	first0 := l.first()
	moved := op.MidAt == 0
	move := func() {
		if moved {
			return
		}
		moved = true
		for _, s := range op.Entries {
			l.add(s)
		}
		l.applied = min(l.last(), l.applied+op.N)
	}
	st.onSent = func(n int) {
		if n == op.MidAt && !moved {
			move()
			if midExtra != nil {
				var lastStreamed uint64
				for _, m := range st.msgs {
					if cr := m.GetCommandsResponse(); cr != nil && len(cr.Commands) > 0 {
						lastStreamed = cr.Commands[len(cr.Commands)-1].LeaderIndex
					}
				}
				midExtra(lastStreamed)
			}
		}
	}
	l.nodeLag, l.busy = op.NodeLag, op.Busy
	err := ls.Replicate(&regattapb.ReplicateRequest{Table: []byte("t"), LeaderIndex: op.Start}, st)
	l.nodeLag, l.busy = 0, false
	move() // a stream shorter than MidAt messages: the writes land right after the call
	if op.Busy && err != nil && op.Start != 0 && len(st.msgs) == 0 {
		// the node could not learn the table's applied index: no answer at all is fine (the follower asks again); an ANSWER must be the
		// right one, whatever the node's own copy says
		return nil
	}
	if op.Start == 0 {
		if status.Code(err) != codes.InvalidArgument {
			return vt.Failf(prop+"/replicate-zero-index", stepNo, "%s: leader index 0: err %v", who, err)
		}
		return nil
	}
	if err != nil {
		return vt.Failf(prop+"/replicate-error", stepNo, "%s: Replicate(%d): %v", who, op.Start, err)
	}
	isErr := func(m *regattapb.ReplicateResponse, e regattapb.ReplicateError) bool {
		er := m.GetErrorResponse()
		return er != nil && er.Error == e
	}
	switch {
	case op.Start > atCall+1:
		if len(st.msgs) != 1 || !isErr(st.msgs[0], regattapb.ReplicateError_LEADER_BEHIND) {
			return vt.Failf(prop+"/replicate-leader-behind", stepNo, "%s: request %d beyond applied+1 (%d): %d messages %v; want LEADER_BEHIND", who, op.Start, atCall+1, len(st.msgs), st.msgs)
		}
		return nil
	case op.Start < first0:
		if len(st.msgs) != 1 || !isErr(st.msgs[0], regattapb.ReplicateError_USE_SNAPSHOT) {
			return vt.Failf(prop+"/replicate-use-snapshot", stepNo, "%s: request %d is compacted (first %d): %d messages %v; want USE_SNAPSHOT", who, op.Start, l.first(), len(st.msgs), st.msgs)
		}
		return nil
	}
	next := op.Start
	for mi, m := range st.msgs {
		if m.GetErrorResponse() != nil {
			return vt.Failf(prop+"/replicate-unexpected-error", stepNo, "%s: request %d in [%d,%d+1]: error message %v", who, op.Start, l.first(), l.applied, m)
		}
		cr := m.GetCommandsResponse()
		if cr == nil {
			// the terminating empty batch carries the applied index
			if mi != len(st.msgs)-1 {
				return vt.Failf(prop+"/replicate-empty-batch-midstream", stepNo, "%s: empty batch at message %d of %d", who, mi, len(st.msgs))
			}
			if m.LeaderIndex < atCall || m.LeaderIndex > l.applied {
				return vt.Failf(prop+"/replicate-empty-batch-index", stepNo, "%s: empty batch carries leader index %d, applied was %d at the call and is %d now", who, m.LeaderIndex, atCall, l.applied)
			}
			continue
		}
		if len(cr.Commands) == 0 {
			return vt.Failf(prop+"/replicate-empty-commands", stepNo, "%s: message %d holds a commands response without commands", who, mi)
		}
		for _, rc := range cr.Commands {
			if rc.LeaderIndex != next {
				return vt.Failf(prop+"/replicate-gap-or-repeat", stepNo, "%s: streamed command labelled %d, expected %d (request %d)", who, rc.LeaderIndex, next, op.Start)
			}
			if next > atCall {
				return vt.Failf(prop+"/replicate-beyond-applied", stepNo, "%s: streamed index %d beyond the applied index at the time of the call (%d; the table has moved on to %d meanwhile)", who, next, atCall, l.applied)
			}
			if rc.Command.LeaderIndex == nil || *rc.Command.LeaderIndex != next {
				return vt.Failf(prop+"/replicate-label", stepNo, "%s: command at %d carries leader_index %v", who, next, rc.Command.LeaderIndex)
			}
			e := l.at(next)
			if e.Type != raftpb.EncodedEntry {
				if rc.Command.Type != regattapb.Command_DUMMY {
					return vt.Failf(prop+"/replicate-non-application", stepNo, "%s: entry %d of type %v shipped as %v, want DUMMY", who, next, e.Type, rc.Command.Type)
				}
			} else {
				want := &regattapb.Command{}
				_ = want.UnmarshalVT(e.Cmd[1:])
				want.LeaderIndex = rc.Command.LeaderIndex
				wb, _ := want.MarshalVT()
				gb, _ := rc.Command.MarshalVT()
				if !bytes.Equal(wb, gb) {
					return vt.Failf(prop+"/replicate-content", stepNo, "%s: entry %d shipped as a different command", who, next)
				}
			}
			next++
		}
	}
	if next != atCall+1 {
		return vt.Failf(prop+"/replicate-incomplete", stepNo, "%s: request %d: stream ended at %d, applied was %d at the time of the call", who, op.Start, next-1, atCall)
	}
	if op.Start == atCall+1 {
		if len(st.msgs) != 1 || st.msgs[0].GetCommandsResponse() != nil || st.msgs[0].LeaderIndex != atCall {
			return vt.Failf(prop+"/replicate-at-applied+1", stepNo, "%s: request at applied+1: messages %v; want one empty batch carrying %d", who, st.msgs, atCall)
		}
	} else if len(st.msgs) == 0 || st.msgs[len(st.msgs)-1].GetCommandsResponse() != nil {
		return vt.Failf(prop+"/replicate-no-terminator", stepNo, "%s: stream does not end with the empty batch carrying the applied index", who)
	}
	return nil
}

func TestC06(t *testing.T)        { vt.Check(t, prop, genCase, run) }
func TestC06Replay(t *testing.T)  { vt.Replay(t, prop, run) }
func TestC06Regress(t *testing.T) { vt.Regress(t, prop, "testdata", run) }
