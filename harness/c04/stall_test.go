package c04

// TestC04Stall: "i is at least the index covered by the last completed sync" on a disk that has STOPPED ANSWERING for a while.  A
// generated history is applied; then the creation of table files blocks (a stalled device: the table's only durable form are the table
// files written by a flush - the write-ahead log is off) and Sync is called.  Either Sync waits for the disk (then the stall ends after
// a few seconds, Sync completes and the power is cut right after it), or Sync RETURNS while the disk is still stalled - then the power is
// cut at that very moment.  Oracle as in TestC04: the table reopens, at an index no lower than what the completed Sync covered, holding
// exactly that log prefix; re-applying the rest yields the model's final state.

import (
	"fmt"
	"testing"
	"time"

	"github.com/jamf/regatta/storage/table/fsm"
	"pgregory.net/rapid"

	"verifharness/internal/crashfs"
	"verifharness/internal/fsmx"
	"verifharness/internal/vt"
)

type StallCase struct {
	RecoveryType int      `json:"recovery_type"`
	Synced       [][]byte `json:"synced"`  // entries applied and synced on a healthy disk first
	Pending      [][]byte `json:"pending"` // entries applied afterwards: covered only by the Sync that meets the stalled disk
	StallSeconds int      `json:"stall_seconds"`
}

func genStall(t *rapid.T) StallCase {
	base := genCase(t)
	c := StallCase{RecoveryType: base.RecoveryType, StallSeconds: rapid.SampledFrom([]int{7, 9}).Draw(t, "stall")}
	var all [][]byte
	for _, s := range base.expanded().Steps {
		if s.Op == "apply" {
			all = append(all, s.Cmds...)
		}
	}
	if len(all) < 2 {
		all = append(all, all...)
	}
	cut := 0
	if len(all) > 1 {
		cut = rapid.IntRange(0, len(all)-1).Draw(t, "cut")
	}
	c.Synced, c.Pending = all[:cut], all[cut:]
	return c
}

func runStall(c StallCase, o *vt.Obs) *vt.Failure {
	if len(c.Synced)+len(c.Pending) == 0 {
		return nil
	}
	hist := Case{RecoveryType: c.RecoveryType, Steps: []Step{{Op: "apply", Cmds: append(append([][]byte(nil), c.Synced...), c.Pending...)}}}
	w := buildWorld(hist)
	fs := crashfs.New(fsmx.DataDir)
	r := fsmx.Create(fs, fsm.SnapshotRecoveryType(c.RecoveryType), 1)
	if _, err := r.Open(); err != nil {
		return vt.Failf(prop+"/open-error", 0, "%v", err)
	}
	next := uint64(1)
	apply := func(cmds [][]byte) error {
		for _, b := range cmds {
			if _, err := r.Apply(fsmx.MkEntries(next, [][]byte{b})); err != nil {
				return err
			}
			next++
		}
		return nil
	}
	if err := apply(c.Synced); err != nil {
		return vt.Failf(prop+"/apply-error", 0, "%v", err)
	}
	if len(c.Synced) > 0 {
		if err := r.SM.Sync(); err != nil {
			return vt.Failf(prop+"/sync-error", 0, "%v", err)
		}
	}
	if err := apply(c.Pending); err != nil {
		return vt.Failf(prop+"/apply-error", 1, "%v", err)
	}
	covered := next - 1
	release := fs.Stall()
	defer release()
	done := make(chan error, 1)
	go func() { done <- r.SM.Sync() }()
	early := false
	select {
	case err := <-done:
		if err != nil {
			release()
			_ = r.Close()
			// a Sync that reports an error promised nothing
			o.Label("sync-reported-an-error-on-the-stalled-disk")
			return nil
		}
		early = fs.Stalled.Load() > 0 // returned although a table file creation is still waiting for the disk
	case <-time.After(time.Duration(c.StallSeconds) * time.Second):
	}
	if early {
		// Sync has returned while the disk still does not answer: the power is cut NOW, nothing from here on becomes durable
		fs.Arm(0)
		release()
	} else {
		// the disk answers again, Sync completes - and the power is cut right after it
		release()
		if err := <-done; err != nil {
			_ = r.Close()
			o.Label("sync-reported-an-error-on-the-stalled-disk")
			return nil
		}
		fs.Arm(0)
	}
	_ = r.Close()
	durable := covered
	if !early && fs.Stalled.Load() == 0 {
		o.Label("sync-needed-no-table-file")
	}
	sig := prop + "/stalled-disk"
	r2, idx, f := afterCrash(hist, w, fs, durable, sig, 0)
	if f != nil {
		f.Msg = fmt.Sprintf("Sync met a disk that did not answer for %d s (Sync returned before the disk did: %v); the power was cut when Sync had returned. %s", c.StallSeconds, early, f.Msg)
		return f
	}
	defer r2.Close()
	if err := reapply(r2, w, idx+1, 2); err != nil {
		return vt.Failf(sig+"/reapply-error", 2, "%v", err)
	}
	if f := checkState(r2, w, uint64(len(w.log)), sig+"/after-reapply", 2); f != nil {
		return f
	}
	if early {
		o.Label("sync-returned-while-the-disk-was-stalled")
	} else {
		o.Label("sync-waited-for-the-stalled-disk")
	}
	o.NonTrivial = fs.Stalled.Load() > 0 && len(c.Pending) > 0
	o.Describe = func() string {
		return fmt.Sprintf("%d synced + %d pending entries, disk stalled for %d s, sync returned early: %v", len(c.Synced), len(c.Pending), c.StallSeconds, early)
	}
	return nil
}

func TestC04Stall(t *testing.T)        { vt.Check(t, prop, genStall, runStall) }
func TestC04StallReplay(t *testing.T)  { vt.Replay(t, prop, runStall) }
func TestC04StallRegress(t *testing.T) { vt.Regress(t, prop, "testdata", runStall) }
