// C04 — crash recovery exposes exactly a prefix of the log, atomically and only once.
package c04

import (
	"bytes"
	"fmt"
	"testing"

	"github.com/jamf/regatta/regattapb"
	"github.com/jamf/regatta/storage/table/fsm"
	"pgregory.net/rapid"

	"verifharness/internal/crashfs"
	"verifharness/internal/fsmx"
	"verifharness/internal/gen"
	"verifharness/internal/model"
	"verifharness/internal/tlog"
	"verifharness/internal/vt"
)

const prop = "C04"

// Step of a crash history.
type Step struct {
	Op   string   `json:"op"`             // apply | sync | reopen | install
	Cmds [][]byte `json:"cmds,omitempty"` // apply: one Update call; install: entries the donor applies before it snapshots
	// install: snapshot format of the donor replica
	DonorType int `json:"donor_type,omitempty"`
	// Bulk (apply only): plain puts of large constant-filled values that precede Cmds in the same Update call; kept symbolic so that
	// case / replay files stay small (materialised by expanded())
	Bulk []BulkPut `json:"bulk,omitempty"`
}

type BulkPut struct {
	Key  string `json:"key"`
	Fill byte   `json:"fill"`
	N    int    `json:"n"`
	// Seq > 0: consecutive bulk puts with the same Seq form ONE log entry - a SEQUENCE command carrying a leader index, the shape in
	// which a follower receives replicated leader commands
	Seq int `json:"seq,omitempty"`
}

// expanded materialises the symbolic bulk puts into command bytes.
func (c Case) expanded() Case {
	has := false
	for _, s := range c.Steps {
		has = has || len(s.Bulk) > 0
	}
	if !has {
		return c
	}
	n := c
	n.Steps = make([]Step, len(c.Steps))
	for i, s := range c.Steps {
		if len(s.Bulk) > 0 {
			var cmds [][]byte
			for j := 0; j < len(s.Bulk); j++ {
				b := s.Bulk[j]
				put := &regattapb.Command{Table: []byte("t"), Type: regattapb.Command_PUT, Kv: &regattapb.KeyValue{Key: []byte(b.Key), Value: bytes.Repeat([]byte{b.Fill}, b.N)}}
				if b.Seq == 0 {
					cmds = append(cmds, marshal(put))
					continue
				}
				li := uint64(1000 + b.Seq)
				seq := &regattapb.Command{Table: []byte("t"), Type: regattapb.Command_SEQUENCE, LeaderIndex: &li, Sequence: []*regattapb.Command{put}}
				for j+1 < len(s.Bulk) && s.Bulk[j+1].Seq == b.Seq {
					j++
					nb := s.Bulk[j]
					seq.Sequence = append(seq.Sequence, &regattapb.Command{Table: []byte("t"), Type: regattapb.Command_PUT, Kv: &regattapb.KeyValue{Key: []byte(nb.Key), Value: bytes.Repeat([]byte{nb.Fill}, nb.N)}})
				}
				cmds = append(cmds, marshal(seq))
			}
			s.Cmds = append(cmds, s.Cmds...)
			s.Bulk = nil
		}
		n.Steps[i] = s
	}
	return n
}

type Case struct {
	RecoveryType int    `json:"recovery_type"`
	Steps        []Step `json:"steps"`
	// Points: crash points to execute; empty = enumerate every operation boundary (up to MaxPoints, evenly thinned above)
	Points     []int64 `json:"points,omitempty"`
	MaxPoints  int     `json:"max_points"`
	SecondSalt int64   `json:"second_salt"` // derives the crash point of the second crash (during re-apply) from the first
	Depth      int     `json:"depth"`       // 1 or 2 crashes
}

func genCase(t *rapid.T) Case {
	pool := gen.NewPool(t, 2, 6, 64)
	c := Case{RecoveryType: rapid.IntRange(0, 1).Draw(t, "rtype"), MaxPoints: 400, SecondSalt: int64(rapid.IntRange(1, 1000).Draw(t, "salt")), Depth: rapid.IntRange(1, 2).Draw(t, "depth")}
	n := rapid.IntRange(1, 10).Draw(t, "steps")
	for i := 0; i < n; i++ {
		k := rapid.IntRange(0, 9).Draw(t, "kind")
		switch {
		case k <= 4:
			s := Step{Op: "apply"}
			m := rapid.IntRange(1, 4).Draw(t, "apply.n")
			for j := 0; j < m; j++ {
				var cmd []byte
				if rapid.IntRange(0, 2).Draw(t, "multikey") == 0 {
					cmd = marshal(pool.Command(t, "cmd", gen.CmdOpts{LeaderIndex: true}))
				} else {
					cmd = marshal(multiKey(t, pool))
				}
				s.Cmds = append(s.Cmds, cmd)
			}
			c.Steps = append(c.Steps, s)
		case k <= 6:
			c.Steps = append(c.Steps, Step{Op: "sync"})
		case k == 7:
			c.Steps = append(c.Steps, Step{Op: "reopen"})
		default:
			s := Step{Op: "install", DonorType: rapid.IntRange(0, 1).Draw(t, "donor")}
			m := rapid.IntRange(0, 3).Draw(t, "install.extra")
			for j := 0; j < m; j++ {
				s.Cmds = append(s.Cmds, marshal(multiKey(t, pool)))
			}
			c.Steps = append(c.Steps, s)
		}
	}
	return c
}

func marshal(c interface{ MarshalVT() ([]byte, error) }) []byte {
	b, err := c.MarshalVT()
	if err != nil {
		panic(err)
	}
	return b
}

// multiKey draws a command that changes several keys at once (batch / txn / sequence), so that a
// torn application would be visible.
func multiKey(t *rapid.T, pool *gen.Pool) interface{ MarshalVT() ([]byte, error) } {
	for {
		c := pool.Command(t, "mk", gen.CmdOpts{LeaderIndex: true})
		if len(c.Batch) >= 2 || len(c.Sequence) >= 2 || (c.Txn != nil && len(c.Txn.Success)+len(c.Txn.Failure) >= 2) || c.RangeEnd != nil {
			return c
		}
		if rapid.IntRange(0, 3).Draw(t, "mk.giveup") == 0 {
			return c
		}
	}
}

type prefixState struct {
	pairs  []model.Pair
	leader uint64
}

// world holds the model side: the full log and the state after every prefix.
type world struct {
	log    [][]byte
	states []prefixState // states[i] = after entries 1..i
}

func buildWorld(c Case) *world {
	w := &world{}
	m := model.New()
	w.states = append(w.states, prefixState{})
	for _, s := range c.Steps {
		if s.Op != "apply" && s.Op != "install" {
			continue
		}
		for _, b := range s.Cmds {
			cmd, err := tlog.DecodeCmd(b)
			if err != nil {
				panic(err)
			}
			w.log = append(w.log, b)
			m.Apply(cmd, uint64(len(w.log)))
			w.states = append(w.states, prefixState{pairs: append([]model.Pair(nil), m.Pairs...), leader: m.LeaderIndex})
		}
	}
	return w
}

func toPairs(kvs []*regattapb.KeyValue) []model.Pair {
	out := make([]model.Pair, len(kvs))
	for i, kv := range kvs {
		out[i] = model.Pair{K: kv.Key, V: kv.Value}
	}
	return out
}

func checkState(r *fsmx.Replica, w *world, i uint64, sigPrefix string, step int) *vt.Failure {
	if i > uint64(len(w.log)) {
		return vt.Failf(sigPrefix+"/index-ahead-of-log", step, "reported index %d, log has %d entries", i, len(w.log))
	}
	all, err := r.All()
	if err != nil {
		return vt.Failf(sigPrefix+"/scan-error", step, "scan: %v", err)
	}
	want := w.states[i]
	if len(all) != len(want.pairs) {
		return vt.Failf(sigPrefix+"/content-not-prefix", step, "reported index %d: table holds %d pairs, log prefix 1..%d yields %d%s", i, len(all), i, len(want.pairs), whichPrefix(toPairs(all), w))
	}
	for x, kv := range all {
		if !bytes.Equal(kv.Key, want.pairs[x].K) || !bytes.Equal(kv.Value, want.pairs[x].V) {
			return vt.Failf(sigPrefix+"/content-not-prefix", step, "reported index %d: pair %d is %q=%q, log prefix yields %q=%q%s", i, x, kv.Key, kv.Value, want.pairs[x].K, want.pairs[x].V, whichPrefix(toPairs(all), w))
		}
	}
	li, err := r.LocalIndex()
	if err != nil || li != i {
		return vt.Failf(sigPrefix+"/index-lookup", step, "Open returned %d but the applied index lookup says %d (%v)", i, li, err)
	}
	ldr, err := r.LeaderIndex()
	if err != nil || ldr != want.leader {
		return vt.Failf(sigPrefix+"/leader-index-not-prefix", step, "reported index %d: leader index %d, log prefix yields %d (%v)", i, ldr, want.leader, err)
	}
	return nil
}

// whichPrefix tells (for diagnostics) which log prefix, if any, the visible content corresponds to.
func whichPrefix(got []model.Pair, w *world) string {
	for i, st := range w.states {
		if len(st.pairs) != len(got) {
			continue
		}
		same := true
		for x := range got {
			if !bytes.Equal(got[x].K, st.pairs[x].K) || !bytes.Equal(got[x].V, st.pairs[x].V) {
				same = false
				break
			}
		}
		if same {
			return fmt.Sprintf(" (the content equals log prefix 1..%d)", i)
		}
	}
	return " (the content equals no log prefix at all)"
}

// reapply applies log entries from..to (1-based, inclusive) one Update call per `group` entries and
// compares results with a model replay from the prefix state.
func reapply(r *fsmx.Replica, w *world, from uint64, group int) error {
	for from <= uint64(len(w.log)) {
		to := min(from+uint64(group)-1, uint64(len(w.log)))
		if _, err := r.Apply(fsmx.MkEntries(from, w.log[from-1:to])); err != nil {
			return err
		}
		from = to + 1
	}
	return nil
}

type execResult struct {
	ops        int64
	crashedIn  string // step kind during which the crash point fell ("" = never reached)
	durable    uint64 // index covered by the last Sync / clean Close that returned before the crash point
	firstOpen  bool   // crash point fell inside the very first Open
	unsyncedMK bool
}

// execute runs the history on fs with the crash armed at point (or -1), stopping after the step in
// which the crash point falls.  It returns what the oracle needs.
func execute(c Case, w *world, fs *crashfs.FS, point int64) (execResult, *vt.Failure) {
	var res execResult
	fs.Arm(point)
	r := fsmx.Create(fs, fsm.SnapshotRecoveryType(c.RecoveryType), 1)
	idx, err := r.Open()
	if fs.Crashed() {
		res.crashedIn, res.firstOpen = "first-open", true
		if err == nil {
			_ = r.Close()
		}
		res.ops = fs.Count()
		return res, nil
	}
	if err != nil || idx != 0 {
		return res, vt.Failf(prop+"/open-error", 0, "first Open: index %d err %v", idx, err)
	}
	applied := uint64(0) // entries of the log the main replica has applied / installed
	logPos := uint64(0)  // entries of the log generated so far (donor may be ahead)
	var donor *fsmx.Replica
	defer func() {
		if donor != nil {
			_ = donor.Close()
		}
	}()
	for si, s := range c.Steps {
		switch s.Op {
		case "apply":
			// main may lag behind logPos only after an install that skipped entries - never, install moves main to logPos
			if _, err := r.Apply(fsmx.MkEntries(applied+1, s.Cmds)); err != nil && !fs.Crashed() {
				return res, vt.Failf(prop+"/apply-error", si, "Update: %v", err)
			}
			applied += uint64(len(s.Cmds))
			logPos = applied
		case "sync":
			err := r.SM.Sync()
			if err != nil && !fs.Crashed() {
				return res, vt.Failf(prop+"/sync-error", si, "Sync: %v", err)
			}
			if !fs.Crashed() {
				res.durable = applied
			}
		case "reopen":
			err := r.SM.Close()
			if err != nil && !fs.Crashed() {
				return res, vt.Failf(prop+"/close-error", si, "Close: %v", err)
			}
			if !fs.Crashed() {
				res.durable = applied
			}
			r = fsmx.Create(fs, fsm.SnapshotRecoveryType(c.RecoveryType), 1)
			idx, err := r.Open()
			if fs.Crashed() {
				res.crashedIn = "reopen"
				if err == nil {
					_ = r.Close()
				}
				res.ops = fs.Count()
				return res, nil
			}
			if err != nil || idx != applied {
				return res, vt.Failf(prop+"/reopen-error", si, "Open after clean Close: index %d (applied %d) err %v", idx, applied, err)
			}
		case "install":
			// the donor (on its own, never-crashing FS) holds log prefix 1..logPos+len(Cmds) and ships a snapshot of it
			donor = fsmx.Create(fsmx.NewFS(), fsm.SnapshotRecoveryType(s.DonorType), 2)
			if _, err := donor.Open(); err != nil {
				return res, vt.Failf(prop+"/donor-error", si, "donor open: %v", err)
			}
			target := logPos + uint64(len(s.Cmds))
			if target > 0 {
				if err := reapplyTo(donor, w, 1, target); err != nil {
					return res, vt.Failf(prop+"/donor-error", si, "donor apply: %v", err)
				}
			}
			ctx, err := donor.Prepare()
			if err != nil {
				return res, vt.Failf(prop+"/donor-error", si, "donor prepare: %v", err)
			}
			snap, err := donor.Save(ctx, nil)
			if err != nil {
				return res, vt.Failf(prop+"/donor-error", si, "donor save: %v", err)
			}
			_ = donor.Close()
			donor = nil
			err = r.Recover(snap, nil)
			if err != nil && !fs.Crashed() {
				return res, vt.Failf(prop+"/install-error", si, "RecoverFromSnapshot: %v", err)
			}
			applied, logPos = target, target
		}
		if fs.Crashed() {
			res.crashedIn = s.Op
			break
		}
	}
	_ = r.Close() // after the crash point nothing of this becomes durable; without a crash this is a clean close
	res.ops = fs.Count()
	return res, nil
}

func reapplyTo(r *fsmx.Replica, w *world, from, to uint64) error {
	for from <= to {
		end := min(from+2, to)
		if _, err := r.Apply(fsmx.MkEntries(from, w.log[from-1:end])); err != nil {
			return err
		}
		from = end + 1
	}
	return nil
}

// afterCrash drops unsynced state, reopens and checks the prefix property; returns the reported index.
func afterCrash(c Case, w *world, fs *crashfs.FS, durable uint64, sig string, point int64) (*fsmx.Replica, uint64, *vt.Failure) {
	fs.Crash()
	r := fsmx.Create(fs, fsm.SnapshotRecoveryType(c.RecoveryType), 1)
	idx, err := r.Open()
	if err != nil {
		return nil, 0, vt.Failf(sig+"/reopen-fails", int(point), "Open after crash at operation %d failed: %v\nfile system after the crash:\n%s", point, err, clip(fs.Dump(), 1500))
	}
	if idx < durable {
		_ = r.Close()
		return nil, 0, vt.Failf(sig+"/lost-synced-data", int(point), "crash at operation %d: reopened at index %d, but index %d was covered by a completed sync/close before the crash", point, idx, durable)
	}
	if f := checkState(r, w, idx, sig, int(point)); f != nil {
		_ = r.Close()
		return nil, 0, f
	}
	return r, idx, nil
}

func clip(s string, n int) string {
	if len(s) > n {
		return s[:n] + "..."
	}
	return s
}

func run(c Case, o *vt.Obs) *vt.Failure {
	orig := c
	c = c.expanded()
	w := buildWorld(c)
	points := c.Points
	if len(points) == 0 {
		// dry run counts the operations
		fs := crashfs.New(fsmx.DataDir)
		res, f := execute(c, w, fs, -1)
		if f != nil {
			return f
		}
		total := res.ops
		stride := int64(1)
		if c.MaxPoints > 0 && total > int64(c.MaxPoints) {
			stride = (total + int64(c.MaxPoints) - 1) / int64(c.MaxPoints)
		}
		for p := int64(0); p <= total; p += stride {
			points = append(points, p)
		}
		o.Label(fmt.Sprintf("ops-per-history:%s", bucket(total)))
	}
	evals := 0
	for _, p := range points {
		evals++
		fs := crashfs.New(fsmx.DataDir)
		res, f := execute(c, w, fs, p)
		if f != nil {
			f.Case = narrowed(orig, p)
			return f
		}
		r, idx, f := afterCrash(c, w, fs, res.durable, prop, p)
		if f != nil {
			f.Case = narrowed(orig, p)
			return f
		}
		if res.crashedIn != "" {
			o.Label("crash-in:" + res.crashedIn)
		} else {
			o.Label("crash-in:final-close-or-later")
		}
		if res.firstOpen || res.crashedIn == "install" || (res.crashedIn != "" && idx < uint64(len(w.log))) {
			o.SubNonTrivial(fmt.Sprintf("p%d", p))
		}
		// (4) re-apply the rest; optionally crash a second time while doing so
		if c.Depth >= 2 && idx < uint64(len(w.log)) {
			// crash a second time at an operation of the re-apply (or final close) phase
			m := (p*c.SecondSalt + 1) % 40
			fs.Arm(m)
			err := reapply(r, w, idx+1, 2)
			if err != nil && !fs.Crashed() {
				_ = r.Close()
				ff := vt.Failf(prop+"/reapply-error", int(p), "re-applying entries %d.. after crash at %d: %v", idx+1, p, err)
				ff.Case = narrowed(orig, p)
				return ff
			}
			cerr := r.Close()
			durable2 := idx // a reopened replica has at least its reported index durable
			if !fs.Crashed() {
				// the crash point was not reached: this was a clean close of the complete log
				if cerr != nil {
					ff := vt.Failf(prop+"/close-error", int(p), "Close: %v", cerr)
					ff.Case = narrowed(orig, p)
					return ff
				}
				durable2 = uint64(len(w.log))
			}
			evals++
			r2, idx2, f := afterCrash(c, w, fs, durable2, prop+"/second-crash", p)
			if f != nil {
				f.Case = narrowed(orig, p)
				return f
			}
			o.Label("second-crash")
			r, idx = r2, idx2
		}
		if err := reapply(r, w, idx+1, 3); err != nil {
			_ = r.Close()
			ff := vt.Failf(prop+"/reapply-error", int(p), "re-applying entries %d.. after crash at %d: %v", idx+1, p, err)
			ff.Case = narrowed(orig, p)
			return ff
		}
		f = checkState(r, w, uint64(len(w.log)), prop+"/after-reapply", int(p))
		_ = r.Close()
		if f != nil {
			f.Case = narrowed(orig, p)
			return f
		}
	}
	o.Evals = evals
	o.NonTrivial = false // counted per crash point through SubNonTrivial
	o.Describe = func() string {
		var steps []tlog.Step
		for _, s := range c.Steps {
			steps = append(steps, tlog.Step{Op: s.Op, Cmds: s.Cmds})
		}
		return fmt.Sprintf("recovery type %d, depth %d, %d crash points enumerated over:\n%s", c.RecoveryType, c.Depth, len(points), describe(c))
	}
	return nil
}

func describe(c Case) string {
	out := ""
	for i, s := range c.Steps {
		out += fmt.Sprintf("#%d %s", i, s.Op)
		if len(s.Cmds) > 0 {
			out += "("
			for _, b := range s.Cmds {
				if cmd, err := tlog.DecodeCmd(b); err == nil {
					out += " " + tlog.DescCmd(cmd) + " ;"
				}
			}
			out += " )"
		}
		out += "\n"
	}
	return out
}

func bucket(n int64) string {
	switch {
	case n < 50:
		return "<50"
	case n < 100:
		return "50-99"
	case n < 200:
		return "100-199"
	case n < 400:
		return "200-399"
	}
	return ">=400"
}

func narrowed(c Case, p int64) Case {
	n := c
	n.Points = []int64{p}
	return n
}

// genBig: one Update call that first writes more than a memtable (16 MiB) of plain puts and then runs multi-key commands that read
// the batch (transactions, prev_kv, count): pebble rotates and flushes the memtable on its own in the middle of the call, so crash
// points fall between "the first part of the call is durable" and "the rest is".
func genBig(t *rapid.T) Case {
	pool := gen.NewPool(t, 2, 5, 64)
	c := Case{RecoveryType: rapid.IntRange(0, 1).Draw(t, "rtype"), MaxPoints: 60, SecondSalt: 1, Depth: 1}
	if vt.Thorough() {
		c.MaxPoints = 200
	}
	pre := rapid.IntRange(0, 2).Draw(t, "pre")
	for i := 0; i < pre; i++ {
		c.Steps = append(c.Steps, Step{Op: "apply", Cmds: [][]byte{marshal(multiKey(t, pool))}})
	}
	big := Step{Op: "apply"}
	total := 0
	if rapid.Bool().Draw(t, "replicated") {
		// the shape of a follower catching up: SEQUENCE entries of 2-4 sizeable puts each, every entry with its leader index
		for i, sq := 0, 1; total < 18*1024*1024; sq++ {
			for j, m := 0, rapid.IntRange(2, 4).Draw(t, "seqlen"); j < m; j++ {
				n := rapid.SampledFrom([]int{300 * 1024, 700 * 1024, 1024 * 1024}).Draw(t, "seqsize")
				total += n
				big.Bulk = append(big.Bulk, BulkPut{Key: fmt.Sprintf("big%02d", i), Fill: byte('a' + i%26), N: n, Seq: sq})
				i++
			}
		}
	}
	for i := 0; total < 17*1024*1024; i++ {
		n := rapid.SampledFrom([]int{1024 * 1024, 1536 * 1024, 2 * 1024 * 1024}).Draw(t, "bigsize")
		total += n
		big.Bulk = append(big.Bulk, BulkPut{Key: fmt.Sprintf("big%02d", i), Fill: byte('a' + i%26), N: n})
	}
	// the first command after the bulk always reads the batch (a transaction that writes, or a put / range delete asking for the
	// previous pairs), so the apply call has to look into what it has collected so far
	switch rapid.IntRange(0, 2).Draw(t, "reader") {
	case 0:
		x := pool.Txn(t, "bigtxn", false)
		x.Success = append(x.Success, &regattapb.RequestOp{Request: &regattapb.RequestOp_RequestPut{RequestPut: &regattapb.RequestOp_Put{Key: []byte("txn-marker"), Value: []byte("s"), PrevKv: true}}})
		x.Failure = append(x.Failure, &regattapb.RequestOp{Request: &regattapb.RequestOp_RequestPut{RequestPut: &regattapb.RequestOp_Put{Key: []byte("txn-marker"), Value: []byte("f")}}})
		big.Cmds = append(big.Cmds, marshal(&regattapb.Command{Table: []byte("t"), Type: regattapb.Command_TXN, Txn: x}))
	case 1:
		big.Cmds = append(big.Cmds, marshal(&regattapb.Command{Table: []byte("t"), Type: regattapb.Command_PUT, Kv: &regattapb.KeyValue{Key: []byte("big00"), Value: []byte("overwritten")}, PrevKvs: true}))
	default:
		big.Cmds = append(big.Cmds, marshal(&regattapb.Command{Table: []byte("t"), Type: regattapb.Command_DELETE, Kv: &regattapb.KeyValue{Key: []byte("big01")}, RangeEnd: []byte("big03"), Count: true}))
	}
	tail := rapid.IntRange(0, 2).Draw(t, "tail")
	for i := 0; i < tail; i++ {
		big.Cmds = append(big.Cmds, marshal(multiKey(t, pool)))
	}
	c.Steps = append(c.Steps, big)
	post := rapid.IntRange(0, 2).Draw(t, "post")
	for i := 0; i < post; i++ {
		if rapid.Bool().Draw(t, "postsync") {
			c.Steps = append(c.Steps, Step{Op: "sync"})
		} else {
			c.Steps = append(c.Steps, Step{Op: "apply", Cmds: [][]byte{marshal(multiKey(t, pool))}})
		}
	}
	return c
}

func TestC04Big(t *testing.T)        { vt.Check(t, prop, genBig, run) }
func TestC04BigReplay(t *testing.T)  { vt.Replay(t, prop, run) }
func TestC04BigRegress(t *testing.T) { vt.Regress(t, prop, "testdata", run) }

func TestC04(t *testing.T)        { vt.Check(t, prop, genCase, run) }
func TestC04Replay(t *testing.T)  { vt.Replay(t, prop, run) }
func TestC04Regress(t *testing.T) { vt.Regress(t, prop, "testdata", run) }
