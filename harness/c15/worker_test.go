//go:build verif

package c15

// TestC15Worker: the other half of C15's mechanism - "a worker replicates only while its last lease renewal succeeded"
// (replication/worker.go, lease routine and leased flag of worker.Start).  2-3 REAL workers (their real lease / statistics / replication
// goroutines, started through the verif hook) of different nodes compete for one table over a shared metadata store (the real kv.LFSM
// compare-and-set rule, executed directly); each node reaches the store through its own handle with a harness-controlled outage switch
// (store calls fail while it is on, as when the node is cut off from the metadata raft group).  A sampler reads every worker's lease flag
// and the lease record every 10 ms.
//
// Timing rules (one-sided): lease interval 200 ms => a lease lasts 800 ms.  On code where the property holds a cut-off worker drops its
// flag at its next renewal (<= 200 ms) while another node can take over no earlier than 800 ms after the last renewal, so two flags are
// never up together unless some goroutine is starved for >= 600 ms.  A violation is reported only for two workers of different nodes
// whose flags are BOTH up in every sample over >= 1.5 s while a control ticker in the same process never observed a gap above 300 ms;
// an overlap with a starved control ticker is inconclusive; shorter overlaps are only counted.

import (
	"errors"
	"fmt"
	"sync"
	"sync/atomic"
	"testing"
	"time"

	"github.com/jamf/regatta/replication"
	"github.com/jamf/regatta/storage"
	"github.com/jamf/regatta/storage/kv"
	"github.com/jamf/regatta/storage/table"
	"pgregory.net/rapid"

	"verifharness/internal/gate"
	"verifharness/internal/vt"
)

type Outage struct {
	Node  int `json:"node"`
	At    int `json:"at"`  // ms from scenario start
	Dur   int `json:"dur"` // ms
	Close int `json:"close,omitempty"`
}

type WScenario struct {
	Nodes   int      `json:"nodes"`
	Outages []Outage `json:"outages"`
	// StopAt[n] > 0: the worker of node n is closed (returns its table) at that time and a fresh one is started 300 ms later
	StopAt []int `json:"stop_at,omitempty"`
}

type WorkerCase struct {
	Scenarios []WScenario `json:"scenarios"`
}

const (
	wLeaseMs    = 200
	wScenarioMs = 6000
)

func genWScenario(t *rapid.T) WScenario {
	s := WScenario{Nodes: rapid.IntRange(2, 3).Draw(t, "nodes")}
	n := rapid.IntRange(1, 3).Draw(t, "outages")
	for i := 0; i < n; i++ {
		s.Outages = append(s.Outages, Outage{Node: rapid.IntRange(0, s.Nodes-1).Draw(t, "node"), At: rapid.IntRange(400, 3500).Draw(t, "at"),
			Dur: rapid.SampledFrom([]int{150, 500, 1200, 2500, 4000}).Draw(t, "dur")})
	}
	for i := 0; i < s.Nodes; i++ {
		st := 0
		if rapid.IntRange(0, 4).Draw(t, "stop") == 0 {
			st = rapid.IntRange(500, 4500).Draw(t, "stopAt")
		}
		s.StopAt = append(s.StopAt, st)
	}
	return s
}

func genWorkerCase(t *rapid.T) WorkerCase {
	c := WorkerCase{}
	for i := 0; i < 24; i++ {
		c.Scenarios = append(c.Scenarios, genWScenario(t))
	}
	return c
}

var errCutOff = errors.New("metadata store unreachable (injected outage)")

// nodeStore: one node's handle on the shared store, with an outage switch.
type nodeStore struct {
	s   *gate.Store
	off *atomic.Bool
}

func (n nodeStore) Exists(key string) (bool, error) {
	if n.off.Load() {
		return false, errCutOff
	}
	return n.s.Exists(key)
}
func (n nodeStore) Get(key string) (kv.Pair, error) {
	if n.off.Load() {
		return kv.Pair{}, errCutOff
	}
	return n.s.Get(key)
}
func (n nodeStore) GetAll(p string) ([]kv.Pair, error) {
	if n.off.Load() {
		return nil, errCutOff
	}
	return n.s.GetAll(p)
}
func (n nodeStore) GetAllValues(p string) ([]string, error) {
	if n.off.Load() {
		return nil, errCutOff
	}
	return n.s.GetAllValues(p)
}
func (n nodeStore) Set(key, value string, ver uint64) (kv.Pair, error) {
	if n.off.Load() {
		return kv.Pair{}, errCutOff
	}
	return n.s.Set(key, value, ver)
}
func (n nodeStore) Delete(key string, ver uint64) error {
	if n.off.Load() {
		return errCutOff
	}
	return n.s.Delete(key, ver)
}

type wsample struct {
	at    time.Duration
	flags [3]bool
}

type wresult struct {
	fail         *vt.Failure
	inconclusive string
	overlapMs    int
	takeovers    int
}

func runWScenario(s WScenario, idx int, maxGap *atomic.Int64) wresult {
	w := gate.NewWorld()
	w.Direct = true
	offs := make([]*atomic.Bool, s.Nodes)
	mgrs := make([]*replication.Manager, s.Nodes)
	workers := make([]atomic.Pointer[replication.VerifWorker], s.Nodes)
	tname := fmt.Sprintf("lease-table-%d", idx)
	for n := 0; n < s.Nodes; n++ {
		offs[n] = &atomic.Bool{}
		ns := nodeStore{s: &gate.Store{W: w, Caller: n}, off: offs[n]}
		eng := &storage.Engine{Manager: table.NewManager(nil, nil, ns, table.Config{NodeID: uint64(n + 1), Table: table.TableConfig{TableCacheSize: 16}})}
		mgrs[n] = replication.NewManager(eng, nil, nil, replication.Config{ReconcileInterval: time.Hour, Workers: replication.WorkerConfig{
			PollInterval: 40 * time.Millisecond, LeaseInterval: wLeaseMs * time.Millisecond, LogRPCTimeout: time.Second, SnapshotRPCTimeout: time.Second, MaxRecoveryInFlight: 1}})
		mgrs[n].VerifSetStore(ns)
	}
	var wg sync.WaitGroup
	start := time.Now()
	startWorker := func(n int) {
		vw := mgrs[n].VerifWorker(tname)
		vw.Start() // sleeps up to the poll interval, then launches its goroutines
		workers[n].Store(vw)
	}
	for n := 0; n < s.Nodes; n++ {
		wg.Add(1)
		go func(n int) { defer wg.Done(); startWorker(n) }(n)
	}
	wg.Wait()
	// timeline
	var twg sync.WaitGroup
	for _, o := range s.Outages {
		twg.Add(1)
		go func(o Outage) {
			defer twg.Done()
			time.Sleep(time.Until(start.Add(time.Duration(o.At) * time.Millisecond)))
			offs[o.Node].Store(true)
			time.Sleep(time.Duration(o.Dur) * time.Millisecond)
			offs[o.Node].Store(false)
		}(o)
	}
	for n, st := range s.StopAt {
		if st == 0 {
			continue
		}
		twg.Add(1)
		go func(n, st int) {
			defer twg.Done()
			time.Sleep(time.Until(start.Add(time.Duration(st) * time.Millisecond)))
			if old := workers[n].Swap(nil); old != nil {
				old.Close()
			}
			time.Sleep(300 * time.Millisecond)
			startWorker(n)
		}(n, st)
	}
	// sampler
	var samples []wsample
	end := start.Add(wScenarioMs * time.Millisecond)
	for time.Now().Before(end) {
		var sm wsample
		sm.at = time.Since(start)
		for n := 0; n < s.Nodes; n++ {
			if vw := workers[n].Load(); vw != nil {
				sm.flags[n] = vw.Leased()
			}
		}
		samples = append(samples, sm)
		time.Sleep(10 * time.Millisecond)
	}
	twg.Wait()
	for n := range workers {
		if vw := workers[n].Swap(nil); vw != nil {
			offs[n].Store(false)
			vw.Close()
		}
	}
	// judge: longest run of consecutive samples in which two given nodes both have their flag up
	res := wresult{}
	holder := -1
	for _, sm := range samples {
		for n := 0; n < s.Nodes; n++ {
			if sm.flags[n] && holder != n {
				if holder >= 0 {
					res.takeovers++
				}
				holder = n
			}
		}
	}
	for a := 0; a < s.Nodes; a++ {
		for b := a + 1; b < s.Nodes; b++ {
			var runStart time.Duration = -1
			for _, sm := range samples {
				if sm.flags[a] && sm.flags[b] {
					if runStart < 0 {
						runStart = sm.at
					}
					if d := int((sm.at - runStart) / time.Millisecond); d > res.overlapMs {
						res.overlapMs = d
					}
					if sm.at-runStart >= 1500*time.Millisecond {
						if g := maxGap.Load(); g > 300 {
							res.inconclusive = fmt.Sprintf("two lease flags up for %v but the control ticker was starved for %d ms", sm.at-runStart, g)
							return res
						}
						res.fail = vt.Failf(prop+"/two-workers-consider-the-table-leased", idx, "workers of node %d and node %d both considered the table leased (and would both replicate it) from %v to at least %v of the scenario - a lease lasts %d ms and is renewed every %d ms; outages %+v, worker restarts at %v", a+1, b+1, runStart.Round(time.Millisecond), sm.at.Round(time.Millisecond), 4*wLeaseMs, wLeaseMs, s.Outages, s.StopAt)
						return res
					}
				} else {
					runStart = -1
				}
			}
		}
	}
	return res
}

func runWorkers(c WorkerCase, o *vt.Obs) *vt.Failure {
	// control ticker: the largest gap between two wake-ups of a 10 ms ticker in this process
	var maxGap atomic.Int64
	stop := make(chan struct{})
	go func() {
		last := time.Now()
		t := time.NewTicker(10 * time.Millisecond)
		defer t.Stop()
		for {
			select {
			case <-stop:
				return
			case now := <-t.C:
				if g := now.Sub(last).Milliseconds(); g > maxGap.Load() {
					maxGap.Store(g)
				}
				last = now
			}
		}
	}()
	defer close(stop)
	results := make([]wresult, len(c.Scenarios))
	var wg sync.WaitGroup
	for i, s := range c.Scenarios {
		wg.Add(1)
		go func(i int, s WScenario) {
			defer wg.Done()
			results[i] = runWScenario(s, i, &maxGap)
		}(i, s)
	}
	wg.Wait()
	o.Evals = len(c.Scenarios)
	for i, r := range results {
		if r.fail != nil {
			r.fail.Case = WorkerCase{Scenarios: []WScenario{c.Scenarios[i]}}
			return r.fail
		}
	}
	for i, r := range results {
		if r.inconclusive != "" {
			vt.Inconclusive("C15 worker scenario: " + r.inconclusive)
			return nil
		}
		if r.takeovers > 0 {
			o.SubNonTrivial(fmt.Sprintf("s%d", i))
			o.Label("lease-taken-over-by-another-worker")
		}
		if r.overlapMs > 0 {
			o.Label("short-overlap-of-lease-flags(tolerated)")
		}
	}
	o.Describe = func() string { return fmt.Sprintf("%d scenarios, first: %+v", len(c.Scenarios), c.Scenarios[0]) }
	return nil
}

func TestC15Worker(t *testing.T)        { vt.Check(t, prop, genWorkerCase, runWorkers) }
func TestC15WorkerReplay(t *testing.T)  { vt.Replay(t, prop, runWorkers) }
func TestC15WorkerRegress(t *testing.T) { vt.Regress(t, prop, "testdata", runWorkers) }
