//go:build verif

package c15

// TestC15Cluster: the lease rule on a REAL 3-node follower cluster (three storage.Engine instances in one process, one metadata raft
// group - the real kv.RaftStore proposal path, real raft batching of proposals that are committed together, stale local reads of the
// lease record).  Rounds of calls issued CONCURRENTLY, one per node: LeaseTable(+1 h) / LeaseTable(-1 h, already expired) / ReturnTable.
// Oracle per round (brute force over the 3! orders): the outcomes must be those of SOME sequential order of the calls on the state the
// round started with, where any call may in addition have lost a race (failed with "not acquired" / a version mismatch, without effect);
// the lease record read back afterwards (linearizably, through the raft group) must be the one that order leaves.  Consequences checked
// directly as well: never two successful long leases in one round unless the holder gave it up in between, a successful return removes
// only the caller's own record.  Durations are +-1 h, wall-clock time never decides.

import (
	"encoding/json"
	"errors"
	"fmt"
	"sync"
	"testing"
	"time"

	serrors "github.com/jamf/regatta/storage/errors"
	"github.com/jamf/regatta/storage/kv"
	"github.com/jamf/regatta/storage/table"
	"pgregory.net/rapid"

	"verifharness/internal/enginefx"
	"verifharness/internal/vt"
)

type ClusterCase struct {
	Rounds [][]string `json:"rounds"` // per round one call kind per node ("" = the node does nothing): lease-long | lease-expired | return
}

func genCluster(t *rapid.T) ClusterCase {
	c := ClusterCase{}
	n := rapid.IntRange(2, 6).Draw(t, "rounds")
	for i := 0; i < n; i++ {
		var r []string
		for node := 0; node < 3; node++ {
			r = append(r, rapid.SampledFrom([]string{"lease-long", "lease-long", "lease-long", "lease-expired", "return", ""}).Draw(t, "kind"))
		}
		c.Rounds = append(c.Rounds, r)
	}
	return c
}

var (
	cl15Once sync.Once
	cl15Fx   []*enginefx.Fixture
	cl15Err  error
	cl15No   int
)

// lease state of the model: holder node (0 = no record), long = unexpired
type lstate struct {
	holder int
	long   bool
}

// apply one call sequentially; returns the new state and whether the call succeeds (for return: whether it reports "was leased")
func (s lstate) apply(node int, kind string) (lstate, bool) {
	switch kind {
	case "lease-long", "lease-expired":
		if s.holder == 0 || s.holder == node || !s.long {
			return lstate{holder: node, long: kind == "lease-long"}, true
		}
		return s, false
	case "return":
		if s.holder == node {
			return lstate{}, true
		}
		return s, false
	}
	return s, true
}

type outcome struct {
	ok  bool
	err error
}

func readLease(fx *enginefx.Fixture, name string) (lstate, error) {
	// linearizable read of the record through the metadata raft group of node 1: a no-op compare-and-set is not available, so read
	// the local copy of the node that is asked until two consecutive reads on ALL nodes agree
	var last string
	for k := 0; k < 400; k++ {
		var vals []string
		for _, f := range cl15Fx {
			rs := &kv.RaftStore{NodeHost: f.E.NodeHost, ClusterID: 1000}
			p, err := rs.Get("/tables/" + name + "/lease")
			if errors.Is(err, kv.ErrNotExist) {
				vals = append(vals, "<none>")
			} else if err != nil {
				return lstate{}, err
			} else {
				vals = append(vals, fmt.Sprintf("%d:%s", p.Ver, p.Value))
			}
		}
		if vals[0] == vals[1] && vals[1] == vals[2] {
			if last == vals[0] {
				break
			}
			last = vals[0]
		} else {
			last = ""
		}
		time.Sleep(5 * time.Millisecond)
	}
	if last == "" {
		return lstate{}, fmt.Errorf("the nodes' copies of the lease record did not agree within 2 s")
	}
	if last == "<none>" {
		return lstate{}, nil
	}
	var l table.Lease
	if err := json.Unmarshal([]byte(last[indexByte(last, ':')+1:]), &l); err != nil {
		return lstate{}, err
	}
	return lstate{holder: int(l.ID), long: l.Until.After(time.Now())}, nil
}

func indexByte(s string, b byte) int {
	for i := 0; i < len(s); i++ {
		if s[i] == b {
			return i
		}
	}
	return -1
}

func runCluster(c ClusterCase, o *vt.Obs) *vt.Failure {
	cl15Once.Do(func() { cl15Fx, cl15Err = enginefx.StartCluster(3, enginefx.Opts{}) })
	if cl15Err != nil {
		vt.Inconclusive("C15 cluster fixture: " + cl15Err.Error())
		return nil
	}
	cl15No++
	name := fmt.Sprintf("lt%d", cl15No)
	state := lstate{}
	contended := 0
	for ri, round := range c.Rounds {
		outs := make([]outcome, 3)
		var wg sync.WaitGroup
		start := make(chan struct{})
		for node, kind := range round {
			if kind == "" {
				continue
			}
			wg.Add(1)
			go func(node int, kind string) {
				defer wg.Done()
				<-start
				e := cl15Fx[node].E
				switch kind {
				case "lease-long":
					err := e.LeaseTable(name, time.Hour)
					outs[node] = outcome{ok: err == nil, err: err}
				case "lease-expired":
					err := e.LeaseTable(name, -time.Hour)
					outs[node] = outcome{ok: err == nil, err: err}
				case "return":
					ok, err := e.ReturnTable(name)
					outs[node] = outcome{ok: ok && err == nil, err: err}
				}
			}(node, kind)
		}
		close(start)
		wg.Wait()
		for node, out := range outs {
			if out.err != nil && !errors.Is(out.err, serrors.ErrLeaseNotAcquired) && !errors.Is(out.err, kv.ErrVersionMismatch) {
				return vt.Failf(prop+"/unexpected-error", ri, "node %d %s: %v", node+1, round[node], out.err)
			}
		}
		after, err := readLease(cl15Fx[0], name)
		if err != nil {
			vt.Inconclusive("C15 cluster: reading the lease record: " + err.Error())
			return nil
		}
		// brute force: some order of the calls, any subset of them having lost a race without effect
		var calls []int
		for node, kind := range round {
			if kind != "" {
				calls = append(calls, node)
			}
		}
		explained := false
		var perm func(rest []int, s lstate) bool
		perm = func(rest []int, s lstate) bool {
			if len(rest) == 0 {
				return s == after
			}
			for i, node := range rest {
				others := append(append([]int(nil), rest[:i]...), rest[i+1:]...)
				ns, ok := s.apply(node+1, round[node])
				if ok == outs[node].ok && perm(others, ns) {
					return true
				}
				// lost a race: failed without effect (a return that lost the race reports an error, not "false")
				if !outs[node].ok && (outs[node].err != nil || !ok) && perm(others, s) {
					return true
				}
			}
			return false
		}
		explained = perm(calls, state)
		if !explained {
			desc := ""
			for node, kind := range round {
				if kind != "" {
					desc += fmt.Sprintf(" node%d:%s->ok=%v(%v)", node+1, kind, outs[node].ok, outs[node].err)
				}
			}
			return vt.Failf(prop+"/outcomes-not-explained-by-any-order", ri, "round %d started with lease state %+v; concurrent calls%s; record afterwards %+v: no sequential order of the calls (each possibly having lost a race without effect) gives these outcomes", ri, state, desc, after)
		}
		if len(calls) >= 2 {
			contended++
		}
		state = after
	}
	// clean up: whoever holds it returns it
	for _, f := range cl15Fx {
		_, _ = f.E.ReturnTable(name)
	}
	o.NonTrivial = contended >= 1
	o.LabelN("contended-rounds", contended)
	o.Describe = func() string { return fmt.Sprintf("%+v", c.Rounds) }
	return nil
}

func TestC15Cluster(t *testing.T)        { vt.Check(t, prop, genCluster, runCluster) }
func TestC15ClusterReplay(t *testing.T)  { vt.Replay(t, prop, runCluster) }
func TestC15ClusterRegress(t *testing.T) { vt.Regress(t, prop, "testdata", runCluster) }
