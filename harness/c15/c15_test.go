//go:build verif

// C15 — at most one follower node holds a table's replication lease at a time.
package c15

import (
	"encoding/json"
	"errors"
	"fmt"
	"os"
	"testing"
	"time"

	serrors "github.com/jamf/regatta/storage/errors"
	"github.com/jamf/regatta/storage/kv"
	"github.com/jamf/regatta/storage/table"
	"pgregory.net/rapid"

	"verifharness/internal/gate"
	"verifharness/internal/vt"
)

const prop = "C15"

// Call is one lease API call of a node's program.
type Call struct {
	Kind string `json:"kind"` // lease-long (+1h) | lease-expired (-1h, i.e. a lease that is already over) | return | create-table | delete-table (catalogue calls on the leased table's name: they never hand anybody a lease)
}

type Case struct {
	Programs [][]Call `json:"programs"` // one per node (node id = index+1)
	Schedule []int    `json:"schedule"`
	// Batch: two writes parked at the same time are applied by ONE Update call of the metadata state machine (proposals committed together)
	Batch bool `json:"batch,omitempty"`
	// Replicas: every node reads its OWN replica of the metadata state machine (stale reads, as kv.RaftStore does) and is answered by it;
	// the schedule also decides when a lagging replica applies the next log entry or is caught up by a snapshot (gate.World.Replicas)
	Replicas bool `json:"replicas,omitempty"`
}

func genCaseReplicas(t *rapid.T) Case {
	nodes := rapid.IntRange(2, 3).Draw(t, "nodes")
	c := Case{Replicas: true}
	catalogue := rapid.IntRange(0, 4).Draw(t, "catalogue-calls") == 0
	for n := 0; n < nodes; n++ {
		var p []Call
		k := rapid.IntRange(1, 4).Draw(t, "calls")
		for i := 0; i < k; i++ {
			p = append(p, Call{Kind: rapid.SampledFrom(kindsFor(catalogue, []string{"lease-long", "lease-long", "lease-expired", "lease-expired", "return", "return"})).Draw(t, "kind")})
		}
		c.Programs = append(c.Programs, p)
	}
	c.Schedule = rapid.SliceOfN(rapid.IntRange(0, 8), 0, 60).Draw(t, "schedule")
	c.Batch = rapid.Bool().Draw(t, "batch")
	return c
}

// kindsFor: in a fifth of the cases the nodes also create and delete the leased table's catalogue record (what a follower's replication
// manager does when the table appears / vanishes on the leader) - no catalogue call hands anybody a lease or takes one away.
func kindsFor(catalogue bool, kinds []string) []string {
	if !catalogue {
		return kinds
	}
	return append(append([]string(nil), kinds...), "create-table", "delete-table", "delete-table")
}

func genCase(t *rapid.T) Case {
	nodes := rapid.IntRange(2, 3).Draw(t, "nodes")
	c := Case{}
	catalogue := rapid.IntRange(0, 4).Draw(t, "catalogue-calls") == 0
	for n := 0; n < nodes; n++ {
		var p []Call
		k := rapid.IntRange(1, 4).Draw(t, "calls")
		for i := 0; i < k; i++ {
			p = append(p, Call{Kind: rapid.SampledFrom(kindsFor(catalogue, []string{"lease-long", "lease-long", "lease-expired", "return"})).Draw(t, "kind")})
		}
		c.Programs = append(c.Programs, p)
	}
	c.Schedule = rapid.SliceOfN(rapid.IntRange(0, 2), 0, 40).Draw(t, "schedule")
	c.Batch = rapid.IntRange(0, 2).Draw(t, "batch") == 0
	return c
}

// managers (and the stores they are bound to) are reused across executions: constructing a table.Manager
// allocates pebble caches with background goroutines
var (
	stores   = []*gate.Store{{Caller: 0}, {Caller: 1}, {Caller: 2}}
	managers = func() []*table.Manager {
		var ms []*table.Manager
		for n := 0; n < 3; n++ {
			ms = append(ms, table.NewManager(nil, nil, stores[n], table.Config{NodeID: uint64(n + 1), Table: table.TableConfig{TableCacheSize: 16}}))
		}
		return ms
	}()
)

const tableName = "tbl"
const leaseKey = "/tables/" + tableName + "/lease"

type callRec struct {
	node    int
	kind    string
	started int // step at which the call's first store operation was released
	ended   int
	err     error
	ok      bool
	ops     []int // steps at which the call's store operations were released
}

// execute runs one (programs, schedule) pair and checks the invariants. It returns the number of
// scheduling steps and whether two calls overlapped.
func execute(c Case) (steps int, overlapped bool, f *vt.Failure) {
	steps, overlapped, _, f = executeB(c)
	return
}

// lastWorld: the world of the most recent execution (statistics only).
var lastWorld *gate.World

func executeB(c Case) (steps int, overlapped bool, branching []int, f *vt.Failure) {
	w := gate.NewWorld()
	if c.Replicas {
		w = gate.NewReplicatedWorld(len(c.Programs))
	}
	lastWorld = w
	w.Batch = c.Batch
	current := map[int]*callRec{}
	believes := map[int]bool{} // node -> believes to hold an unexpired lease
	var fail *vt.Failure
	step := 0
	// per node: the lease record the node read last (the decision is taken on it)
	w.OnRelease = func(caller int, op, key string) {
		step++
		if r := current[caller]; r != nil {
			r.ops = append(r.ops, step)
		}
		if key != leaseKey || fail != nil {
			return
		}
		cur, exists := w.Peek(leaseKey)
		var l table.Lease
		if exists {
			_ = json.Unmarshal([]byte(cur.Value), &l)
		}
		_ = l
	}
	type pendingWrite struct {
		exists bool
		lease  table.Lease
	}
	before := map[int]pendingWrite{}
	inner := w.OnRelease
	w.OnRelease = func(caller int, op, key string) {
		inner(caller, op, key)
		if key == leaseKey && (op == "set" || op == "delete") {
			cur, exists := w.Peek(leaseKey)
			pw := pendingWrite{exists: exists}
			if exists {
				_ = json.Unmarshal([]byte(cur.Value), &pw.lease)
			}
			before[caller] = pw
		}
	}
	w.OnDone = func(caller int, op, key string, err error) {
		if key != leaseKey || fail != nil || err != nil {
			return
		}
		node := uint64(caller + 1)
		pw := before[caller]
		switch op {
		case "set":
			// a successful write implies the record at the write point was unclaimed, the node's own, or expired
			if pw.exists && pw.lease.ID != node && !pw.lease.Until.Before(time.Now()) {
				fail = vt.Failf(prop+"/lease-stolen", step, "node %d overwrote the unexpired lease of node %d (valid until %s)", node, pw.lease.ID, pw.lease.Until.Format(time.RFC3339))
			}
		case "delete":
			if r := current[caller]; r != nil && r.kind != "return" {
				break // judged by its consequences (a second holder), not by the clause about returning a lease
			}
			if pw.exists && pw.lease.ID != node {
				fail = vt.Failf(prop+"/foreign-lease-removed", step, "node %d removed the lease record of node %d", node, pw.lease.ID)
			}
		}
	}
	var recs []*callRec
	catalogueCalls := false
	programs := make([]func(s *gate.Store), len(c.Programs))
	for n := range c.Programs {
		n := n
		programs[n] = func(s *gate.Store) {
			m := managers[n]
			for _, call := range c.Programs[n] {
				r := &callRec{node: n + 1, kind: call.Kind, started: step}
				current[n] = r
				recs = append(recs, r) // only one caller is runnable at any time
				switch call.Kind {
				case "lease-long":
					r.err = m.LeaseTable(tableName, time.Hour)
					r.ok = r.err == nil
					if r.ok {
						believes[n+1] = true
					}
				case "lease-expired":
					r.err = m.LeaseTable(tableName, -time.Hour)
					r.ok = r.err == nil
					if r.ok {
						believes[n+1] = false // it now holds a lease that is already over
					}
				case "return":
					r.ok, r.err = m.ReturnTable(tableName)
					if r.ok {
						believes[n+1] = false
					}
				case "create-table":
					catalogueCalls = true
					_, r.err = m.VerifCreateRecord(tableName)
					if errors.Is(r.err, serrors.ErrTableExists) {
						r.err = nil
					}
				case "delete-table":
					catalogueCalls = true
					r.err = m.DeleteTable(tableName)
					if errors.Is(r.err, serrors.ErrTableNotFound) {
						r.err = nil
					}
				}
				r.ended = step
				// invariant: at most one node believes to hold an unexpired lease
				holders := 0
				for _, b := range believes {
					if b {
						holders++
					}
				}
				if holders > 1 && fail == nil {
					fail = vt.Failf(prop+"/two-holders", step, "two nodes hold an unexpired lease at the same time: %v (after node %d's %s)", believes, n+1, call.Kind)
				}
				// errors other than "not acquired" / version mismatch are unexpected
				if r.err != nil && !errors.Is(r.err, serrors.ErrLeaseNotAcquired) && !errors.Is(r.err, kv.ErrVersionMismatch) && fail == nil {
					fail = vt.Failf(prop+"/unexpected-error", step, "node %d %s: %v", n+1, call.Kind, r.err)
				}
			}
		}
	}
	steps, err := w.RunWith(stores[:len(programs)], programs, c.Schedule)
	branching = w.Branching
	if err != nil {
		return steps, false, branching, vt.Failf(prop+"/harness-scheduler", steps, "%v", err)
	}
	if fail != nil {
		fail.Msg += "\nschedule trace: " + fmt.Sprint(w.Trace)
		return steps, false, branching, fail
	}
	// the record agrees with the ghost state: if somebody believes to hold, the record names it and is unexpired
	cur, exists := w.Peek(leaseKey)
	for node, b := range believes {
		if !b || catalogueCalls {
			continue
		}
		var l table.Lease
		if exists {
			_ = json.Unmarshal([]byte(cur.Value), &l)
		}
		if !exists || l.ID != uint64(node) || l.Until.Before(time.Now()) {
			return steps, false, branching, vt.Failf(prop+"/holder-without-record", steps, "node %d was granted a long lease and never returned it, but the record is %v (exists=%v)\ntrace: %v", node, l, exists, w.Trace)
		}
	}
	for i, a := range recs {
		for _, b := range recs[i+1:] {
			// interleaved: an operation of one call lies strictly between the first and last operation of the other
			if a.node != b.node && len(a.ops) > 0 && len(b.ops) > 0 {
				for _, x := range b.ops {
					if x > a.ops[0] && x < a.ops[len(a.ops)-1] {
						overlapped = true
					}
				}
				for _, x := range a.ops {
					if x > b.ops[0] && x < b.ops[len(b.ops)-1] {
						overlapped = true
					}
				}
			}
		}
	}
	return steps, overlapped, branching, nil
}

func run(c Case, o *vt.Obs) *vt.Failure {
	steps, overlapped, f := execute(c)
	if f != nil {
		return f
	}
	if overlapped {
		o.Label("overlapping-read-then-write-windows")
	}
	o.LabelN("store-operations", steps)
	o.NonTrivial = overlapped
	o.Describe = func() string { return fmt.Sprintf("%+v", c) }
	return nil
}

func runReplicas(c Case, o *vt.Obs) *vt.Failure {
	steps, overlapped, f := execute(c)
	if f != nil {
		return f
	}
	w := lastWorld
	if overlapped {
		o.Label("overlapping-read-then-write-windows")
	}
	if w.LagReads > 0 {
		o.Label("decision-taken-on-a-stale-read-of-a-lagging-replica")
	}
	if w.SnapInstall > 0 {
		o.Label("lagging-replica-caught-up-by-snapshot")
	}
	o.LabelN("store-operations", steps)
	o.NonTrivial = w.LagReads > 0 && (overlapped || w.SnapInstall > 0)
	o.Describe = func() string { return fmt.Sprintf("%+v", c) }
	return nil
}

func TestC15(t *testing.T)               { vt.Check(t, prop, genCase, run) }
func TestC15Replicas(t *testing.T)       { vt.Check(t, prop, genCaseReplicas, runReplicas) }
func TestC15ReplicasReplay(t *testing.T) { vt.Replay(t, prop, runReplicas) }
func TestC15Replay(t *testing.T)         { vt.Replay(t, prop, run) }
func TestC15Regress(t *testing.T)        { vt.Regress(t, prop, "testdata", run) }

// TestC15Exhaustive enumerates ALL interleavings (at store-operation granularity) of every pair of
// programs with up to maxCalls calls for 2 nodes (thorough tier; quick uses a smaller bound).
func TestC15Exhaustive(t *testing.T) {
	maxCalls := 2
	if vt.Thorough() {
		maxCalls = 3
	}
	kinds := []string{"lease-long", "lease-expired", "return"}
	var progs [][]Call
	var build func(cur []Call)
	build = func(cur []Call) {
		if len(cur) > 0 {
			progs = append(progs, append([]Call(nil), cur...))
		}
		if len(cur) == maxCalls {
			return
		}
		for _, k := range kinds {
			build(append(cur, Call{Kind: k}))
		}
	}
	build(nil)
	schedules, overlappedN := 0, 0
	st := vt.NewManualStats(prop, t.Name())
	defer st.Flush()
	for _, batch := range []bool{false, true} {
		for _, pa := range progs {
			for _, pb := range progs {
				// Every complete schedule exactly once: a node of the search is the execution "prefix followed by choice 0";
				// its children deviate from it at one later choice point.
				var dfs func(prefix []int) *vt.Failure
				dfs = func(prefix []int) *vt.Failure {
					c := Case{Programs: [][]Call{pa, pb}, Schedule: prefix, Batch: batch}
					_, overlapped, branching, f := executeB(c)
					if f != nil {
						f.Case = c
						return f
					}
					schedules++
					if overlapped {
						overlappedN++
					}
					st.Record(c, overlapped, []string{fmt.Sprintf("programs:%d+%d-calls", len(pa), len(pb))})
					for j := len(prefix); j < len(branching); j++ {
						for ch := 1; ch < branching[j]; ch++ {
							next := append([]int(nil), prefix...)
							for len(next) < j {
								next = append(next, 0)
							}
							next = append(next, ch)
							if f := dfs(next); f != nil {
								return f
							}
						}
					}
					return nil
				}
				if f := dfs(nil); f != nil {
					p := st.Fail(f)
					t.Fatalf("VERIF-FAIL signature=%s step=%d replay=%s\n%s", f.Signature, f.Step, p, f.Msg)
				}
			}
		}
	}
	fmt.Printf("VERIF-DONE cases=%d\n", schedules)
	t.Logf("exhaustive: %d program pairs, %d complete schedules, %d with overlapping calls", len(progs)*len(progs), schedules, overlappedN)
	_ = os.Getenv
}

// replay files written by the enumeration carry its test name
func TestC15ExhaustiveReplay(t *testing.T) { vt.Replay(t, prop, run) }
