package c01

import (
	"bytes"
	"fmt"
	"testing"

	"github.com/jamf/regatta/regattapb"
	"github.com/jamf/regatta/storage/table/fsm"
	"pgregory.net/rapid"

	"verifharness/internal/fsmx"
	"verifharness/internal/model"
	"verifharness/internal/tlog"
	"verifharness/internal/vt"
)

// Large-value mode: few keys with values up to the 2 MiB limit, so that the answers of range deletes / transactions
// (previous pairs, counts) and range reads cross the ~4 MiB internal chunk size of the range iterator.

type LVal struct {
	N int  `json:"n"`
	F byte `json:"f"`
}

type LOp struct {
	Kind   string `json:"kind"` // put | delrange | txn-delrange | read
	K      string `json:"k"`
	End    string `json:"end,omitempty"` // "" = wildcard
	V      LVal   `json:"v,omitempty"`
	PrevKv bool   `json:"prev_kv,omitempty"`
	Count  bool   `json:"count,omitempty"`
}

type LargeCase struct {
	Ops []LOp `json:"ops"`
}

func genLarge(t *rapid.T) LargeCase {
	c := LargeCase{}
	// load 3-6 big pairs, then a few range deletes / reads over them, interleaved with re-loads
	nk := rapid.IntRange(3, 6).Draw(t, "keys")
	for i := 0; i < nk; i++ {
		sz := rapid.SampledFrom([]int{700 * 1024, 1024 * 1024, 1536 * 1024, 2*1024*1024 - 64, 2 * 1024 * 1024}).Draw(t, "size")
		c.Ops = append(c.Ops, LOp{Kind: "put", K: fmt.Sprintf("k%d", i), V: LVal{N: sz, F: byte('a' + i)}})
	}
	n := rapid.IntRange(1, 4).Draw(t, "ops")
	for i := 0; i < n; i++ {
		lo := rapid.IntRange(0, nk-1).Draw(t, "lo")
		op := LOp{K: fmt.Sprintf("k%d", lo)}
		if rapid.Bool().Draw(t, "wild") {
			op.End = ""
		} else {
			op.End = fmt.Sprintf("k%d", rapid.IntRange(lo, nk).Draw(t, "hi"))
		}
		switch rapid.IntRange(0, 3).Draw(t, "kind") {
		case 0:
			op.Kind = "read"
		case 1:
			op.Kind = "txn-delrange"
			op.PrevKv, op.Count = rapid.Bool().Draw(t, "prev"), rapid.Bool().Draw(t, "count")
		default:
			op.Kind = "delrange"
			op.PrevKv, op.Count = rapid.Bool().Draw(t, "prev"), rapid.Bool().Draw(t, "count")
		}
		c.Ops = append(c.Ops, op)
		if op.Kind != "read" && rapid.Bool().Draw(t, "reload") {
			for k := 0; k < nk; k++ {
				c.Ops = append(c.Ops, LOp{Kind: "put", K: fmt.Sprintf("k%d", k), V: LVal{N: 1024 * 1024, F: byte('A' + k)}})
			}
		}
	}
	return c
}

func runLarge(c LargeCase, o *vt.Obs) *vt.Failure {
	r := fsmx.Create(fsmx.NewFS(), fsm.RecoveryTypeSnapshot, 1)
	if _, err := r.Open(); err != nil {
		return vt.Failf(prop+"/open-error", 0, "%v", err)
	}
	defer r.Close()
	m := model.New()
	idx := uint64(0)
	bigAnswer := false
	for i, op := range c.Ops {
		end := []byte(op.End)
		if op.End == "" {
			end = []byte{0}
		}
		var cmd *regattapb.Command
		switch op.Kind {
		case "put":
			cmd = &regattapb.Command{Table: []byte("t"), Type: regattapb.Command_PUT, Kv: &regattapb.KeyValue{Key: []byte(op.K), Value: bytes.Repeat([]byte{op.V.F}, op.V.N)}}
		case "delrange":
			cmd = &regattapb.Command{Table: []byte("t"), Type: regattapb.Command_DELETE, Kv: &regattapb.KeyValue{Key: []byte(op.K)}, RangeEnd: end, PrevKvs: op.PrevKv, Count: op.Count}
		case "txn-delrange":
			cmd = &regattapb.Command{Table: []byte("t"), Type: regattapb.Command_TXN, Txn: &regattapb.Txn{Success: []*regattapb.RequestOp{
				{Request: &regattapb.RequestOp_RequestDeleteRange{RequestDeleteRange: &regattapb.RequestOp_DeleteRange{Key: []byte(op.K), RangeEnd: end, PrevKv: op.PrevKv, Count: op.Count}}},
			}}}
		case "read":
			req := &regattapb.RequestOp_Range{Key: []byte(op.K), RangeEnd: end}
			want := m.Read(req)
			total := 0
			for _, p := range want.Pairs {
				total += len(p.V)
			}
			if total > 4*1024*1024 {
				bigAnswer = true
			}
			got, err := r.Range(req)
			if err != nil {
				return vt.Failf(prop+"/read-error", i, "%v", err)
			}
			if cerr := model.CheckRangeResponse(want, got, true); cerr != nil {
				return vt.Failf(prop+"/read-mismatch", i, "range %s: %v", tlog.FmtRange(req), cerr)
			}
			continue
		}
		if cmd.Type != regattapb.Command_PUT {
			total := 0
			for _, p := range m.Range([]byte(op.K), end) {
				total += len(p.V)
			}
			if total > 4*1024*1024 && (op.PrevKv || op.Count) {
				bigAnswer = true
			}
		}
		b, _ := cmd.MarshalVT()
		idx++
		res, err := r.Apply(fsmx.MkEntries(idx, [][]byte{b}))
		if err != nil {
			return vt.Failf(prop+"/apply-error", i, "%v", err)
		}
		want := m.Apply(cmd, idx)
		if cerr := tlog.CheckEntryResult(want, idx, res[0].Result); cerr != nil {
			return vt.Failf(prop+"/apply-result-large:"+cmd.Type.String(), i, "entry %d (%s %q..%q prev_kv=%v count=%v over large values): %v", idx, op.Kind, op.K, op.End, op.PrevKv, op.Count, cerr)
		}
	}
	all, err := r.All()
	if err != nil || len(all) != len(m.Pairs) {
		return vt.Failf(prop+"/content-mismatch", len(c.Ops), "table holds %d pairs, model %d (%v)", len(all), len(m.Pairs), err)
	}
	if bigAnswer {
		o.Label("answer-exceeds-the-4MiB-internal-chunk")
	}
	o.NonTrivial = bigAnswer
	o.Describe = func() string { return fmt.Sprintf("%+v", c.Ops) }
	return nil
}

func TestC01Large(t *testing.T)        { vt.Check(t, prop, genLarge, runLarge) }
func TestC01LargeReplay(t *testing.T)  { vt.Replay(t, prop, runLarge) }
func TestC01LargeRegress(t *testing.T) { vt.Regress(t, prop, "testdata", runLarge) }
