// C01 — a table behaves as an ordered byte-string map for every command history.
package c01

import (
	"os"
	"testing"

	"github.com/jamf/regatta/storage/table/fsm"
	"pgregory.net/rapid"

	"verifharness/internal/gen"
	"verifharness/internal/tlog"
	"verifharness/internal/vt"
)

const prop = "C01"

type Case struct {
	RecoveryType int         `json:"recovery_type"`
	Steps        []tlog.Step `json:"steps"`
}

func genCase(t *rapid.T) Case {
	p := gen.NewPool(t, 3, 9, 1024)
	maxSteps := 30
	if vt.Thorough() {
		maxSteps = 60
	}
	return Case{
		RecoveryType: rapid.IntRange(0, 1).Draw(t, "rtype"),
		Steps:        tlog.GenSteps(t, p, tlog.GenOpts{MinSteps: 1, MaxSteps: maxSteps, MaxBatch: 6, LeaderIndex: true, Reads: true, ROTxn: false, Maintenance: true}),
	}
}

func run(c Case, o *vt.Obs) *vt.Failure {
	e, f := tlog.NewExec(prop, fsm.SnapshotRecoveryType(c.RecoveryType))
	if f != nil {
		return f
	}
	defer e.Close()
	for i, s := range c.Steps {
		if f := e.Run(i, s); f != nil {
			return f
		}
	}
	if f := e.CheckFull(len(c.Steps)); f != nil {
		return f
	}
	tr := e.M.T
	if tr.RangeDelHits > 0 {
		o.Label("range-delete-removed-keys")
	}
	if tr.DirtyReads > 0 {
		o.Label("in-batch-read-after-write")
	}
	if e.Reopens > 0 {
		o.Label("reopen")
	}
	if e.MultiEntryBatches > 0 {
		o.Label("multi-entry-batch")
	}
	if e.Reads > 0 {
		o.Label("reads")
	}
	o.NonTrivial = tr.RangeDelHits > 0 && tr.DirtyReads > 0
	o.Describe = func() string { return tlog.Describe(c.Steps) }
	return nil
}

func TestC01(t *testing.T)        { vt.Check(t, prop, genCase, run) }
func TestC01Replay(t *testing.T)  { vt.Replay(t, prop, run) }
func TestC01Regress(t *testing.T) { vt.Regress(t, prop, "testdata", run) }

func TestMain(m *testing.M) { os.Exit(m.Run()) }
