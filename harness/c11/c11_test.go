//go:build verif

// C11 — writes through a follower are read-your-writes; waiting never wedges the node.
package c11

import (
	"context"
	"fmt"
	"regexp"
	"runtime"
	"sort"
	"strings"
	"sync"
	"testing"
	"time"

	"github.com/jamf/regatta/storage"
	"pgregory.net/rapid"

	"verifharness/internal/vt"
)

const prop = "C11"

// Ev is one timed event of a queue scenario (offsets in milliseconds from the scenario start).
type Ev struct {
	At     int    `json:"at"`
	Kind   string `json:"kind"` // add | notify | len
	Table  string `json:"table"`
	Rev    uint64 `json:"rev"`
	Cancel int    `json:"cancel,omitempty"` // add: cancel the waiter's context this many ms after the add (0 = never)
}

type Scenario struct {
	Events []Ev `json:"events"`
}

// Case = a batch of scenarios executed concurrently (a scenario is mostly idle waiting for the 1 s sweep).
type Case struct {
	Scenarios []Scenario `json:"scenarios"`
}

const scenarioMs = 3300 // events are spread over 3.3 s; the run lasts ~4.6 s => at least 4 sweeps

func genScenario(t *rapid.T) Scenario {
	n := rapid.IntRange(2, 12).Draw(t, "events")
	s := Scenario{}
	for i := 0; i < n; i++ {
		e := Ev{At: rapid.IntRange(0, scenarioMs).Draw(t, "at"), Table: rapid.SampledFrom([]string{"t", "t", "u"}).Draw(t, "table")}
		k := rapid.IntRange(0, 9).Draw(t, "kind")
		switch {
		case k <= 5:
			e.Kind = "add"
			e.Rev = uint64(rapid.IntRange(0, 6).Draw(t, "rev"))
			if rapid.IntRange(0, 2).Draw(t, "cancelled") == 0 {
				e.Cancel = rapid.IntRange(1, 2500).Draw(t, "cancelAfter")
			}
		case k <= 8:
			e.Kind = "notify"
			e.Rev = uint64(rapid.IntRange(0, 6).Draw(t, "rev"))
		default:
			e.Kind = "len"
		}
		s.Events = append(s.Events, e)
	}
	sort.SliceStable(s.Events, func(i, j int) bool { return s.Events[i].At < s.Events[j].At })
	return s
}

func genCase(t *rapid.T) Case {
	k := 150
	c := Case{}
	for i := 0; i < k; i++ {
		c.Scenarios = append(c.Scenarios, genScenario(t))
	}
	return c
}

type waiter struct {
	ev         Ev
	addStart   time.Time
	addReturn  time.Time
	added      bool
	cancelAt   time.Time // zero = never cancelled
	answered   bool
	answerAt   time.Time
	answerErr  error
	second     string // "" | "value" (a second value arrived) | "closed-after-error"
	ch         <-chan error
	cancelFunc context.CancelFunc
}

type notif struct {
	ev         Ev
	start, end time.Time
	returned   bool
}

type outcome struct {
	fail       *vt.Failure
	nontrivial bool
	labels     []string
	stuck      bool // a queue call did not return: needs the goroutine-dump witness
	stuckWhat  string
}

// timedCall runs f and reports whether it returned within d.
func timedCall(d time.Duration, f func()) bool {
	done := make(chan struct{})
	go func() { f(); close(done) }()
	select {
	case <-done:
		return true
	case <-time.After(d):
		return false
	}
}

func runScenario(s Scenario) outcome {
	q := storage.NewNotificationQueue()
	go q.Run()
	defer q.Close()
	start := time.Now()
	var mu sync.Mutex
	var waiters []*waiter
	var notifs []*notif
	var wg sync.WaitGroup
	out := outcome{}
	stuck := func(what string) {
		mu.Lock()
		if !out.stuck {
			out.stuck, out.stuckWhat = true, what
		}
		mu.Unlock()
	}
	for _, e := range s.Events {
		e := e
		wg.Add(1)
		go func() {
			defer wg.Done()
			time.Sleep(time.Until(start.Add(time.Duration(e.At) * time.Millisecond)))
			switch e.Kind {
			case "add":
				ctx, cancel := context.WithCancel(context.Background())
				w := &waiter{ev: e, cancelFunc: cancel}
				mu.Lock()
				waiters = append(waiters, w)
				mu.Unlock()
				w.addStart = time.Now()
				ok := timedCall(8*time.Second, func() { w.ch = q.Add(ctx, e.Table, e.Rev) })
				if !ok {
					stuck(fmt.Sprintf("Add(%s,%d)", e.Table, e.Rev))
					return
				}
				mu.Lock()
				w.addReturn, w.added = time.Now(), true
				mu.Unlock()
				if e.Cancel > 0 {
					go func() {
						time.Sleep(time.Duration(e.Cancel) * time.Millisecond)
						mu.Lock()
						w.cancelAt = time.Now()
						mu.Unlock()
						cancel()
					}()
				}
				// the caller reads its channel exactly once, as ForwardingKVServer does
				go func() {
					err := <-w.ch
					mu.Lock()
					w.answered, w.answerAt, w.answerErr = true, time.Now(), err
					mu.Unlock()
				}()
			case "notify":
				n := &notif{ev: e, start: time.Now()}
				mu.Lock()
				notifs = append(notifs, n)
				mu.Unlock()
				if !timedCall(8*time.Second, func() { q.Notify(e.Table, e.Rev) }) {
					stuck(fmt.Sprintf("Notify(%s,%d)", e.Table, e.Rev))
					return
				}
				mu.Lock()
				n.end, n.returned = time.Now(), true
				mu.Unlock()
			case "len":
				if !timedCall(8*time.Second, func() { q.Len(e.Table) }) {
					stuck(fmt.Sprintf("Len(%s)", e.Table))
				}
			}
		}()
	}
	wg.Wait()
	// let at least one more sweep pass after the last event
	time.Sleep(time.Until(start.Add(time.Duration(scenarioMs+1300) * time.Millisecond)))
	lens := map[string]int{}
	if !out.stuck {
		for _, tb := range []string{"t", "u"} {
			tb := tb
			if !timedCall(8*time.Second, func() { lens[tb] = q.Len(tb) }) {
				stuck("final Len(" + tb + ")")
			}
		}
		if !out.stuck {
			// responsiveness probe; it is a real notification (revision 0) and is recorded as such
			n := &notif{ev: Ev{Kind: "notify", Table: "t", Rev: 0}, start: time.Now()}
			mu.Lock()
			notifs = append(notifs, n)
			mu.Unlock()
			if !timedCall(8*time.Second, func() { q.Notify("t", 0) }) {
				stuck("final Notify")
			} else {
				mu.Lock()
				n.end, n.returned = time.Now(), true
				mu.Unlock()
			}
		}
	}
	if out.stuck {
		return out // judged by the caller with the goroutine-dump witness
	}
	time.Sleep(200 * time.Millisecond) // answers travel from the event loop to the reading goroutines
	mu.Lock()
	defer mu.Unlock()
	end := time.Now()
	for wi, w := range waiters {
		if !w.added {
			continue
		}
		// second answer? (non-blocking)
		if w.answered && w.answerErr != nil {
			select {
			case v, ok := <-w.ch:
				if ok {
					out.fail = vt.Failf(prop+"/answered-twice", wi, "waiter (table %s, revision %d) received a second answer %v after %v", w.ev.Table, w.ev.Rev, v, w.answerErr)
				} else {
					out.fail = vt.Failf(prop+"/error-and-success", wi, "waiter (table %s, revision %d) was answered with %v and then also acknowledged", w.ev.Table, w.ev.Rev, w.answerErr)
				}
				return out
			default:
			}
		}
		qualifyingStarted := func(before time.Time) bool {
			for _, n := range notifs {
				if n.ev.Table == w.ev.Table && n.ev.Rev >= w.ev.Rev && n.start.Before(before) {
					return true
				}
			}
			return false
		}
		switch {
		case w.answered && w.answerErr == nil:
			// success only if a notification at or beyond the waiter's revision had started before
			if !qualifyingStarted(w.answerAt) {
				out.fail = vt.Failf(prop+"/acknowledged-without-notification", wi, "waiter (table %s, revision %d) was acknowledged although no notification >= %d for its table had been issued", w.ev.Table, w.ev.Rev, w.ev.Rev)
				return out
			}
		case w.answered:
			if w.cancelAt.IsZero() || w.cancelAt.After(w.answerAt) {
				out.fail = vt.Failf(prop+"/error-before-cancellation", wi, "waiter (table %s, revision %d) got %v although its context had not ended", w.ev.Table, w.ev.Rev, w.answerErr)
				return out
			}
		default:
			// unanswered. Timing-free witness of a lost waiter: the queue reports nobody waiting on the table.
			if lens[w.ev.Table] == 0 {
				out.fail = vt.Failf(prop+"/waiter-lost", wi, "waiter (table %s, revision %d, cancelled=%v) never got an answer, yet the queue reports 0 waiters for its table", w.ev.Table, w.ev.Rev, !w.cancelAt.IsZero())
				return out
			}
			// a cancelled waiter must be answered with an error by the periodic sweep (generous: >= 2.5 s ago)
			if !w.cancelAt.IsZero() && end.Sub(w.cancelAt) > 2500*time.Millisecond {
				out.fail = vt.Failf(prop+"/cancelled-waiter-unanswered", wi, "waiter (table %s, revision %d) was cancelled %.1f s ago and has still no answer", w.ev.Table, w.ev.Rev, end.Sub(w.cancelAt).Seconds())
				return out
			}
			// a live waiter added AFTER its revision had been notified must be answered too (the node has already applied it):
			// asserted when every notification of the table that started before the Add had returned >= 5 ms before the Add started
			// and the most recent of them is at or beyond the waiter's revision (the queue keeps the latest notified revision)
			if w.cancelAt.IsZero() && end.Sub(w.addReturn) > time.Second {
				// the notifications of this table that started before the Add returned; the one that started last is "the latest" only if
				// every other one had RETURNED before it started (Notify is synchronous, so the queue then processed them in that order;
				// two overlapping Notify calls can be processed in either order and leave either revision as the remembered one)
				var latest *notif
				clean := true
				var rel []*notif
				for _, n := range notifs {
					if n.ev.Table != w.ev.Table || !n.start.Before(w.addReturn) {
						continue
					}
					if !n.returned || n.end.Add(5*time.Millisecond).After(w.addStart) {
						clean = false
						break
					}
					rel = append(rel, n)
					if latest == nil || n.start.After(latest.start) {
						latest = n
					}
				}
				for _, n := range rel {
					if n != latest && !n.end.Before(latest.start) {
						clean = false
					}
				}
				if clean && latest != nil && latest.ev.Rev >= w.ev.Rev {
					out.fail = vt.Failf(prop+"/already-applied-revision-not-acknowledged", wi, "waiter (table %s, revision %d) was added %.0f ms after Notify(%d) had returned and is still waiting %.1f s later", w.ev.Table, w.ev.Rev, w.addStart.Sub(latest.end).Seconds()*1000, latest.ev.Rev, end.Sub(w.addReturn).Seconds())
					return out
				}
			}
			// a live waiter whose revision was notified (notify returned, add had returned before the notify started) must be answered
			if w.cancelAt.IsZero() {
				for _, n := range notifs {
					if n.returned && n.ev.Table == w.ev.Table && n.ev.Rev >= w.ev.Rev && w.addReturn.Before(n.start) && end.Sub(n.end) > time.Second {
						out.fail = vt.Failf(prop+"/notified-waiter-unanswered", wi, "waiter (table %s, revision %d) was added before Notify(%d) and is still waiting %.1f s after that notification returned", w.ev.Table, w.ev.Rev, n.ev.Rev, end.Sub(n.end).Seconds())
						return out
					}
				}
			}
		}
	}
	// classification
	live, cancelled, rev0 := 0, 0, false
	for _, w := range waiters {
		if w.ev.Cancel > 0 {
			cancelled++
		} else {
			live++
		}
		if w.ev.Rev == 0 {
			rev0 = true
		}
	}
	if live > 0 && cancelled > 0 {
		out.labels = append(out.labels, "live-and-cancelled-waiters-coexist")
	}
	if rev0 {
		out.labels = append(out.labels, "revision-0-waiter")
	}
	out.nontrivial = (live > 0 && cancelled > 0) || rev0
	for _, w := range waiters {
		if w.cancelFunc != nil {
			w.cancelFunc()
		}
	}
	return out
}

var runRe = regexp.MustCompile(`(?s)goroutine (\d+) \[chan send[^\]]*\]:\n[^\n]*IndexNotificationQueue\)\.Run`)

// wedgedRunLoops returns the ids of queue event-loop goroutines parked in a channel send (a healthy loop only parks in select).
func wedgedRunLoops() map[string]bool {
	buf := make([]byte, 64<<20)
	n := runtime.Stack(buf, true)
	ids := map[string]bool{}
	for _, m := range runRe.FindAllStringSubmatch(string(buf[:n]), -1) {
		ids[m[1]] = true
	}
	return ids
}

func run(c Case, o *vt.Obs) *vt.Failure {
	outs := make([]outcome, len(c.Scenarios))
	var wg sync.WaitGroup
	for i := range c.Scenarios {
		wg.Add(1)
		go func(i int) {
			defer wg.Done()
			outs[i] = runScenario(c.Scenarios[i])
		}(i)
	}
	wg.Wait()
	o.Evals = len(c.Scenarios)
	anyStuck := -1
	for i, out := range outs {
		if out.fail != nil {
			out.fail.Case = Case{Scenarios: []Scenario{c.Scenarios[i]}}
			return out.fail
		}
		if out.stuck && anyStuck < 0 {
			anyStuck = i
		}
		for _, l := range out.labels {
			o.Label(l)
		}
		if out.nontrivial {
			o.SubNonTrivial(fmt.Sprintf("s%d", i))
		}
	}
	if anyStuck >= 0 {
		// timing-independent witness: the same event-loop goroutine is parked in a channel send in two dumps 1 s apart
		a := wedgedRunLoops()
		time.Sleep(1100 * time.Millisecond)
		b := wedgedRunLoops()
		for id := range a {
			if b[id] {
				f := vt.Failf(prop+"/event-loop-wedged", anyStuck, "%s did not return within 8 s and the queue's event loop (goroutine %s) is parked in a channel send: waiting/cancelled callers block notifications and statistics", outs[anyStuck].stuckWhat, id)
				f.Case = Case{Scenarios: []Scenario{c.Scenarios[anyStuck]}}
				return f
			}
		}
		vt.Inconclusive(fmt.Sprintf("C11: %s did not return within 8 s but no event loop is parked in a channel send", outs[anyStuck].stuckWhat))
	}
	o.Describe = func() string {
		return fmt.Sprintf("%d concurrent scenarios, first: %+v", len(c.Scenarios), c.Scenarios[0])
	}
	return nil
}

func TestC11(t *testing.T)        { vt.Check(t, prop, genCase, run) }
func TestC11Replay(t *testing.T)  { vt.Replay(t, prop, run) }
func TestC11Regress(t *testing.T) { vt.Regress(t, prop, "testdata", run) }

var _ = strings.Contains
