//go:build verif

package c11

// TestC11Order: the notification queue as an untimed state machine.  Add / Notify / Len are synchronous hand-overs to the queue's event
// loop, and a Len() call that returns proves every earlier request has been fully processed (one loop, one request at a time), so after
// "Notify(r); Len()" the set of answered waiters is a function of the history alone - no clock involved.  Many waiters per table with
// generated revisions in generated (non-monotonic) registration order: exercises the per-table priority queue far beyond what the timed
// scenarios of TestC11 reach (those spend their time budget waiting for the 1 s sweep).
// Oracle after every step: a live waiter is answered with success iff a notification >= its revision has been delivered for its table
// (before or after it registered); a waiter whose context ended may instead get its context error; nobody is answered twice; Len lies
// between the number of unanswered live waiters and the number of all unanswered waiters.

import (
	"context"
	"fmt"
	"sync"
	"testing"
	"time"

	"github.com/jamf/regatta/storage"
	"pgregory.net/rapid"

	"verifharness/internal/vt"
)

type OStep struct {
	Kind  string `json:"kind"` // add | notify | cancel | len | sweep (wait until the queue's 1 s sweep of ended contexts has run)
	Table string `json:"table"`
	Rev   uint64 `json:"rev,omitempty"`
	W     int    `json:"w,omitempty"` // cancel: index of the waiter (mod number of waiters)
}

type OrderCase struct {
	Steps []OStep `json:"steps"`
}

func genOrder(t *rapid.T) OrderCase {
	n := rapid.IntRange(4, 60).Draw(t, "steps")
	c := OrderCase{}
	last := map[string]uint64{}
	hi := uint64(rapid.SampledFrom([]int{8, 30, 200}).Draw(t, "revrange"))
	for i := 0; i < n; i++ {
		tb := rapid.SampledFrom([]string{"t", "t", "t", "u"}).Draw(t, "table")
		k := rapid.IntRange(0, 11).Draw(t, "kind")
		switch {
		case k <= 6:
			c.Steps = append(c.Steps, OStep{Kind: "add", Table: tb, Rev: uint64(rapid.Uint64Range(0, hi).Draw(t, "rev"))})
		case k <= 8:
			// notifications of a table come from its apply path: non-decreasing
			r := last[tb] + uint64(rapid.IntRange(0, 5).Draw(t, "advance"))
			last[tb] = r
			c.Steps = append(c.Steps, OStep{Kind: "notify", Table: tb, Rev: r})
		case k <= 9:
			c.Steps = append(c.Steps, OStep{Kind: "cancel", W: rapid.IntRange(0, 1000).Draw(t, "w")})
		default:
			c.Steps = append(c.Steps, OStep{Kind: "len", Table: tb})
		}
	}
	return c
}

type owaiter struct {
	table     string
	rev       uint64
	ch        <-chan error
	cancel    context.CancelFunc
	cancelled bool
	answered  bool
	addedAt   int
}

func runOrder(c OrderCase, o *vt.Obs) *vt.Failure {
	q := storage.NewNotificationQueue()
	go q.Run()
	defer q.Close()
	var ws []*owaiter
	defer func() {
		for _, w := range ws {
			w.cancel()
		}
	}()
	notified := map[string]uint64{}
	hasNotify := map[string]bool{}
	outOfOrder := 0
	swept := 0
	poll := func(step int) *vt.Failure {
		for i, w := range ws {
			if w.answered {
				select {
				case err, ok := <-w.ch:
					if ok {
						return vt.Failf(prop+"/second-answer", step, "waiter %d (table %s revision %d) received a second answer: %v", i, w.table, w.rev, err)
					}
				default:
				}
				continue
			}
			due := hasNotify[w.table] && w.rev <= notified[w.table]
			select {
			case err := <-w.ch:
				w.answered = true
				switch {
				case err == nil && !due:
					return vt.Failf(prop+"/acknowledged-without-notification", step, "waiter %d (table %s) of revision %d was acknowledged although the highest notification for the table is %d (any: %v)", i, w.table, w.rev, notified[w.table], hasNotify[w.table])
				case err != nil && !w.cancelled:
					return vt.Failf(prop+"/error-for-live-waiter", step, "waiter %d (table %s revision %d) with a live context received %v", i, w.table, w.rev, err)
				}
			default:
				if due && !w.cancelled {
					return vt.Failf(prop+"/applied-revision-not-acknowledged", step, "waiter %d (table %s, registered at step %d) waits for revision %d; revision %d has been notified for the table and the queue has processed it, but the waiter has not been answered (registration order of revisions on the table: %v)", i, w.table, w.addedAt, w.rev, notified[w.table], revsOf(ws, w.table))
				}
			}
		}
		return nil
	}
	for i, s := range c.Steps {
		switch s.Kind {
		case "add":
			ctx, cancel := context.WithCancel(context.Background())
			for _, w := range ws {
				if w.table == s.Table && !w.answered && w.rev > s.Rev {
					outOfOrder++
					break
				}
			}
			ws = append(ws, &owaiter{table: s.Table, rev: s.Rev, ch: q.Add(ctx, s.Table, s.Rev), cancel: cancel, addedAt: i})
		case "notify":
			q.Notify(s.Table, s.Rev)
			notified[s.Table], hasNotify[s.Table] = s.Rev, true
		case "cancel":
			if len(ws) > 0 {
				w := ws[s.W%len(ws)]
				w.cancel()
				w.cancelled = true
			}
		case "sweep":
			// the sweep runs on a hard-coded 1 s ticker.  Nothing is asserted about WHEN it runs: it is a perturbation of the queue's
			// internal state, after which the untimed oracle must go on holding.  (The loop picks at random among ready events, so a few
			// extra round trips make it very likely - not certain, and nothing depends on it - that a due sweep ran before we go on.)
			time.Sleep(1100 * time.Millisecond)
			for k := 0; k < 8; k++ {
				q.Len("t")
			}
			swept++
		}
		// barrier: the loop has finished everything handed to it before this call
		tb := s.Table
		if tb == "" {
			tb = "t"
		}
		unansweredBefore := 0
		for _, w := range ws {
			if w.table == tb && !w.answered {
				unansweredBefore++
			}
		}
		l := q.Len(tb)
		if f := poll(i); f != nil {
			return f
		}
		live := 0
		for _, w := range ws {
			if w.table == tb && !w.answered && !w.cancelled {
				live++
			}
		}
		if l < live || l > unansweredBefore {
			return vt.Failf(prop+"/queue-length", i, "Len(%s)=%d, but %d live waiters are unanswered and at most %d waiters were unanswered before the call", tb, l, live, unansweredBefore)
		}
	}
	o.NonTrivial = outOfOrder >= 2 && len(ws) >= 4
	if swept > 0 {
		cancelledN := 0
		for _, w := range ws {
			if w.cancelled {
				cancelledN++
			}
		}
		o.NonTrivial = cancelledN >= 1 && len(ws)-cancelledN >= 2
		o.Label("sweep-between-registrations-and-notifications")
	}
	if outOfOrder >= 2 {
		o.Label("waiters-registered-out-of-revision-order")
	}
	o.LabelN("waiters", len(ws))
	o.Describe = func() string { return fmt.Sprintf("%+v", c.Steps) }
	return nil
}

func revsOf(ws []*owaiter, table string) []uint64 {
	var out []uint64
	for _, w := range ws {
		if w.table == table {
			out = append(out, w.rev)
		}
	}
	return out
}

// ---- the same state machine with the 1 s sweep in the middle: many scenarios side by side (each is mostly sleeping) ------------------

type SweepCase struct {
	Scenarios []OrderCase `json:"scenarios"`
}

func genSweepScenario(t *rapid.T) OrderCase {
	c := OrderCase{}
	hi := uint64(rapid.SampledFrom([]int{8, 30}).Draw(t, "revrange"))
	// phase 1: waiters on one table in arbitrary revision order, some of them cancelled (anywhere in the priority queue)
	n := rapid.IntRange(3, 14).Draw(t, "waiters")
	for i := 0; i < n; i++ {
		c.Steps = append(c.Steps, OStep{Kind: "add", Table: "t", Rev: uint64(rapid.Uint64Range(1, hi).Draw(t, "rev"))})
	}
	k := rapid.IntRange(1, max(1, n/2)).Draw(t, "cancels")
	for i := 0; i < k; i++ {
		c.Steps = append(c.Steps, OStep{Kind: "cancel", W: rapid.IntRange(0, n-1).Draw(t, "w")})
	}
	c.Steps = append(c.Steps, OStep{Kind: "sweep"})
	// phase 2: more waiters, then notifications walking up through the revisions
	m := rapid.IntRange(0, 5).Draw(t, "late")
	for i := 0; i < m; i++ {
		c.Steps = append(c.Steps, OStep{Kind: "add", Table: "t", Rev: uint64(rapid.Uint64Range(1, hi).Draw(t, "rev"))})
	}
	r := uint64(0)
	for r < hi {
		r += uint64(rapid.IntRange(1, 4).Draw(t, "advance"))
		c.Steps = append(c.Steps, OStep{Kind: "notify", Table: "t", Rev: r})
	}
	return c
}

func genSweep(t *rapid.T) SweepCase {
	c := SweepCase{}
	for i := 0; i < 200; i++ {
		c.Scenarios = append(c.Scenarios, genSweepScenario(t))
	}
	return c
}

func runSweep(c SweepCase, o *vt.Obs) *vt.Failure {
	fails := make([]*vt.Failure, len(c.Scenarios))
	obs := make([]*vt.Obs, len(c.Scenarios))
	var wg sync.WaitGroup
	for i := range c.Scenarios {
		wg.Add(1)
		go func(i int) {
			defer wg.Done()
			obs[i] = &vt.Obs{}
			fails[i] = runOrder(c.Scenarios[i], obs[i])
		}(i)
	}
	wg.Wait()
	o.Evals = len(c.Scenarios)
	for i, f := range fails {
		if f != nil {
			f.Case = SweepCase{Scenarios: []OrderCase{c.Scenarios[i]}}
			return f
		}
	}
	for i, ob := range obs {
		if ob.NonTrivial {
			o.SubNonTrivial(fmt.Sprintf("s%d", i))
		}
	}
	o.Label("sweep-between-registrations-and-notifications")
	o.Describe = func() string { return fmt.Sprintf("%d scenarios, first: %+v", len(c.Scenarios), c.Scenarios[0].Steps) }
	return nil
}

func TestC11Sweep(t *testing.T)        { vt.Check(t, prop, genSweep, runSweep) }
func TestC11SweepReplay(t *testing.T)  { vt.Replay(t, prop, runSweep) }
func TestC11SweepRegress(t *testing.T) { vt.Regress(t, prop, "testdata", runSweep) }

func TestC11Order(t *testing.T)        { vt.Check(t, prop, genOrder, runOrder) }
func TestC11OrderReplay(t *testing.T)  { vt.Replay(t, prop, runOrder) }
func TestC11OrderRegress(t *testing.T) { vt.Regress(t, prop, "testdata", runOrder) }
