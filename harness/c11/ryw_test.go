//go:build verif

package c11

import (
	"bytes"
	"context"
	"fmt"
	"sync"
	"sync/atomic"
	"testing"
	"time"

	"github.com/jamf/regatta/regattapb"
	"pgregory.net/rapid"

	"verifharness/internal/enginefx"
	"verifharness/internal/model"
	"verifharness/internal/replfx"
	"verifharness/internal/vt"
)

// ---- read-your-writes through the follower API ------------------------------------------------------

type WOp struct {
	Kind string `json:"kind"` // put | delrange | txn | txn-empty-branch | restart-follower | reset-table | recover-table | leader-put | leader-delrange
	K    []byte `json:"k"`
	V    []byte `json:"v,omitempty"`
	End  []byte `json:"end,omitempty"`
	// delrange: the options of the request (the answer then carries a count / the previous pairs; seeded change C11-K: a forwarded delete
	// that found nothing to delete on the leader is acknowledged without waiting for the follower)
	Count  bool `json:"count,omitempty"`
	PrevKv bool `json:"prev_kv,omitempty"`
	// leader-put / leader-delrange: ANOTHER client writes to the leader cluster directly; the follower learns of it with its next poll
}

type RYWCase struct {
	PollMs int   `json:"poll_ms"`
	Ops    []WOp `json:"ops"`
}

var rywKeys = [][]byte{[]byte("a"), []byte("b"), []byte("c")}

func genRYW(t *rapid.T) RYWCase {
	c := RYWCase{PollMs: rapid.SampledFrom([]int{2, 10, 40}).Draw(t, "poll")}
	n := rapid.IntRange(1, 8).Draw(t, "n")
	if rapid.IntRange(0, 3).Draw(t, "aimed") == 0 {
		// aimed prefix: the follower holds a key, ANOTHER client changes it on the leader, and before the follower's next poll a write
		// that turns out to be a no-op on the leader (a delete of the key that is gone, a transaction whose executed branch is empty)
		// goes through the follower: it is acknowledged at a revision the follower has not applied yet - it has to wait for it
		k := rapid.SampledFrom(rywKeys).Draw(t, "aimed.k")
		c.PollMs = 40
		c.Ops = append(c.Ops, WOp{Kind: "put", K: k, V: []byte("aimed")})
		if rapid.Bool().Draw(t, "aimed.delete") {
			c.Ops = append(c.Ops, WOp{Kind: "leader-delrange", K: k},
				WOp{Kind: "delrange", K: k, Count: rapid.Bool().Draw(t, "aimed.count"), PrevKv: rapid.Bool().Draw(t, "aimed.prevkv")})
		} else {
			c.Ops = append(c.Ops, WOp{Kind: "leader-put", K: k, V: []byte("by-another-client")}, WOp{Kind: "txn-empty-branch", K: k, V: []byte("unused")})
		}
	}
	for i := 0; i < n; i++ {
		op := WOp{K: rapid.SampledFrom(rywKeys).Draw(t, "k"), V: []byte(fmt.Sprintf("v%d", i))}
		switch rapid.IntRange(0, 10).Draw(t, "kind") {
		case 10:
			op.Kind = "leader-put"
		case 9:
			op.Kind = "leader-delrange"
			op.End = rapid.SampledFrom([][]byte{nil, nil, {0}}).Draw(t, "end")
		case 8:
			// the follower's copy of the table is replaced by a snapshot recovery (what the worker does once the leader compacted its log)
			op.Kind = "recover-table"
		case 7:
			// an operator resets the follower's copy of the table (maintenance API): its recorded leader index goes back to 0 and the
			// worker replicates the table again from the start
			op.Kind = "reset-table"
		case 6:
			// the follower node restarts (its tables are re-opened) between two writes
			op.Kind = "restart-follower"
		case 0, 1, 2:
			op.Kind = "put"
		case 3:
			op.Kind = "delrange"
			op.End = rapid.SampledFrom([][]byte{nil, {0}, []byte("c")}).Draw(t, "end")
			op.Count, op.PrevKv = rapid.Bool().Draw(t, "count"), rapid.Bool().Draw(t, "prevkv")
		case 4:
			op.Kind = "txn"
		default:
			op.Kind = "txn-empty-branch"
		}
		c.Ops = append(c.Ops, op)
	}
	return c
}

var (
	rywOnce sync.Once
	rywPair *replfx.Pair
	rywErr  error
	rywNo   atomic.Int64
)

func runRYW(c RYWCase, o *vt.Obs) *vt.Failure {
	rywOnce.Do(func() {
		rywPair, rywErr = replfx.NewPair(replfx.Opts{Leader: enginefx.Opts{MaxInMemLogSize: 6 * 1024 * 1024}, Follower: enginefx.Opts{MaxInMemLogSize: 6 * 1024 * 1024}})
	})
	if rywErr != nil {
		vt.Inconclusive("C11 fixture: " + rywErr.Error())
		return nil
	}
	p := rywPair
	name := fmt.Sprintf("r%d", rywNo.Add(1))
	if _, err := p.L.CreateTable(name); err != nil {
		vt.Inconclusive("C11 create leader table: " + err.Error())
		return nil
	}
	defer replfx.DropTable(p.L, name)
	if _, err := p.F.CreateTable(name); err != nil {
		vt.Inconclusive("C11 create follower table: " + err.Error())
		return nil
	}
	defer replfx.DropTable(p.F, name)
	api, err := p.FollowerAPI()
	if err != nil {
		vt.Inconclusive("C11 follower API: " + err.Error())
		return nil
	}
	// the replication worker polls at the generated period (production: the worker's own ticker)
	var stop chan struct{}
	var wg sync.WaitGroup
	startPoller := func() {
		stop = make(chan struct{})
		wg.Add(1)
		go func(stop chan struct{}) {
			defer wg.Done()
			w := p.Worker(name, 2)
			for {
				select {
				case <-stop:
					return
				case <-time.After(time.Duration(c.PollMs) * time.Millisecond):
					_, _ = w.Poll()
				}
			}
		}(stop)
	}
	stopPoller := func() { close(stop); wg.Wait() }
	startPoller()
	defer func() { stopPoller() }()

	m := model.New()
	emptyBranch := 0
	restarts, resets, recoveries, direct := 0, 0, 0, 0
	for i, op := range c.Ops {
		if op.Kind == "reset-table" {
			tb, err := p.F.E.GetTable(name)
			if err == nil {
				ctx, cancel := context.WithTimeout(context.Background(), 15*time.Second)
				err = tb.Reset(ctx)
				cancel()
			}
			if err != nil {
				vt.Inconclusive("C11 table reset: " + err.Error())
				return nil
			}
			resets++
			continue
		}
		if op.Kind == "recover-table" {
			stopPoller()
			rerr := p.Worker(name, 2).Recover()
			if rerr == nil {
				rerr = p.F.WaitTablePatient(name, 20*time.Second)
			}
			startPoller()
			if rerr != nil {
				vt.Inconclusive("C11 table recovery: " + rerr.Error())
				return nil
			}
			recoveries++
			continue
		}
		if op.Kind == "restart-follower" {
			stopPoller()
			rerr := p.RestartFollower()
			if rerr == nil {
				rerr = p.F.WaitTablePatient(name, 20*time.Second)
			}
			if rerr == nil {
				api, rerr = p.FollowerAPI()
			}
			startPoller()
			if rerr != nil {
				vt.Inconclusive("C11 follower restart: " + rerr.Error())
				return nil
			}
			restarts++
			continue
		}
		if op.Kind == "leader-put" || op.Kind == "leader-delrange" {
			ctx, cancel := context.WithTimeout(context.Background(), 15*time.Second)
			var err error
			if op.Kind == "leader-put" {
				_, err = p.L.E.Put(ctx, &regattapb.PutRequest{Table: []byte(name), Key: op.K, Value: op.V})
				if err == nil {
					m.Put(op.K, op.V)
				}
			} else {
				_, err = p.L.E.Delete(ctx, &regattapb.DeleteRangeRequest{Table: []byte(name), Key: op.K, RangeEnd: op.End})
				if err == nil {
					if op.End == nil {
						m.Del(op.K)
					} else {
						m.DelRange(op.K, op.End)
					}
				}
			}
			cancel()
			if err != nil {
				vt.Inconclusive("C11 direct leader write: " + err.Error())
				return nil
			}
			direct++
			continue
		}
		ctx, cancel := context.WithTimeout(context.Background(), 15*time.Second)
		var err error
		var rev uint64
		switch op.Kind {
		case "put":
			var r *regattapb.PutResponse
			r, err = api.Put(ctx, &regattapb.PutRequest{Table: []byte(name), Key: op.K, Value: op.V})
			if err == nil {
				rev = r.Header.Revision
				m.Put(op.K, op.V)
			}
		case "delrange":
			var r *regattapb.DeleteRangeResponse
			r, err = api.DeleteRange(ctx, &regattapb.DeleteRangeRequest{Table: []byte(name), Key: op.K, RangeEnd: op.End, Count: op.Count, PrevKv: op.PrevKv})
			if err == nil {
				rev = r.Header.Revision
				if op.End == nil {
					m.Del(op.K)
				} else {
					m.DelRange(op.K, op.End)
				}
			}
		case "txn", "txn-empty-branch":
			cmp := []*regattapb.Compare{{Key: op.K}} // existence of the key
			put := []*regattapb.RequestOp{{Request: &regattapb.RequestOp_RequestPut{RequestPut: &regattapb.RequestOp_Put{Key: op.K, Value: op.V}}}}
			req := &regattapb.TxnRequest{Table: []byte(name), Compare: cmp, Success: put, Failure: put}
			if op.Kind == "txn-empty-branch" {
				// one branch empty; which branch is executed depends on the state - both outcomes are legal histories
				if _, exists := m.Get(op.K); exists {
					req.Success = nil
				} else {
					req.Failure = nil
				}
				emptyBranch++
			}
			var r *regattapb.TxnResponse
			r, err = api.Txn(ctx, req)
			if err == nil {
				rev = r.Header.Revision
				m.ApplyTxn(req.Compare, req.Success, req.Failure)
			}
		}
		cancel()
		if err != nil {
			return vt.Failf(prop+"/follower-write-not-acknowledged", i, "%s through the follower API failed: %v", op.Kind, err)
		}
		if rev == 0 {
			return vt.Failf(prop+"/follower-write-revision-zero", i, "%s through the follower API was acknowledged with revision 0", op.Kind)
		}
		// read-your-writes: an immediately following serializable read on the same node
		rctx, rcancel := context.WithTimeout(context.Background(), 10*time.Second)
		resp, err := api.Range(rctx, &regattapb.RangeRequest{Table: []byte(name), Key: []byte{0}, RangeEnd: []byte{0}})
		rcancel()
		if err != nil {
			return vt.Failf(prop+"/follower-read-error", i, "%v", err)
		}
		if len(resp.Kvs) != len(m.Pairs) {
			return vt.Failf(prop+"/read-your-writes", i, "after the acknowledged %s (revision %d) the follower shows %d pairs, expected %d", op.Kind, rev, len(resp.Kvs), len(m.Pairs))
		}
		for x, kv := range resp.Kvs {
			if !bytes.Equal(kv.Key, m.Pairs[x].K) || !bytes.Equal(kv.Value, m.Pairs[x].V) {
				return vt.Failf(prop+"/read-your-writes", i, "after the acknowledged %s (revision %d) the follower shows %q=%q, expected %q=%q", op.Kind, rev, kv.Key, kv.Value, m.Pairs[x].K, m.Pairs[x].V)
			}
		}
	}
	if emptyBranch > 0 {
		o.Label("txn-with-empty-executed-branch")
	}
	if restarts > 0 {
		o.Label("follower-restart-between-forwarded-writes")
	}
	if resets > 0 {
		o.Label("follower-table-reset-between-forwarded-writes")
	}
	if direct > 0 {
		o.Label("another-client-writes-to-the-leader-between-forwarded-writes")
	}
	if recoveries > 0 {
		o.Label("follower-table-recovered-from-snapshot-between-forwarded-writes")
	}
	o.NonTrivial = emptyBranch > 0 || len(c.Ops) >= 3
	o.Describe = func() string { return fmt.Sprintf("%+v", c) }
	return nil
}

func TestC11RYW(t *testing.T)        { vt.Check(t, prop, genRYW, runRYW) }
func TestC11RYWReplay(t *testing.T)  { vt.Replay(t, prop, runRYW) }
func TestC11RYWRegress(t *testing.T) { vt.Regress(t, prop, "testdata", runRYW) }
