//go:build verif

package c11

// TestC11Open: the notification queue fed by a REAL table state machine, as cmd/follower.go wires them (the table's applied-index
// listener is the queue's Notify), untimed like TestC11Order.  A follower table's history - replicated proposals carrying leader
// indices, an operator's reset (a no-op command with leader index 0), close + reopen of the table (node restart) - is applied to the
// state machine; in between, waiters for generated revisions register.  Oracle: a waiter is answered at once iff its revision is at or
// below the leader index the table records at that moment (what "the node has applied a leader index at or beyond the write's revision"
// means); otherwise it stays unanswered until the table applies such an index.  The table's LOCAL raft index (which after a reset or a
// recovery is unrelated to, and can exceed, the leader index) must never release anybody.

import (
	"context"
	"fmt"
	"testing"

	"github.com/jamf/regatta/regattapb"
	"github.com/jamf/regatta/storage"
	"github.com/jamf/regatta/storage/table/fsm"
	"pgregory.net/rapid"

	"verifharness/internal/fsmx"
	"verifharness/internal/vt"
)

type OpenStep struct {
	Kind string `json:"kind"` // apply (N entries, the last one carries leader index Leader) | reset | reopen | add (Rev)
	N    int    `json:"n,omitempty"`
	Lead uint64 `json:"lead,omitempty"`
	Rev  uint64 `json:"rev,omitempty"`
}

type OpenCase struct {
	Steps []OpenStep `json:"steps"`
}

func genOpen(t *rapid.T) OpenCase {
	c := OpenCase{}
	lead := uint64(0)
	c.Steps = append(c.Steps, OpenStep{Kind: "apply", N: 1, Lead: 1}) // a follower table: its first proposal carries a leader index
	lead = 1
	for i, n := 0, rapid.IntRange(3, 30).Draw(t, "n"); i < n; i++ {
		switch k := rapid.IntRange(0, 9).Draw(t, "kind"); {
		case k <= 2:
			lead += uint64(rapid.IntRange(1, 4).Draw(t, "advance"))
			c.Steps = append(c.Steps, OpenStep{Kind: "apply", N: rapid.IntRange(1, 3).Draw(t, "entries"), Lead: lead})
		case k == 3:
			c.Steps = append(c.Steps, OpenStep{Kind: "reset"})
			lead = 0
		case k <= 5:
			c.Steps = append(c.Steps, OpenStep{Kind: "reopen"})
		default:
			c.Steps = append(c.Steps, OpenStep{Kind: "add", Rev: uint64(rapid.IntRange(0, int(lead)+6).Draw(t, "rev"))})
		}
	}
	return c
}

func runOpen(c OpenCase, o *vt.Obs) *vt.Failure {
	q := storage.NewNotificationQueue()
	go q.Run()
	defer q.Close()
	const tbl = "t"
	r := fsmx.Create(fsmx.NewFS(), fsm.RecoveryTypeCheckpoint, 1)
	r.Applied = func(i uint64) { q.Notify(tbl, i) }
	if _, err := r.Open(); err != nil {
		return vt.Failf(prop+"/open-error", 0, "%v", err)
	}
	defer func() { _ = r.Close() }()
	type waiter struct {
		rev  uint64
		ch   <-chan error
		done bool
		step int
	}
	var waiters []*waiter
	lead := uint64(0) // the leader index the table records (model)
	next := uint64(1) // next local raft index
	resets, reopens, localAhead := 0, 0, false
	ctx, cancel := context.WithCancel(context.Background())
	defer cancel()
	settle := func(step int, what string) *vt.Failure {
		_ = q.Len(tbl) // everything handed to the loop before has been processed
		for _, w := range waiters {
			if w.done {
				continue
			}
			select {
			case err := <-w.ch:
				w.done = true
				if err != nil {
					return vt.Failf(prop+"/waiter-error", step, "waiter for revision %d answered with %v", w.rev, err)
				}
				if w.rev > lead {
					return vt.Failf(prop+"/acknowledged-before-applied", step, "after %s: the waiter for revision %d (registered at step %d) was released although the table records leader index %d (its local raft index is %d): a write with that revision would be acknowledged before the node has applied it", what, w.rev, w.step, lead, next-1)
				}
			default:
				if w.rev <= lead {
					return vt.Failf(prop+"/applied-revision-not-acknowledged", step, "after %s: the waiter for revision %d (registered at step %d) is still waiting although the table records leader index %d", what, w.rev, w.step, lead)
				}
			}
		}
		return nil
	}
	for i, s := range c.Steps {
		switch s.Kind {
		case "apply":
			var cmds [][]byte
			for j := 0; j < s.N; j++ {
				cmd := &regattapb.Command{Table: []byte(tbl), Type: regattapb.Command_PUT, Kv: &regattapb.KeyValue{Key: []byte(fmt.Sprintf("k%d", i)), Value: []byte("v")}}
				if j == s.N-1 {
					li := s.Lead
					cmd.LeaderIndex = &li
				}
				b, _ := cmd.MarshalVT()
				cmds = append(cmds, b)
			}
			// one proposal = one entry; the worker's proposals each carry a leader index, so apply them one call per entry except the last
			// entries of a burst which share a call
			if _, err := r.Apply(fsmx.MkEntries(next, cmds)); err != nil {
				return vt.Failf(prop+"/apply-error", i, "%v", err)
			}
			next += uint64(len(cmds))
			lead = s.Lead
		case "reset":
			li := uint64(0)
			b, _ := (&regattapb.Command{Table: []byte(tbl), Type: regattapb.Command_DUMMY, LeaderIndex: &li}).MarshalVT()
			if _, err := r.Apply(fsmx.MkEntries(next, [][]byte{b})); err != nil {
				return vt.Failf(prop+"/apply-error", i, "%v", err)
			}
			next++
			lead = 0
			resets++
		case "reopen":
			if _, err := r.Reopen(); err != nil {
				return vt.Failf(prop+"/open-error", i, "%v", err)
			}
			reopens++
			if next-1 > lead {
				localAhead = true
			}
		case "add":
			waiters = append(waiters, &waiter{rev: s.Rev, ch: q.Add(ctx, tbl, s.Rev), step: i})
		}
		if f := settle(i, s.Kind); f != nil {
			return f
		}
	}
	if resets > 0 {
		o.Label("table-reset")
	}
	if localAhead {
		o.Label("reopened-with-the-local-index-ahead-of-the-leader-index")
	}
	o.NonTrivial = localAhead && len(waiters) > 0
	o.Describe = func() string { return fmt.Sprintf("%+v", c.Steps) }
	return nil
}

func TestC11Open(t *testing.T)        { vt.Check(t, prop, genOpen, runOpen) }
func TestC11OpenReplay(t *testing.T)  { vt.Replay(t, prop, runOpen) }
func TestC11OpenRegress(t *testing.T) { vt.Regress(t, prop, "testdata", runOpen) }
