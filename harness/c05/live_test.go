//go:build verif

package c05

// TestC05Live: the production replication loop, unstepped.  A real replication.Manager is STARTED on a fresh follower engine (its own
// reconcile goroutine, real workers with their lease / stats / replication goroutines, throttle, recovery semaphore) against the shared
// leader's Log/Snapshot/Metadata services; a writer goroutine performs generated leader operations (incl. non-idempotent transactions,
// log compactions that force snapshot recovery, follower engine restarts) while a sampler goroutine keeps reading
// (recorded leader index, full content, recorded leader index) from the follower.  All samples are judged after the run against the
// leader's state per revision: "at every moment the content equals the leader's content as of the recorded index; the index never
// moves backwards".  Timing only influences WHAT is sampled, never the verdict; failing to converge within the time budget is
// reported as inconclusive (bounded convergence under a harness-owned schedule is TestC05's job).

import (
	"bytes"
	"context"
	"fmt"
	"os"
	"sync"
	"sync/atomic"
	"testing"
	"time"

	"github.com/jamf/regatta/regattapb"
	"github.com/jamf/regatta/replication"
	"github.com/jamf/regatta/storage"
	"github.com/lni/dragonboat/v4"
	"go.uber.org/zap"
	"pgregory.net/rapid"

	"verifharness/internal/enginefx"
	"verifharness/internal/model"
	"verifharness/internal/replfx"
	"verifharness/internal/vt"
)

type LiveCase struct {
	PollMs      int   `json:"poll_ms"`
	LeaseMs     int   `json:"lease_ms"`
	ReconcileMs int   `json:"reconcile_ms"`
	Server      int   `json:"server"`
	GapUs       int   `json:"gap_us"` // writer pause between operations
	Acts        []Act `json:"acts"`   // put | del | delrange | txn | compact | sleep | restart-follower
}

func genLive(t *rapid.T) LiveCase {
	c := LiveCase{
		PollMs:      rapid.SampledFrom([]int{3, 10, 30}).Draw(t, "poll"),
		LeaseMs:     rapid.SampledFrom([]int{10, 25}).Draw(t, "lease"),
		ReconcileMs: rapid.SampledFrom([]int{20, 60}).Draw(t, "reconcile"),
		Server:      rapid.IntRange(0, len(replfx.LogSizes)-1).Draw(t, "server"),
		GapUs:       rapid.SampledFrom([]int{0, 0, 200, 2000}).Draw(t, "gap"),
	}
	n := rapid.IntRange(10, 120).Draw(t, "n")
	for i := 0; i < n; i++ {
		k := rapid.IntRange(0, 29).Draw(t, "kind")
		switch {
		case k <= 9:
			v := rapid.SliceOfN(rapid.Byte(), 0, 12).Draw(t, "v")
			switch rapid.IntRange(0, 7).Draw(t, "bigv") {
			case 0:
				v = bytes.Repeat([]byte{'x'}, rapid.IntRange(200, 3000).Draw(t, "vlen"))
			case 1:
				// several of these in one replication response exceed the size at which the worker splits its proposals (256 KiB)
				v = bytes.Repeat([]byte{'X'}, rapid.IntRange(60, 150).Draw(t, "vKiB")*1024)
			}
			c.Acts = append(c.Acts, Act{Kind: "put", K: rapid.SampledFrom(keys).Draw(t, "k"), V: v})
		case k <= 11:
			c.Acts = append(c.Acts, Act{Kind: "del", K: rapid.SampledFrom(keys).Draw(t, "k")})
		case k == 12:
			c.Acts = append(c.Acts, Act{Kind: "delrange", K: rapid.SampledFrom(keys).Draw(t, "k"), End: rapid.SampledFrom([][]byte{{0}, []byte("c"), []byte("zz")}).Draw(t, "end")})
		case k <= 22:
			c.Acts = append(c.Acts, Act{Kind: "txn", N: rapid.IntRange(0, 3).Draw(t, "digit")})
		case k <= 24:
			c.Acts = append(c.Acts, Act{Kind: "compact", N: rapid.IntRange(0, 3).Draw(t, "keep")})
		case k <= 27:
			c.Acts = append(c.Acts, Act{Kind: "sleep", N: rapid.SampledFrom([]int{1, 5, 20, 60}).Draw(t, "ms")})
		case k == 28:
			c.Acts = append(c.Acts, Act{Kind: "restart-follower"})
		default:
			c.Acts = append(c.Acts, Act{Kind: "compact", N: 0})
		}
	}
	return c
}

type liveSample struct {
	shard   uint64
	l1, l2  uint64
	content []model.Pair
	seq     int
}

type liveFollower struct {
	mu  sync.RWMutex
	fx  *enginefx.Fixture
	mgr *replication.Manager
	q   *storage.IndexNotificationQueue
}

func (lf *liveFollower) startManager(p *replfx.Pair, c LiveCase) error {
	lf.mgr = replication.NewManager(lf.fx.E, lf.q, p.Conns[c.Server%len(p.Conns)], replication.Config{
		ReconcileInterval: time.Duration(c.ReconcileMs) * time.Millisecond,
		Workers: replication.WorkerConfig{
			PollInterval: time.Duration(c.PollMs) * time.Millisecond, LeaseInterval: time.Duration(c.LeaseMs) * time.Millisecond,
			LogRPCTimeout: 30 * time.Second, SnapshotRPCTimeout: 60 * time.Second, MaxRecoveryInFlight: 1,
		},
	})
	return lf.mgr.Start()
}

func runLive(c LiveCase, o *vt.Obs) *vt.Failure {
	if err := sharedPair(); err != nil {
		vt.Inconclusive("C05 fixture: " + err.Error())
		return nil
	}
	p := pair
	if os.Getenv("VERIF_DEBUG_ZAP") != "" {
		l, _ := zap.NewDevelopment()
		zap.ReplaceGlobals(l)
	}
	name := fmt.Sprintf("live%d", caseNo.Add(1))
	lt, err := p.L.CreateTable(name)
	if err != nil {
		vt.Inconclusive("C05 create leader table: " + err.Error())
		return nil
	}
	defer replfx.DropTable(p.L, name)

	lf := &liveFollower{q: storage.NewNotificationQueue()}
	go lf.q.Run()
	defer lf.q.Close()
	lf.fx, err = enginefx.Start(enginefx.Opts{NodeID: 1, MaxInMemLogSize: 6 * 1024 * 1024, Applied: lf.q.Notify})
	if err != nil {
		vt.Inconclusive("C05 live follower engine: " + err.Error())
		return nil
	}
	defer func() {
		lf.mu.Lock()
		if lf.mgr != nil {
			lf.mgr.Close()
		}
		_ = lf.fx.Stop()
		lf.mu.Unlock()
	}()
	// (the table manager's own timers stay at their production values: Restore derives its deadline from the reconcile interval)
	if err := lf.startManager(p, c); err != nil {
		vt.Inconclusive("C05 live replication manager: " + err.Error())
		return nil
	}

	// sampler
	var samples []liveSample
	var smu sync.Mutex
	stop := make(chan struct{})
	var sampled atomic.Int64
	var wg sync.WaitGroup
	wg.Add(1)
	go func() {
		defer wg.Done()
		seq := 0
		for {
			select {
			case <-stop:
				return
			default:
			}
			lf.mu.RLock()
			e := lf.fx.E
			var s liveSample
			ok := false
			if e != nil {
				if _, l1, err := replfx.Indices(e, name); err == nil {
					ctx, cancel := context.WithTimeout(context.Background(), 5*time.Second)
					resp, err := e.Range(ctx, &regattapb.RangeRequest{Table: []byte(name), Key: []byte{0}, RangeEnd: []byte{0}})
					cancel()
					if err == nil && !resp.More {
						if _, l2, err := replfx.Indices(e, name); err == nil {
							s = liveSample{l1: l1, l2: l2}
							if tb, err := e.GetTable(name); err == nil {
								s.shard = tb.ClusterID
							}
							for _, kv := range resp.Kvs {
								s.content = append(s.content, model.Pair{K: kv.Key, V: kv.Value})
							}
							ok = true
						}
					}
				}
			}
			lf.mu.RUnlock()
			if ok {
				seq++
				s.seq = seq
				smu.Lock()
				samples = append(samples, s)
				smu.Unlock()
				sampled.Add(1)
			}
			time.Sleep(300 * time.Microsecond)
		}
	}()
	finish := func() { close(stop); wg.Wait() }

	// writer
	m := model.New()
	h := &history{}
	record := func(rev uint64) {
		h.revs = append(h.revs, rev)
		h.states = append(h.states, m.Clone())
	}
	ctxT := func() (context.Context, context.CancelFunc) {
		return context.WithTimeout(context.Background(), 30*time.Second)
	}
	compactions, restarts, txns := 0, 0, 0
	for i, a := range c.Acts {
		switch a.Kind {
		case "put":
			ctx, cancel := ctxT()
			r, err := p.L.E.Put(ctx, &regattapb.PutRequest{Table: []byte(name), Key: a.K, Value: a.V})
			cancel()
			if err != nil {
				finish()
				vt.Inconclusive("C05 live leader write: " + err.Error())
				return nil
			}
			m.Put(a.K, a.V)
			record(r.Header.Revision)
		case "del", "delrange":
			ctx, cancel := ctxT()
			req := &regattapb.DeleteRangeRequest{Table: []byte(name), Key: a.K}
			if a.Kind == "delrange" {
				req.RangeEnd = a.End
			}
			r, err := p.L.E.Delete(ctx, req)
			cancel()
			if err != nil {
				finish()
				vt.Inconclusive("C05 live leader write: " + err.Error())
				return nil
			}
			if a.Kind == "delrange" {
				m.DelRange(a.K, a.End)
			} else {
				m.Del(a.K)
			}
			record(r.Header.Revision)
		case "txn":
			cmp := []*regattapb.Compare{{Key: []byte("ctr"), Result: regattapb.Compare_EQUAL, TargetUnion: &regattapb.Compare_Value{Value: digit(a.N)}}}
			succ := []*regattapb.RequestOp{{Request: &regattapb.RequestOp_RequestPut{RequestPut: &regattapb.RequestOp_Put{Key: []byte("ctr"), Value: digit(a.N + 1)}}}}
			fail := []*regattapb.RequestOp{
				{Request: &regattapb.RequestOp_RequestPut{RequestPut: &regattapb.RequestOp_Put{Key: []byte("ctr"), Value: digit(0)}}},
				{Request: &regattapb.RequestOp_RequestPut{RequestPut: &regattapb.RequestOp_Put{Key: []byte("n"), Value: []byte(fmt.Sprintf("%d", i))}}},
			}
			ctx, cancel := ctxT()
			r, err := p.L.E.Txn(ctx, &regattapb.TxnRequest{Table: []byte(name), Compare: cmp, Success: succ, Failure: fail})
			cancel()
			if err != nil {
				finish()
				vt.Inconclusive("C05 live leader write: " + err.Error())
				return nil
			}
			m.ApplyTxn(cmp, succ, fail)
			record(r.Header.Revision)
			txns++
		case "compact":
			ctx, cancel := ctxT()
			_, err := p.L.E.NodeHost.SyncRequestSnapshot(ctx, lt.ClusterID, dragonboat.SnapshotOption{OverrideCompactionOverhead: true, CompactionOverhead: uint64(a.N)})
			cancel()
			if err == nil {
				compactions++
			}
		case "sleep":
			time.Sleep(time.Duration(a.N) * time.Millisecond)
		case "restart-follower":
			lf.mu.Lock()
			lf.mgr.Close()
			lf.mgr = nil
			rerr := lf.fx.Restart()
			if rerr == nil {
				// the table shards are (re)started by the table manager's reconcile loop (every 30 s in production); run one round now
				rerr = lf.fx.E.Manager.VerifReconcile()
			}
			if rerr == nil {
				rerr = lf.startManager(p, c)
			}
			lf.mu.Unlock()
			if rerr != nil {
				finish()
				vt.Inconclusive("C05 live follower restart: " + rerr.Error())
				return nil
			}
			restarts++
		}
		if c.GapUs > 0 {
			time.Sleep(time.Duration(c.GapUs) * time.Microsecond)
		}
	}
	// leader quiet: wait for convergence (time budget -> inconclusive)
	leaderLocal, _, err := replfx.Indices(p.L.E, name)
	if err != nil {
		finish()
		vt.Inconclusive("C05 live leader index: " + err.Error())
		return nil
	}
	deadline := time.Now().Add(90 * time.Second)
	converged := false
	for time.Now().Before(deadline) {
		lf.mu.RLock()
		_, fl, err := replfx.Indices(lf.fx.E, name)
		lf.mu.RUnlock()
		if err == nil && fl >= leaderLocal {
			converged = true
			break
		}
		time.Sleep(5 * time.Millisecond)
	}
	time.Sleep(5 * time.Millisecond)
	finish()
	var final []model.Pair
	var finalIdx uint64
	if converged {
		lf.mu.RLock()
		_, finalIdx, _ = replfx.Indices(lf.fx.E, name)
		final, err = replfx.ReadAll(lf.fx.E, name, true)
		lf.mu.RUnlock()
		if err != nil {
			vt.Inconclusive("C05 live final read: " + err.Error())
			return nil
		}
	}
	// judge the samples
	prev := uint64(0)
	mid, distinctIdx := 0, map[uint64]bool{}
	shards := map[uint64]bool{}
	for _, s := range samples {
		if s.shard != 0 {
			shards[s.shard] = true
		}
		if s.l1 == s.l2 {
			if err := samePairs(s.content, h.at(s.l1).Pairs); err != nil {
				return vt.Failf(prop+"/follower-differs-at-recorded-index", 0, "live replication (poll %d ms, log server %d, %d compactions, %d follower restarts): sample %d of %d - the follower recorded leader index %d (before and after the read) but its content is not the leader's content at that index: %v",
					c.PollMs, c.Server, compactions, restarts, s.seq, len(samples), s.l1, err)
			}
			distinctIdx[s.l1] = true
			if s.l1 > 0 && s.l1 < leaderLocal {
				mid++
			}
		}
		if s.l1 < prev {
			return vt.Failf(prop+"/leader-index-went-backwards", 0, "live replication: sample %d: recorded leader index went from %d to %d", s.seq, prev, s.l1)
		}
		if s.l2 < s.l1 {
			return vt.Failf(prop+"/leader-index-went-backwards", 0, "live replication: sample %d: recorded leader index went from %d to %d within one sample", s.seq, s.l1, s.l2)
		}
		prev = s.l2
	}
	if !converged {
		// a time budget that ran out: the samples have been judged, the final comparison is skipped (bounded convergence under a
		// harness-owned schedule is asserted by TestC05)
		o.Label("live-not-converged-within-the-time-budget(final comparison skipped)")
		o.Describe = func() string { return fmt.Sprintf("live, not converged: %d samples", len(samples)) }
		return nil
	}
	if finalIdx > leaderLocal {
		return vt.Failf(prop+"/follower-ahead-of-leader", 0, "follower records leader index %d, the leader's applied index is %d", finalIdx, leaderLocal)
	}
	if err := samePairs(final, m.Pairs); err != nil {
		return vt.Failf(prop+"/final-state-differs", 0, "live replication: leader quiet at index %d, follower caught up to %d: %v", leaderLocal, finalIdx, err)
	}
	o.LabelN("live-samples", len(samples))
	if mid > 0 {
		o.Label("live-mid-replication-sample")
	}
	if compactions > 0 {
		o.Label("live-leader-compaction")
	}
	if len(shards) > 1 {
		o.Label("live-snapshot-recovery-observed") // the table was replaced by a restored one while being sampled
	}
	if restarts > 0 {
		o.Label("live-follower-restart")
	}
	o.NonTrivial = len(distinctIdx) >= 3 && txns >= 2
	o.Describe = func() string {
		return fmt.Sprintf("live poll=%dms lease=%dms reconcile=%dms server=%d gap=%dus: %d acts (%d txns, %d compactions, %d restarts), %d samples at %d distinct recorded indices", c.PollMs, c.LeaseMs, c.ReconcileMs, c.Server, c.GapUs, len(c.Acts), txns, compactions, restarts, len(samples), len(distinctIdx))
	}
	return nil
}

func TestC05Live(t *testing.T)        { vt.Check(t, prop, genLive, runLive) }
func TestC05LiveReplay(t *testing.T)  { vt.Replay(t, prop, runLive) }
func TestC05LiveRegress(t *testing.T) { vt.Regress(t, prop, "testdata", runLive) }
