//go:build verif

package c05

// TestC05Handover: replication into a follower CLUSTER of three nodes with the lease handed from node to node - stepped, so that the
// workers of different nodes NEVER overlap (the harness decides whose worker polls next; one iteration of the worker's replication
// routine at a time, as in TestC05).  A node can be held back: every apply call of its copy of the table takes some milliseconds
// longer, so it applies what the other nodes already have a little later.  Whatever node polls next - also one whose own copy is
// behind - every leader command must take effect on the follower exactly once and in leader order: after every step, on every node,
// the content of the node's copy is the leader's content at the leader index that copy records, and the index never moves backwards.

import (
	"context"
	"fmt"
	"sync"
	"sync/atomic"
	"testing"
	"time"

	"github.com/jamf/regatta/regattapb"
	"github.com/jamf/regatta/replication"
	"github.com/jamf/regatta/storage"
	"pgregory.net/rapid"

	"verifharness/internal/enginefx"
	"verifharness/internal/model"
	"verifharness/internal/replfx"
	"verifharness/internal/vt"
)

type HandoverCase struct {
	StallMs int   `json:"stall_ms"`
	Acts    []Act `json:"acts"` // put | del | txn | poll (N: node*10 + log server) | hold-back (N: node, 3 = nobody)
}

func genHandover(t *rapid.T) HandoverCase {
	c := HandoverCase{StallMs: rapid.SampledFrom([]int{5, 20, 50}).Draw(t, "stall")}
	n := rapid.IntRange(6, 40).Draw(t, "n")
	poll := func() Act {
		return Act{Kind: "poll", N: rapid.IntRange(0, 2).Draw(t, "node")*10 + rapid.IntRange(0, len(replfx.LogSizes)-1).Draw(t, "server")}
	}
	for i := 0; i < n; i++ {
		k := rapid.IntRange(0, 19).Draw(t, "kind")
		switch {
		case k <= 2:
			c.Acts = append(c.Acts, Act{Kind: "put", K: rapid.SampledFrom(keys[:6]).Draw(t, "k"), V: rapid.SliceOfN(rapid.Byte(), 0, 12).Draw(t, "v")})
		case k == 3:
			c.Acts = append(c.Acts, Act{Kind: "del", K: rapid.SampledFrom(keys[:6]).Draw(t, "k")})
		case k <= 10:
			c.Acts = append(c.Acts, Act{Kind: "txn", N: rapid.IntRange(0, 3).Draw(t, "digit")})
		case k <= 15:
			c.Acts = append(c.Acts, poll())
		case k <= 17:
			c.Acts = append(c.Acts, Act{Kind: "hold-back", N: rapid.IntRange(0, 3).Draw(t, "hold")})
		default:
			// the pattern: a node falls behind, another node's worker replicates a few commands, then the lagging node's worker takes over
			b := rapid.IntRange(0, 2).Draw(t, "behind")
			c.Acts = append(c.Acts, Act{Kind: "hold-back", N: b})
			for j, nt := 0, rapid.IntRange(1, 4).Draw(t, "burst"); j < nt; j++ {
				c.Acts = append(c.Acts, Act{Kind: "txn", N: rapid.IntRange(0, 3).Draw(t, "digit")})
			}
			c.Acts = append(c.Acts, Act{Kind: "poll", N: ((b+1+rapid.IntRange(0, 1).Draw(t, "other"))%3)*10 + 2}, Act{Kind: "poll", N: b*10 + 2})
		}
	}
	return c
}

var (
	hoOnce  sync.Once
	hoFx    []*enginefx.Fixture
	hoErr   error
	hoStall atomic.Pointer[clusterStall]
	hoQ     []*storage.IndexNotificationQueue
)

func runHandover(c HandoverCase, o *vt.Obs) *vt.Failure {
	if err := sharedPair(); err != nil {
		vt.Inconclusive("C05 fixture: " + err.Error())
		return nil
	}
	p := pair
	hoOnce.Do(func() {
		for i := 0; i < 3; i++ {
			q := storage.NewNotificationQueue()
			go q.Run()
			hoQ = append(hoQ, q)
		}
		hoFx, hoErr = enginefx.StartCluster(3, enginefx.Opts{MaxInMemLogSize: 6 * 1024 * 1024, AppliedNode: func(node int, table string, rev uint64) {
			hoQ[node].Notify(table, rev)
			if sp := hoStall.Load(); sp != nil && sp.table == table && sp.node.Load() == int64(node) {
				time.Sleep(sp.d)
			}
		}})
	})
	if hoErr != nil {
		vt.Inconclusive("C05 follower cluster: " + hoErr.Error())
		return nil
	}
	name := fmt.Sprintf("ho%d", caseNo.Add(1))
	if _, err := p.L.CreateTable(name); err != nil {
		vt.Inconclusive("C05 create leader table: " + err.Error())
		return nil
	}
	defer replfx.DropTable(p.L, name)
	if _, err := enginefx.ClusterCreateTable(hoFx, name, 60*time.Second); err != nil {
		vt.Inconclusive("C05 follower cluster table: " + err.Error())
		return nil
	}
	defer enginefx.ClusterDropTable(hoFx, name)
	st := &clusterStall{table: name, d: time.Duration(c.StallMs) * time.Millisecond}
	st.node.Store(-1)
	hoStall.Store(st)
	defer hoStall.Store(nil)

	// one stepped worker per (node, log server), built by the real factory
	workers := map[int]*replication.VerifWorker{}
	worker := func(node, srv int) *replication.VerifWorker {
		k := node*10 + srv
		if workers[k] == nil {
			m := replication.NewManager(hoFx[node].E, hoQ[node], p.Conns[srv%len(p.Conns)], replication.Config{ReconcileInterval: time.Hour, Workers: replication.WorkerConfig{
				PollInterval: time.Hour, LeaseInterval: time.Hour, LogRPCTimeout: 30 * time.Second, SnapshotRPCTimeout: 60 * time.Second, MaxRecoveryInFlight: 1}})
			workers[k] = m.VerifWorker(name)
		}
		return workers[k]
	}
	m := model.New()
	h := &history{}
	record := func(rev uint64) {
		h.revs = append(h.revs, rev)
		h.states = append(h.states, m.Clone())
	}
	local := func(node int) (uint64, error) {
		tb, err := hoFx[node].E.GetTable(name)
		if err != nil {
			return 0, err
		}
		ctx, cancel := context.WithTimeout(context.Background(), 10*time.Second)
		defer cancel()
		r, err := tb.LeaderIndex(ctx, false)
		if err != nil {
			return 0, err
		}
		return r.Index, nil
	}
	prev := map[int]uint64{}
	staleTakeover := false
	check := func(step int, what string) *vt.Failure {
		for node := 0; node < 3; node++ {
			l1, err := local(node)
			if err != nil {
				return vt.Failf(prop+"/follower-read-error", step, "%s: node %d: %v", what, node+1, err)
			}
			ctx, cancel := context.WithTimeout(context.Background(), 10*time.Second)
			resp, err := hoFx[node].E.Range(ctx, &regattapb.RangeRequest{Table: []byte(name), Key: []byte{0}, RangeEnd: []byte{0}})
			cancel()
			if err != nil {
				return vt.Failf(prop+"/follower-read-error", step, "%s: node %d: %v", what, node+1, err)
			}
			l2, err := local(node)
			if err != nil {
				return vt.Failf(prop+"/follower-read-error", step, "%s: node %d: %v", what, node+1, err)
			}
			if l1 == l2 && !resp.More {
				var got []model.Pair
				for _, kv := range resp.Kvs {
					got = append(got, model.Pair{K: kv.Key, V: kv.Value})
				}
				if err := samePairs(got, h.at(l1).Pairs); err != nil {
					return vt.Failf(prop+"/follower-differs-at-recorded-index", step, "after %s: node %d of the follower cluster records leader index %d but the content of its copy is not the leader's content at that index: %v", what, node+1, l1, err)
				}
			}
			if l1 < prev[node] || l2 < l1 {
				return vt.Failf(prop+"/leader-index-went-backwards", step, "after %s: on node %d of the follower cluster the recorded leader index went from %d to %d (then %d)", what, node+1, prev[node], l1, l2)
			}
			prev[node] = l2
		}
		return nil
	}
	ctxT := func() (context.Context, context.CancelFunc) {
		return context.WithTimeout(context.Background(), 30*time.Second)
	}
	polls, txns := 0, 0
	lastNode := -1
	handovers := 0
	for i, a := range c.Acts {
		switch a.Kind {
		case "put":
			ctx, cancel := ctxT()
			r, err := p.L.E.Put(ctx, &regattapb.PutRequest{Table: []byte(name), Key: a.K, Value: a.V})
			cancel()
			if err != nil {
				return vt.Failf(prop+"/leader-write-error", i, "%v", err)
			}
			m.Put(a.K, a.V)
			record(r.Header.Revision)
		case "del":
			ctx, cancel := ctxT()
			r, err := p.L.E.Delete(ctx, &regattapb.DeleteRangeRequest{Table: []byte(name), Key: a.K})
			cancel()
			if err != nil {
				return vt.Failf(prop+"/leader-write-error", i, "%v", err)
			}
			m.Del(a.K)
			record(r.Header.Revision)
		case "txn":
			cmp := []*regattapb.Compare{{Key: []byte("ctr"), Result: regattapb.Compare_EQUAL, TargetUnion: &regattapb.Compare_Value{Value: digit(a.N)}}}
			succ := []*regattapb.RequestOp{{Request: &regattapb.RequestOp_RequestPut{RequestPut: &regattapb.RequestOp_Put{Key: []byte("ctr"), Value: digit(a.N + 1)}}}}
			fail := []*regattapb.RequestOp{
				{Request: &regattapb.RequestOp_RequestPut{RequestPut: &regattapb.RequestOp_Put{Key: []byte("ctr"), Value: digit(0)}}},
				{Request: &regattapb.RequestOp_RequestPut{RequestPut: &regattapb.RequestOp_Put{Key: []byte("n"), Value: []byte(fmt.Sprintf("%d", i))}}},
			}
			ctx, cancel := ctxT()
			r, err := p.L.E.Txn(ctx, &regattapb.TxnRequest{Table: []byte(name), Compare: cmp, Success: succ, Failure: fail})
			cancel()
			if err != nil {
				return vt.Failf(prop+"/leader-write-error", i, "%v", err)
			}
			m.ApplyTxn(cmp, succ, fail)
			record(r.Header.Revision)
			txns++
		case "hold-back":
			if a.N >= 3 {
				st.node.Store(-1)
			} else {
				st.node.Store(int64(a.N))
			}
		case "poll":
			node, srv := (a.N/10)%3, a.N%10
			if node != lastNode && lastNode >= 0 {
				handovers++
				// does the node that takes over lag behind what the cluster has committed?
				if mine, err := local(node); err == nil {
					for other := 0; other < 3; other++ {
						if theirs, err := local(other); err == nil && theirs > mine {
							staleTakeover = true
						}
					}
				}
			}
			lastNode = node
			res, err := replfx.Poll(worker(node, srv))
			if err != nil {
				return vt.Failf(prop+"/poll-error", i, "worker of node %d poll (%s): %v", node+1, res, err)
			}
			polls++
			o.Label("poll:" + res)
		}
		if f := check(i, a.Kind); f != nil {
			return f
		}
	}
	st.node.Store(-1)
	// the leader is quiet: a bounded number of polls through one node reaches the leader's latest state, every node follows
	leaderLocal, _, err := replfx.Indices(p.L.E, name)
	if err != nil {
		return vt.Failf(prop+"/leader-read-error", len(c.Acts), "%v", err)
	}
	for k := 0; k < 6; k++ {
		if _, err := replfx.Poll(worker(0, 2)); err != nil {
			return vt.Failf(prop+"/poll-error", len(c.Acts), "final poll: %v", err)
		}
		if f := check(len(c.Acts)+k, "final poll"); f != nil {
			return f
		}
		if l, _, _ := replfx.Indices(hoFx[0].E, name); l >= 0 {
			if fl, err := local(0); err == nil && fl == leaderLocal {
				break
			}
		}
	}
	deadline := time.Now().Add(20 * time.Second)
	for time.Now().Before(deadline) {
		all := true
		for node := 0; node < 3; node++ {
			if fl, err := local(node); err != nil || fl != leaderLocal {
				all = false
			}
		}
		if all {
			break
		}
		time.Sleep(2 * time.Millisecond)
	}
	if f := check(len(c.Acts)+10, "settling"); f != nil {
		return f
	}
	for node := 0; node < 3; node++ {
		fl, err := local(node)
		if err != nil || fl != leaderLocal {
			if len(h.revs) > 0 && node == 0 {
				return vt.Failf(prop+"/does-not-converge", len(c.Acts), "leader is quiet at index %d, after 6 polls node 1 of the follower cluster records %d", leaderLocal, fl)
			}
			continue
		}
	}
	if handovers > 0 {
		o.Label("lease-handed-to-another-node")
	}
	if staleTakeover {
		o.Label("node-whose-copy-is-behind-takes-over")
	}
	o.NonTrivial = handovers > 0 && txns >= 2 && polls >= 2
	o.Describe = func() string { return fmt.Sprintf("stall %d ms: %+v", c.StallMs, c.Acts) }
	return nil
}

func TestC05Handover(t *testing.T)        { vt.Check(t, prop, genHandover, runHandover) }
func TestC05HandoverReplay(t *testing.T)  { vt.Replay(t, prop, runHandover) }
func TestC05HandoverRegress(t *testing.T) { vt.Regress(t, prop, "testdata", runHandover) }
