//go:build verif

// C05 — a follower table always equals the leader table at its recorded leader index.
package c05

import (
	"bytes"
	"context"
	"fmt"
	"os"
	"sort"
	"sync"
	"sync/atomic"
	"testing"
	"time"

	"github.com/jamf/regatta/regattapb"
	"github.com/jamf/regatta/replication"
	"github.com/lni/dragonboat/v4"
	"pgregory.net/rapid"

	"verifharness/internal/enginefx"
	"verifharness/internal/model"
	"verifharness/internal/replfx"
	"verifharness/internal/vt"
)

const prop = "C05"

type Act struct {
	Kind string `json:"kind"` // put | del | delrange | txn | poll | compact | restart-worker | restart-follower
	K    []byte `json:"k,omitempty"`
	V    []byte `json:"v,omitempty"`
	End  []byte `json:"end,omitempty"`
	N    int    `json:"n,omitempty"`   // txn: expected counter digit; poll: log server (message size limit) index; compact: entries to keep
	Off  int    `json:"off,omitempty"` // other-read: how far behind the leader's applied index the other follower cluster starts reading
}

type Case struct {
	Acts []Act `json:"acts"`
}

var keys = [][]byte{[]byte("a"), []byte("b"), []byte("c"), []byte("ctr"), []byte("d\x00"), []byte("\xff"),
	bytes.Repeat([]byte{'L'}, 1024), append(bytes.Repeat([]byte{'L'}, 1020), 'x'), // incl. keys as long as a key may be
	// ... and the keys at the very end of the key space (seeded change C05-K: the table dump a follower recovers from stops short of them)
	bytes.Repeat([]byte{0xFF}, 1019), bytes.Repeat([]byte{0xFF}, 1024)}

func genCase(t *rapid.T) Case {
	n := rapid.IntRange(3, 40).Draw(t, "n")
	c := Case{}
	for i := 0; i < n; i++ {
		k := rapid.IntRange(0, 21).Draw(t, "kind")
		switch {
		case k <= 4:
			v := rapid.SliceOfN(rapid.Byte(), 0, 12).Draw(t, "v")
			switch rapid.IntRange(0, 9).Draw(t, "bigv") {
			case 0, 1:
				v = bytes.Repeat([]byte{'x'}, rapid.IntRange(200, 3000).Draw(t, "vlen")) // larger than the smallest message-size limit
			case 2:
				// two or three of these in one replication response exceed the size at which the worker splits its proposals (256 KiB)
				v = bytes.Repeat([]byte{'X'}, rapid.IntRange(90, 200).Draw(t, "vKiB")*1024)
			}
			c.Acts = append(c.Acts, Act{Kind: "put", K: rapid.SampledFrom(keys).Draw(t, "k"), V: v})
		case k == 5:
			c.Acts = append(c.Acts, Act{Kind: "del", K: rapid.SampledFrom(keys).Draw(t, "k")})
		case k == 6:
			c.Acts = append(c.Acts, Act{Kind: "delrange", K: rapid.SampledFrom(keys).Draw(t, "k"), End: rapid.SampledFrom([][]byte{{0}, []byte("c"), []byte("zz")}).Draw(t, "end")})
		case k <= 10:
			c.Acts = append(c.Acts, Act{Kind: "txn", N: rapid.IntRange(0, 3).Draw(t, "digit")})
		case k <= 12:
			c.Acts = append(c.Acts, Act{Kind: "poll", N: rapid.IntRange(0, len(replfx.LogSizes)-1).Draw(t, "server")})
		case k == 13:
			// a burst of sizeable writes that reaches the follower in ONE replication message (the 4 MiB log server) and has to be split
			// into several proposals by the worker (256 KiB each)
			for j, nb := 0, rapid.IntRange(2, 5).Draw(t, "burst"); j < nb; j++ {
				c.Acts = append(c.Acts, Act{Kind: "put", K: rapid.SampledFrom(keys).Draw(t, "k"), V: bytes.Repeat([]byte{byte('A' + j)}, rapid.IntRange(70, 200).Draw(t, "burstKiB")*1024)})
				if rapid.IntRange(0, 3).Draw(t, "bursttxn") == 0 {
					c.Acts = append(c.Acts, Act{Kind: "txn", N: rapid.IntRange(0, 3).Draw(t, "digit")})
				}
			}
			c.Acts = append(c.Acts, Act{Kind: "poll", N: len(replfx.LogSizes) - 1})
		case k == 14:
			// another follower cluster replicating the same leader table reads a suffix of the log (it shares the leader's log cache);
			// half of the time as the pattern "k fresh leader entries, the other cluster reads only the newest ones, then we poll"
			if rapid.Bool().Draw(t, "pattern") {
				nw := rapid.IntRange(2, 4).Draw(t, "fresh")
				for j := 0; j < nw; j++ {
					c.Acts = append(c.Acts, Act{Kind: "txn", N: rapid.IntRange(0, 3).Draw(t, "digit")})
				}
				c.Acts = append(c.Acts, Act{Kind: "other-read", N: rapid.IntRange(0, len(replfx.LogSizes)-1).Draw(t, "server"), Off: rapid.IntRange(1, nw-1).Draw(t, "off")},
					Act{Kind: "poll", N: rapid.IntRange(0, len(replfx.LogSizes)-1).Draw(t, "server")})
			} else {
				c.Acts = append(c.Acts, Act{Kind: "other-read", N: rapid.IntRange(0, len(replfx.LogSizes)-1).Draw(t, "server"), Off: rapid.IntRange(0, 6).Draw(t, "off")})
			}
		case k <= 16:
			c.Acts = append(c.Acts, Act{Kind: "compact", N: rapid.IntRange(0, 3).Draw(t, "keep")})
		case k <= 18:
			c.Acts = append(c.Acts, Act{Kind: "restart-worker"})
		case k == 19:
			c.Acts = append(c.Acts, Act{Kind: "restart-follower"})
		case k == 20:
			// a recovery that dies after N records of the leader's stream (possibly after it loaded a part of them)
			c.Acts = append(c.Acts, Act{Kind: "broken-restore", N: rapid.IntRange(0, 8).Draw(t, "after")})
		default:
			// the pattern: sizeable pairs, a recovery that dies after it loaded some of them, the leader removes one of them and compacts
			// its log, the follower has to recover again
			np := rapid.IntRange(3, 5).Draw(t, "bigpairs")
			for j := 0; j < np; j++ {
				c.Acts = append(c.Acts, Act{Kind: "put", K: keys[j%len(keys)], V: bytes.Repeat([]byte{byte('P' + j)}, rapid.IntRange(150, 200).Draw(t, "pKiB")*1024)})
			}
			c.Acts = append(c.Acts, Act{Kind: "broken-restore", N: rapid.IntRange(1, np+1).Draw(t, "after")})
			if rapid.Bool().Draw(t, "delrange") {
				c.Acts = append(c.Acts, Act{Kind: "delrange", K: keys[0], End: []byte{0}})
			} else {
				c.Acts = append(c.Acts, Act{Kind: "del", K: keys[rapid.IntRange(0, np-1).Draw(t, "victim")%len(keys)]})
			}
			c.Acts = append(c.Acts, Act{Kind: "compact", N: 0}, Act{Kind: "poll", N: rapid.IntRange(0, len(replfx.LogSizes)-1).Draw(t, "server")})
		}
	}
	return c
}

var (
	pairOnce sync.Once
	pair     *replfx.Pair
	pairErr  error
	caseNo   atomic.Int64
)

func sharedPair() error {
	pairOnce.Do(func() {
		cache := 0
		followerLog := uint64(6 * 1024 * 1024)
		if sh := os.Getenv("VERIF_SHARD"); sh != "" && (sh[len(sh)-1]-'0')%2 == 1 {
			cache = 8 // odd shards run the leader with the log cache enabled
		}
		if sh := os.Getenv("VERIF_SHARD"); sh != "" && ((sh[len(sh)-1]-'0')/2)%2 == 1 {
			// shards 2, 3, 6, 7, ...: a follower whose restore batches are cut at 512 KiB, so that a recovery of a few sizeable pairs
			// proposes several batches (and can die between them)
			followerLog = 1024 * 1024
		}
		pair, pairErr = replfx.NewPair(replfx.Opts{
			Leader:   enginefx.Opts{NodeID: 1, LogCacheSize: cache, MaxInMemLogSize: 6 * 1024 * 1024},
			Follower: enginefx.Opts{NodeID: 1, MaxInMemLogSize: followerLog},
		})
	})
	return pairErr
}

type history struct {
	revs   []uint64
	states []*model.Map
}

func (h *history) at(i uint64) *model.Map {
	j := sort.Search(len(h.revs), func(x int) bool { return h.revs[x] > i })
	if j == 0 {
		return model.New()
	}
	return h.states[j-1]
}

func digit(n int) []byte { return []byte{byte('0' + n%4)} }

func samePairs(got []model.Pair, want []model.Pair) error {
	if len(got) != len(want) {
		return fmt.Errorf("follower holds %d pairs, leader had %d", len(got), len(want))
	}
	for i := range got {
		if !bytes.Equal(got[i].K, want[i].K) || !bytes.Equal(got[i].V, want[i].V) {
			return fmt.Errorf("pair %d: follower %q=%q, leader %q=%q", i, got[i].K, clip(got[i].V), want[i].K, clip(want[i].V))
		}
	}
	return nil
}

func clip(b []byte) []byte {
	if len(b) > 24 {
		return b[:24]
	}
	return b
}

func run(c Case, o *vt.Obs) *vt.Failure {
	if err := sharedPair(); err != nil {
		vt.Inconclusive("C05 fixture: " + err.Error())
		return nil
	}
	p := pair
	name := fmt.Sprintf("t%d", caseNo.Add(1))
	lt, err := p.L.CreateTable(name)
	if err != nil {
		vt.Inconclusive("C05 create leader table: " + err.Error())
		return nil
	}
	defer replfx.DropTable(p.L, name)
	if _, err := p.F.CreateTable(name); err != nil {
		vt.Inconclusive("C05 create follower table: " + err.Error())
		return nil
	}
	defer func() { replfx.DropTable(p.F, name) }()

	m := model.New()
	h := &history{}
	record := func(rev uint64) {
		h.revs = append(h.revs, rev)
		h.states = append(h.states, m.Clone())
	}
	var w *replication.VerifWorker
	worker := func(srv int) *replication.VerifWorker {
		if w == nil {
			w = p.Worker(name, srv)
		}
		return w
	}
	lastSrv := 0
	prevLeaderIdx := uint64(0)
	snapshots, polls, restartsBetween, txnsBefore, txnsAfter, brokenRestores := 0, 0, 0, 0, 0, 0
	pendingSincePoll := 0
	ctxT := func() (context.Context, context.CancelFunc) {
		return context.WithTimeout(context.Background(), 20*time.Second)
	}

	check := func(step int, what string) *vt.Failure {
		_, l1, err := replfx.Indices(p.F.E, name)
		if err != nil {
			return vt.Failf(prop+"/follower-read-error", step, "%s: %v", what, err)
		}
		content, err := replfx.ReadAll(p.F.E, name, true)
		if err != nil {
			return vt.Failf(prop+"/follower-read-error", step, "%s: %v", what, err)
		}
		_, l2, err := replfx.Indices(p.F.E, name)
		if err != nil {
			return vt.Failf(prop+"/follower-read-error", step, "%s: %v", what, err)
		}
		if l1 == l2 {
			if err := samePairs(content, h.at(l1).Pairs); err != nil {
				return vt.Failf(prop+"/follower-differs-at-recorded-index", step, "after %s: follower records leader index %d but its content is not the leader's content at that index: %v", what, l1, err)
			}
		}
		if l2 < prevLeaderIdx {
			return vt.Failf(prop+"/leader-index-went-backwards", step, "after %s: recorded leader index went from %d to %d", what, prevLeaderIdx, l2)
		}
		prevLeaderIdx = l2
		return nil
	}

	// "at every moment": the follower's state is examined after EVERY Update call of its table state machine - the applied-index listener
	// runs on the apply path, which is therefore paused while the hook reads (stale reads only: a consensus read would wait for the very
	// apply that is paused).  A worker that splits one replication response into several proposals is observed between them.
	var hookFail atomic.Pointer[vt.Failure]
	applies := 0
	hook := func(table string, rev uint64) {
		if table != name || hookFail.Load() != nil {
			return
		}
		applies++
		e := p.F.E
		if e == nil {
			return
		}
		tb, err := e.GetTable(name)
		if err != nil {
			return
		}
		ctx, cancel := context.WithTimeout(context.Background(), 5*time.Second)
		defer cancel()
		li, err := tb.LeaderIndex(ctx, false)
		if err != nil {
			return
		}
		resp, err := e.Range(ctx, &regattapb.RangeRequest{Table: []byte(name), Key: []byte{0}, RangeEnd: []byte{0}})
		if err != nil || resp.More {
			return
		}
		var got []model.Pair
		for _, kv := range resp.Kvs {
			got = append(got, model.Pair{K: kv.Key, V: kv.Value})
		}
		if err := samePairs(got, h.at(li.Index).Pairs); err != nil {
			hookFail.Store(vt.Failf(prop+"/follower-differs-at-recorded-index", 0, "right after an apply call of the follower table (announced index %d): the table records leader index %d but its content is not the leader's content at that index: %v", rev, li.Index, err))
		}
	}
	p.OnApplied.Store(&hook)
	defer p.OnApplied.Store(nil)
	for i, a := range c.Acts {
		if f := hookFail.Load(); f != nil {
			f.Step = i
			return f
		}
		switch a.Kind {
		case "put":
			ctx, cancel := ctxT()
			r, err := p.L.E.Put(ctx, &regattapb.PutRequest{Table: []byte(name), Key: a.K, Value: a.V})
			cancel()
			if err != nil {
				return vt.Failf(prop+"/leader-write-error", i, "%v", err)
			}
			m.Put(a.K, a.V)
			record(r.Header.Revision)
			pendingSincePoll++
		case "del", "delrange":
			ctx, cancel := ctxT()
			req := &regattapb.DeleteRangeRequest{Table: []byte(name), Key: a.K}
			if a.Kind == "delrange" {
				req.RangeEnd = a.End
			}
			r, err := p.L.E.Delete(ctx, req)
			cancel()
			if err != nil {
				return vt.Failf(prop+"/leader-write-error", i, "%v", err)
			}
			if a.Kind == "delrange" {
				m.DelRange(a.K, a.End)
			} else {
				m.Del(a.K)
			}
			record(r.Header.Revision)
			pendingSincePoll++
		case "txn":
			// non-idempotent: if ctr == n then ctr := n+1, cnt := cnt+"s" (as put of a marker) else ctr := 0
			cmp := []*regattapb.Compare{{Key: []byte("ctr"), Result: regattapb.Compare_EQUAL, TargetUnion: &regattapb.Compare_Value{Value: digit(a.N)}}}
			succ := []*regattapb.RequestOp{{Request: &regattapb.RequestOp_RequestPut{RequestPut: &regattapb.RequestOp_Put{Key: []byte("ctr"), Value: digit(a.N + 1)}}}}
			fail := []*regattapb.RequestOp{
				{Request: &regattapb.RequestOp_RequestPut{RequestPut: &regattapb.RequestOp_Put{Key: []byte("ctr"), Value: digit(0)}}},
				{Request: &regattapb.RequestOp_RequestDeleteRange{RequestDeleteRange: &regattapb.RequestOp_DeleteRange{Key: []byte("a"), RangeEnd: []byte("b")}}},
			}
			ctx, cancel := ctxT()
			r, err := p.L.E.Txn(ctx, &regattapb.TxnRequest{Table: []byte(name), Compare: cmp, Success: succ, Failure: fail})
			cancel()
			if err != nil {
				return vt.Failf(prop+"/leader-write-error", i, "%v", err)
			}
			m.ApplyTxn(cmp, succ, fail)
			record(r.Header.Revision)
			pendingSincePoll++
			if snapshots == 0 {
				txnsBefore++
			} else {
				txnsAfter++
			}
		case "poll":
			lastSrv = a.N
			if w != nil && false {
				_ = w
			}
			res, err := replfx.Poll(p.Worker(name, a.N))
			if err != nil {
				return vt.Failf(prop+"/poll-error", i, "worker poll (%s): %v", res, err)
			}
			polls++
			pendingSincePoll = 0
			if res == "recovered" {
				snapshots++
				o.Label("snapshot-based-catch-up")
			}
			o.Label("poll:" + res)
		case "other-read":
			ll, _, err := replfx.Indices(p.L.E, name)
			if err != nil {
				return vt.Failf(prop+"/leader-read-error", i, "%v", err)
			}
			start := uint64(1)
			if ll+1 > uint64(a.Off) {
				start = ll + 1 - uint64(a.Off)
			}
			ctx, cancel := ctxT()
			st, err := regattapb.NewLogClient(p.Conns[a.N%len(p.Conns)]).Replicate(ctx, &regattapb.ReplicateRequest{Table: []byte(name), LeaderIndex: start})
			for err == nil {
				var msg *regattapb.ReplicateResponse
				if msg, err = st.Recv(); err == nil && msg.GetCommandsResponse() == nil {
					break // error response or the terminating empty batch
				}
			}
			cancel()
			o.Label("other-follower-read")
		case "compact":
			ctx, cancel := ctxT()
			_, err := p.L.E.NodeHost.SyncRequestSnapshot(ctx, lt.ClusterID, dragonboat.SnapshotOption{OverrideCompactionOverhead: true, CompactionOverhead: uint64(a.N)})
			cancel()
			if err != nil && err != dragonboat.ErrRejected {
				return vt.Failf(prop+"/leader-snapshot-error", i, "%v", err)
			}
			time.Sleep(30 * time.Millisecond) // log compaction becomes visible to the log reader shortly after
			o.Label("leader-log-compaction")
		case "broken-restore":
			n, ferr, rerr := p.BrokenRestore(name, lastSrv, a.N)
			if ferr != nil {
				return vt.Failf(prop+"/snapshot-fetch-error", i, "%v", ferr)
			}
			if rerr == nil {
				// the stream was shorter than the breaking point: a complete recovery
				snapshots++
				o.Label("complete-recovery-through-restore")
			} else {
				o.Label(fmt.Sprintf("recovery-died-after-%s-records", map[bool]string{true: "0", false: ">=1"}[n == 0]))
				brokenRestores++
			}
			w = nil
		case "restart-worker":
			w = nil
			if pendingSincePoll > 0 {
				restartsBetween++
			}
		case "restart-follower":
			if err := p.RestartFollower(); err != nil {
				vt.Inconclusive("C05 follower restart: " + err.Error())
				return nil
			}
			if err := p.F.WaitTablePatient(name, 20*time.Second); err != nil {
				vt.Inconclusive("C05 table not ready after follower engine restart: " + err.Error())
				return nil
			}
			w = nil
			if pendingSincePoll > 0 {
				restartsBetween++
			}
			o.Label("follower-engine-restart")
		}
		if f := check(i, a.Kind); f != nil {
			return f
		}
	}
	_ = worker
	if f := hookFail.Load(); f != nil {
		return f
	}
	// the leader is quiet now: a bounded number of polls must reach the leader's latest state
	leaderLocal, _, err := replfx.Indices(p.L.E, name)
	if err != nil {
		return vt.Failf(prop+"/leader-read-error", len(c.Acts), "%v", err)
	}
	reached := false
	for k := 0; k < 6; k++ {
		res, err := replfx.Poll(p.Worker(name, lastSrv))
		if err != nil {
			return vt.Failf(prop+"/poll-error", len(c.Acts), "final poll (%s): %v", res, err)
		}
		if res == "recovered" {
			snapshots++
			o.Label("snapshot-based-catch-up")
		}
		if f := check(len(c.Acts)+k, "final poll"); f != nil {
			return f
		}
		if _, fl, _ := replfx.Indices(p.F.E, name); fl == leaderLocal {
			reached = true
			break
		}
	}
	if !reached && len(h.revs) > 0 {
		_, fl, _ := replfx.Indices(p.F.E, name)
		return vt.Failf(prop+"/does-not-converge", len(c.Acts), "leader is quiet at index %d, after 6 polls the follower records %d", leaderLocal, fl)
	}
	got, err := replfx.ReadAll(p.F.E, name, true)
	if err != nil {
		return vt.Failf(prop+"/follower-read-error", len(c.Acts), "%v", err)
	}
	if err := samePairs(got, m.Pairs); err != nil {
		return vt.Failf(prop+"/final-state-differs", len(c.Acts), "leader quiet, follower caught up to %d: %v", leaderLocal, err)
	}
	if f := hookFail.Load(); f != nil {
		return f
	}
	o.LabelN("follower-apply-calls-examined", applies)
	o.NonTrivial = (snapshots > 0 && txnsBefore > 0 && txnsAfter > 0) || restartsBetween > 0 || (brokenRestores > 0 && snapshots > 0)
	if restartsBetween > 0 {
		o.Label("restart-with-pending-entries")
	}
	o.Describe = func() string { return fmt.Sprintf("%+v", c.Acts) }
	return nil
}

func TestC05(t *testing.T)        { vt.Check(t, prop, genCase, run) }
func TestC05Replay(t *testing.T)  { vt.Replay(t, prop, run) }
func TestC05Regress(t *testing.T) { vt.Regress(t, prop, "testdata", run) }

// ---- table set convergence ------------------------------------------------------------------------

type TAct struct {
	Kind string `json:"kind"` // create | delete | reconcile | restart-follower
	Name string `json:"name,omitempty"`
}

type TCase struct {
	Acts []TAct `json:"acts"`
}

func genTCase(t *rapid.T) TCase {
	n := rapid.IntRange(2, 12).Draw(t, "n")
	c := TCase{}
	for i := 0; i < n; i++ {
		k := rapid.IntRange(0, 9).Draw(t, "kind")
		switch {
		case k <= 3:
			c.Acts = append(c.Acts, TAct{Kind: "create", Name: rapid.SampledFrom([]string{"x", "y", "z"}).Draw(t, "name")})
		case k <= 5:
			c.Acts = append(c.Acts, TAct{Kind: "delete", Name: rapid.SampledFrom([]string{"x", "y", "z"}).Draw(t, "name")})
		case k <= 7:
			c.Acts = append(c.Acts, TAct{Kind: "reconcile"})
		case k == 8:
			// the leader's LAST tables go away: its table list becomes empty
			c.Acts = append(c.Acts, TAct{Kind: "reconcile"}, TAct{Kind: "delete", Name: "x"}, TAct{Kind: "delete", Name: "y"}, TAct{Kind: "delete", Name: "z"}, TAct{Kind: "reconcile"})
		default:
			c.Acts = append(c.Acts, TAct{Kind: "restart-follower"})
		}
		if rapid.IntRange(0, 5).Draw(t, "brokenrecovery") == 0 {
			// a snapshot recovery of a follower table dies right after it recorded its recovery shard (often followed by a restart)
			c.Acts = append(c.Acts, TAct{Kind: "reconcile"}, TAct{Kind: "broken-recovery", Name: rapid.SampledFrom([]string{"x", "y", "z"}).Draw(t, "bname")})
			if rapid.Bool().Draw(t, "thenrestart") {
				c.Acts = append(c.Acts, TAct{Kind: "restart-follower"})
			}
			c.Acts = append(c.Acts, TAct{Kind: "reconcile"})
		}
	}
	return c
}

func tableNames(f *enginefx.Fixture, prefix string) ([]string, error) {
	ts, err := f.E.GetTables()
	if err != nil {
		return nil, err
	}
	var out []string
	for _, t := range ts {
		if len(t.Name) > len(prefix) && t.Name[:len(prefix)] == prefix {
			out = append(out, t.Name)
		}
	}
	sort.Strings(out)
	return out, nil
}

func runTables(c TCase, o *vt.Obs) *vt.Failure {
	if err := sharedPair(); err != nil {
		vt.Inconclusive("C05 fixture: " + err.Error())
		return nil
	}
	p := pair
	prefix := fmt.Sprintf("s%d-", caseNo.Add(1))
	// note: reconcileTables makes the follower's table set equal to the leader's whole set, other cases' tables were dropped
	defer func() {
		for _, n := range []string{"x", "y", "z"} {
			replfx.DropTable(p.L, prefix+n)
		}
		_ = p.Mgrs[0].VerifReconcileTables()
		_ = p.F.E.Manager.VerifReconcile()
	}()
	created, deleted, broken := 0, 0, 0
	followerHad := false
	// a replication manager of its own (never started: the harness runs its reconcile rounds) whose workers idle - they start quickly
	// (the start-up jitter is drawn from the poll interval) and never get a lease
	var wm *replication.Manager
	newWM := func() {
		if wm != nil {
			wm.VerifStopWorkers()
		}
		wm = replication.NewManager(p.F.E, p.Queue, p.Conns[0], replication.Config{ReconcileInterval: time.Hour, Workers: replication.WorkerConfig{
			PollInterval: 2 * time.Millisecond, LeaseInterval: time.Hour, LogRPCTimeout: 30 * time.Second, SnapshotRPCTimeout: 60 * time.Second, MaxRecoveryInFlight: 1}})
	}
	newWM()
	defer func() { wm.VerifStopWorkers() }()
	for i, a := range c.Acts {
		switch a.Kind {
		case "broken-recovery":
			if _, err := p.F.E.GetTable(prefix + a.Name); err != nil {
				continue // not replicated (yet)
			}
			if _, ferr, rerr := p.BrokenRestore(prefix+a.Name, 0, 0); ferr == nil && rerr != nil {
				broken++
				o.Label("recovery-died-after-recording-its-recovery-shard")
			}
		case "create":
			if _, err := p.L.E.CreateTable(prefix + a.Name); err == nil {
				created++
			}
		case "delete":
			if err := p.L.E.DeleteTable(prefix + a.Name); err == nil {
				deleted++
			}
		case "restart-follower":
			wm.VerifStopWorkers()
			if err := p.RestartFollower(); err != nil {
				vt.Inconclusive("C05 follower restart: " + err.Error())
				return nil
			}
			newWM()
		case "reconcile":
			if err := p.Mgrs[0].VerifReconcileTables(); err != nil {
				return vt.Failf(prop+"/reconcile-tables-error", i, "%v", err)
			}
			// every table of the follower gets a replication worker (a table without one never catches up), dropped tables lose theirs
			if err := wm.VerifReconcileWorkers(); err != nil {
				return vt.Failf(prop+"/reconcile-workers-error", i, "%v", err)
			}
			if all, err := p.F.E.GetTables(); err == nil {
				var names []string
				for _, tb := range all {
					names = append(names, tb.Name)
				}
				sort.Strings(names)
				if got := wm.VerifWorkerTables(); fmt.Sprint(got) != fmt.Sprint(names) {
					return vt.Failf(prop+"/worker-set-differs", i, "after a reconcile round the follower's tables are %v but replication workers exist for %v: a table without a worker never reaches the leader's state", names, got)
				}
			}
			ln, err := tableNames(p.L, prefix)
			if err != nil {
				return vt.Failf(prop+"/leader-read-error", i, "%v", err)
			}
			fn, err := tableNames(p.F, prefix)
			if err != nil {
				return vt.Failf(prop+"/follower-read-error", i, "%v", err)
			}
			if fmt.Sprint(ln) != fmt.Sprint(fn) {
				return vt.Failf(prop+"/table-set-differs", i, "after reconciliation the follower replicates %v, the leader has %v", fn, ln)
			}
			if len(ln) == 0 && followerHad {
				all, _ := p.L.E.GetTables()
				if len(all) == 0 {
					o.Label("last-leader-table-deleted-then-reconciled")
				} else {
					o.Label("case-tables-deleted-but-leader-holds-other-tables")
				}
			}
			followerHad = len(fn) > 0
		}
	}
	o.NonTrivial = (created > 0 && deleted > 0) || broken > 0
	o.Describe = func() string { return fmt.Sprintf("%+v", c.Acts) }
	return nil
}

func TestC05Tables(t *testing.T)        { vt.Check(t, prop, genTCase, runTables) }
func TestC05TablesReplay(t *testing.T)  { vt.Replay(t, prop, runTables) }
func TestC05TablesRegress(t *testing.T) { vt.Regress(t, prop, "testdata", runTables) }
