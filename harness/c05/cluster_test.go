//go:build verif

package c05

// TestC05Cluster: a follower CLUSTER of three nodes (one raft group per table, replicated on all three) replicating from the shared
// leader, with the production replication loop on every node: three started replication.Managers, whose workers compete for the
// table's lease - only the holder replicates.  The lease is handed over by restarting the node that holds it (its worker returns the
// table when it closes; a restarted node starts a new manager), and one follower node can be HELD BACK: every apply call of its copy
// of the table takes longer, so that node applies what the others already have a little later - and may be the one that takes the
// lease over.  A writer goroutine performs generated leader operations (mostly non-idempotent transactions: a command applied twice
// or skipped shows in the content), a sampler reads (recorded leader index, content, recorded leader index) from every follower node's
// OWN copy (stale reads).  Judged after the run against the leader's state per revision: on every node, at every moment, the content is
// the leader's content at the index that node has recorded, and the index never moves backwards there.

import (
	"context"
	"encoding/json"
	"fmt"
	"os"
	"sync"
	"sync/atomic"
	"testing"
	"time"

	"github.com/jamf/regatta/regattapb"
	"github.com/jamf/regatta/replication"
	"github.com/jamf/regatta/storage"
	"github.com/jamf/regatta/storage/kv"
	"github.com/jamf/regatta/storage/table"
	"pgregory.net/rapid"

	"verifharness/internal/enginefx"
	"verifharness/internal/model"
	"verifharness/internal/replfx"
	"verifharness/internal/vt"
)

type ClusterCase struct {
	PollMs  int   `json:"poll_ms"`
	LeaseMs int   `json:"lease_ms"`
	Server  int   `json:"server"`
	StallUs int   `json:"stall_us"` // apply delay of a held-back node
	Acts    []Act `json:"acts"`     // put | del | txn | sleep (N ms) | restart-holder | restart-node (N) | hold-back (N: node, 3 = nobody)
}

func genCluster(t *rapid.T) ClusterCase {
	c := ClusterCase{
		PollMs:  rapid.SampledFrom([]int{3, 10}).Draw(t, "poll"),
		// the lease lasts 4 intervals and is renewed every interval: a holder that is stalled for 3 intervals keeps replicating on an
		// expired lease (the lease is time based, nothing fences a late worker) - that is timing, not what this test is about, so
		// the intervals are long compared with any scheduling delay (and a control ticker watches for stalls)
		LeaseMs: rapid.SampledFrom([]int{1000, 2000}).Draw(t, "lease"),
		Server:  rapid.IntRange(0, len(replfx.LogSizes)-1).Draw(t, "server"),
		StallUs: rapid.SampledFrom([]int{2000, 8000, 20000}).Draw(t, "stall"),
	}
	n := rapid.IntRange(20, 60).Draw(t, "n")
	for i := 0; i < n; i++ {
		k := rapid.IntRange(0, 29).Draw(t, "kind")
		if k >= 27 && i%3 != 0 {
			k = 10 // node restarts are slow: at most every third draw
		}
		switch {
		case k <= 4:
			c.Acts = append(c.Acts, Act{Kind: "put", K: rapid.SampledFrom(keys[:6]).Draw(t, "k"), V: rapid.SliceOfN(rapid.Byte(), 0, 12).Draw(t, "v")})
		case k <= 6:
			c.Acts = append(c.Acts, Act{Kind: "del", K: rapid.SampledFrom(keys[:6]).Draw(t, "k")})
		case k <= 21:
			c.Acts = append(c.Acts, Act{Kind: "txn", N: rapid.IntRange(0, 3).Draw(t, "digit")})
		case k <= 24:
			c.Acts = append(c.Acts, Act{Kind: "sleep", N: rapid.SampledFrom([]int{1, 5, 20, 60}).Draw(t, "ms")})
		case k <= 26:
			c.Acts = append(c.Acts, Act{Kind: "hold-back", N: rapid.IntRange(0, 3).Draw(t, "node")})
		case k == 27:
			c.Acts = append(c.Acts, Act{Kind: "restart-node", N: rapid.IntRange(0, 2).Draw(t, "node")})
		default:
			// the pattern: a node falls behind, the lease holder goes away while the leader keeps writing
			c.Acts = append(c.Acts, Act{Kind: "hold-back", N: rapid.IntRange(0, 2).Draw(t, "node")})
			for j, nt := 0, rapid.IntRange(2, 6).Draw(t, "burst"); j < nt; j++ {
				c.Acts = append(c.Acts, Act{Kind: "txn", N: rapid.IntRange(0, 3).Draw(t, "digit")})
			}
			c.Acts = append(c.Acts, Act{Kind: "restart-holder"})
			for j, nt := 0, rapid.IntRange(2, 6).Draw(t, "burst2"); j < nt; j++ {
				c.Acts = append(c.Acts, Act{Kind: "txn", N: rapid.IntRange(0, 3).Draw(t, "digit")})
			}
		}
	}
	return c
}

type clusterNode struct {
	mu  sync.RWMutex
	fx  *enginefx.Fixture
	mgr *replication.Manager
	q   *storage.IndexNotificationQueue
}

type clusterStall struct {
	table string
	node  atomic.Int64 // -1 nobody
	d     time.Duration
}

var clusterStallP atomic.Pointer[clusterStall]

func runCluster(c ClusterCase, o *vt.Obs) *vt.Failure {
	if err := sharedPair(); err != nil {
		vt.Inconclusive("C05 fixture: " + err.Error())
		return nil
	}
	p := pair
	t0 := time.Now()
	name := fmt.Sprintf("clu%d", caseNo.Add(1))
	if _, err := p.L.CreateTable(name); err != nil {
		vt.Inconclusive("C05 create leader table: " + err.Error())
		return nil
	}
	defer replfx.DropTable(p.L, name)

	st := &clusterStall{table: name, d: time.Duration(c.StallUs) * time.Microsecond}
	st.node.Store(-1)
	clusterStallP.Store(st)
	defer clusterStallP.Store(nil)
	nodes := make([]*clusterNode, 3)
	for i := range nodes {
		nodes[i] = &clusterNode{q: storage.NewNotificationQueue()}
		go nodes[i].q.Run()
		defer nodes[i].q.Close()
	}
	fxs, err := enginefx.StartCluster(3, enginefx.Opts{MaxInMemLogSize: 6 * 1024 * 1024, AppliedNode: func(node int, table string, rev uint64) {
		nodes[node].q.Notify(table, rev)
		if sp := clusterStallP.Load(); sp != nil && sp.table == table && sp.node.Load() == int64(node) {
			time.Sleep(sp.d)
		}
	}})
	if err != nil {
		vt.Inconclusive("C05 follower cluster: " + err.Error())
		return nil
	}
	for i := range nodes {
		nodes[i].fx = fxs[i]
	}
	startMgr := func(n *clusterNode) error {
		n.mgr = replication.NewManager(n.fx.E, n.q, p.Conns[c.Server%len(p.Conns)], replication.Config{
			ReconcileInterval: 40 * time.Millisecond,
			Workers: replication.WorkerConfig{
				PollInterval: time.Duration(c.PollMs) * time.Millisecond, LeaseInterval: time.Duration(c.LeaseMs) * time.Millisecond,
				LogRPCTimeout: 30 * time.Second, SnapshotRPCTimeout: 60 * time.Second, MaxRecoveryInFlight: 1,
			},
		})
		return n.mgr.Start()
	}
	defer func() {
		for _, n := range nodes {
			n.mu.Lock()
			if n.mgr != nil {
				n.mgr.Close()
				n.mgr = nil
			}
			n.mu.Unlock()
		}
		for _, n := range nodes {
			n.mu.Lock()
			_ = n.fx.Stop()
			n.mu.Unlock()
		}
	}()
	// the table exists on the follower cluster before replication starts (production: the managers' table reconciliation creates it and
	// every node's table manager starts its replica within its 30 s reconcile interval - that wait is skipped here)
	if _, err := enginefx.ClusterCreateTable(fxs, name, 60*time.Second); err != nil {
		vt.Inconclusive("C05 follower cluster table: " + err.Error())
		return nil
	}
	for _, n := range nodes {
		if err := startMgr(n); err != nil {
			vt.Inconclusive("C05 replication manager: " + err.Error())
			return nil
		}
	}

	// control ticker: a process that is not scheduled for a large part of a lease interval cannot tell anything about leases
	var worstGap atomic.Int64
	wgCtl := make(chan struct{})
	go func() {
		last := time.Now()
		for {
			select {
			case <-wgCtl:
				return
			case <-time.After(10 * time.Millisecond):
			}
			if g := time.Since(last); int64(g) > worstGap.Load() {
				worstGap.Store(int64(g))
			}
			last = time.Now()
		}
	}()
	defer close(wgCtl)
	// samplers: one per follower node, reading that node's own copy
	type sample struct {
		node, seq int
		l1, l2    uint64
		content   []model.Pair
	}
	var samples []sample
	var smu sync.Mutex
	stop := make(chan struct{})
	var wg sync.WaitGroup
	localIndex := func(e *storage.Engine) (uint64, error) {
		tb, err := e.GetTable(name)
		if err != nil {
			return 0, err
		}
		ctx, cancel := context.WithTimeout(context.Background(), 5*time.Second)
		defer cancel()
		r, err := tb.LeaderIndex(ctx, false)
		if err != nil {
			return 0, err
		}
		return r.Index, nil
	}
	for ni := range nodes {
		wg.Add(1)
		go func(ni int) {
			defer wg.Done()
			n := nodes[ni]
			seq := 0
			for {
				select {
				case <-stop:
					return
				default:
				}
				n.mu.RLock()
				e := n.fx.E
				ok := false
				var s sample
				if e != nil {
					if l1, err := localIndex(e); err == nil {
						ctx, cancel := context.WithTimeout(context.Background(), 5*time.Second)
						resp, err := e.Range(ctx, &regattapb.RangeRequest{Table: []byte(name), Key: []byte{0}, RangeEnd: []byte{0}})
						cancel()
						if err == nil && !resp.More {
							if l2, err := localIndex(e); err == nil {
								s = sample{node: ni, l1: l1, l2: l2}
								for _, kv := range resp.Kvs {
									s.content = append(s.content, model.Pair{K: kv.Key, V: kv.Value})
								}
								ok = true
							}
						}
					}
				}
				n.mu.RUnlock()
				if ok {
					seq++
					s.seq = seq
					smu.Lock()
					samples = append(samples, s)
					smu.Unlock()
				}
				time.Sleep(400 * time.Microsecond)
			}
		}(ni)
	}
	finish := func() { close(stop); wg.Wait() }

	restart := func(ni int) error {
		n := nodes[ni]
		n.mu.Lock()
		defer n.mu.Unlock()
		if n.mgr != nil {
			n.mgr.Close() // the worker returns its table
			n.mgr = nil
		}
		if err := n.fx.Restart(); err != nil {
			return err
		}
		if err := n.fx.E.Manager.VerifReconcile(); err != nil {
			return err
		}
		return startMgr(n)
	}
	holder := func() int {
		// the node whose worker currently holds the table's lease, as recorded in the catalogue
		for ni, n := range nodes {
			n.mu.RLock()
			e := n.fx.E
			var id uint64
			if e != nil {
				id = leaseHolder(e, name)
			}
			n.mu.RUnlock()
			if id >= 1 && id <= 3 {
				_ = ni
				return int(id) - 1
			}
		}
		return -1
	}

	m := model.New()
	h := &history{}
	record := func(rev uint64) {
		h.revs = append(h.revs, rev)
		h.states = append(h.states, m.Clone())
	}
	ctxT := func() (context.Context, context.CancelFunc) {
		return context.WithTimeout(context.Background(), 30*time.Second)
	}
	restarts, handovers, txns := 0, 0, 0
	for i, a := range c.Acts {
		ta := time.Now()
		switch a.Kind {
		case "put":
			ctx, cancel := ctxT()
			r, err := p.L.E.Put(ctx, &regattapb.PutRequest{Table: []byte(name), Key: a.K, Value: a.V})
			cancel()
			if err != nil {
				finish()
				vt.Inconclusive("C05 cluster leader write: " + err.Error())
				return nil
			}
			m.Put(a.K, a.V)
			record(r.Header.Revision)
		case "del":
			ctx, cancel := ctxT()
			r, err := p.L.E.Delete(ctx, &regattapb.DeleteRangeRequest{Table: []byte(name), Key: a.K})
			cancel()
			if err != nil {
				finish()
				vt.Inconclusive("C05 cluster leader write: " + err.Error())
				return nil
			}
			m.Del(a.K)
			record(r.Header.Revision)
		case "txn":
			cmp := []*regattapb.Compare{{Key: []byte("ctr"), Result: regattapb.Compare_EQUAL, TargetUnion: &regattapb.Compare_Value{Value: digit(a.N)}}}
			succ := []*regattapb.RequestOp{{Request: &regattapb.RequestOp_RequestPut{RequestPut: &regattapb.RequestOp_Put{Key: []byte("ctr"), Value: digit(a.N + 1)}}}}
			fail := []*regattapb.RequestOp{
				{Request: &regattapb.RequestOp_RequestPut{RequestPut: &regattapb.RequestOp_Put{Key: []byte("ctr"), Value: digit(0)}}},
				{Request: &regattapb.RequestOp_RequestPut{RequestPut: &regattapb.RequestOp_Put{Key: []byte("n"), Value: []byte(fmt.Sprintf("%d", i))}}},
			}
			ctx, cancel := ctxT()
			r, err := p.L.E.Txn(ctx, &regattapb.TxnRequest{Table: []byte(name), Compare: cmp, Success: succ, Failure: fail})
			cancel()
			if err != nil {
				finish()
				vt.Inconclusive("C05 cluster leader write: " + err.Error())
				return nil
			}
			m.ApplyTxn(cmp, succ, fail)
			record(r.Header.Revision)
			txns++
		case "sleep":
			time.Sleep(time.Duration(a.N) * time.Millisecond)
		case "hold-back":
			if a.N >= 3 {
				st.node.Store(-1)
			} else {
				st.node.Store(int64(a.N))
			}
		case "restart-node", "restart-holder":
			ni := a.N
			if a.Kind == "restart-holder" {
				if ni = holder(); ni < 0 {
					continue
				}
				handovers++
			}
			if err := restart(ni % 3); err != nil {
				finish()
				vt.Inconclusive("C05 cluster node restart: " + err.Error())
				return nil
			}
			restarts++
		}
		if d := time.Since(ta); d > 300*time.Millisecond && os.Getenv("VERIF_DEBUG_C05") != "" {
			fmt.Printf("DEBUG act %d %s took %s\n", i, a.Kind, d)
		}
	}
	st.node.Store(-1)
	tq := time.Now()
	// leader quiet: wait for convergence on every node (time budget -> the final comparison is skipped)
	leaderLocal, _, err := replfx.Indices(p.L.E, name)
	if err != nil {
		finish()
		vt.Inconclusive("C05 cluster leader index: " + err.Error())
		return nil
	}
	deadline := time.Now().Add(60 * time.Second)
	converged := false
	for time.Now().Before(deadline) && !converged {
		converged = true
		for _, n := range nodes {
			n.mu.RLock()
			fl, err := localIndex(n.fx.E)
			n.mu.RUnlock()
			if err != nil || fl < leaderLocal {
				converged = false
			}
		}
		time.Sleep(5 * time.Millisecond)
	}
	time.Sleep(5 * time.Millisecond)
	finish()
	if g := time.Duration(worstGap.Load()); g > time.Duration(c.LeaseMs)*time.Millisecond/2 {
		vt.Inconclusive(fmt.Sprintf("C05 cluster: the process was not scheduled for %s (lease interval %d ms): lease timing cannot be trusted", g, c.LeaseMs))
		return nil
	}
	prev := map[int]uint64{}
	distinct := map[uint64]bool{}
	nodesSampledMid := map[int]bool{}
	for _, s := range samples {
		if s.l1 == s.l2 {
			if err := samePairs(s.content, h.at(s.l1).Pairs); err != nil {
				return vt.Failf(prop+"/follower-differs-at-recorded-index", 0, "follower cluster (poll %d ms, lease %d ms, %d node restarts, %d lease hand-overs): node %d, sample %d - the node's copy records leader index %d (before and after the read) but its content is not the leader's content at that index: %v",
					c.PollMs, c.LeaseMs, restarts, handovers, s.node+1, s.seq, s.l1, err)
			}
			distinct[s.l1] = true
			if s.l1 > 0 && s.l1 < leaderLocal {
				nodesSampledMid[s.node] = true
			}
		}
		if s.l1 < prev[s.node] {
			return vt.Failf(prop+"/leader-index-went-backwards", 0, "follower cluster: node %d, sample %d: recorded leader index went from %d to %d", s.node+1, s.seq, prev[s.node], s.l1)
		}
		if s.l2 < s.l1 {
			return vt.Failf(prop+"/leader-index-went-backwards", 0, "follower cluster: node %d, sample %d: recorded leader index went from %d to %d within one sample", s.node+1, s.seq, s.l1, s.l2)
		}
		prev[s.node] = s.l2
	}
	if converged {
		for ni, n := range nodes {
			n.mu.RLock()
			fl, _ := localIndex(n.fx.E)
			ctx, cancel := context.WithTimeout(context.Background(), 10*time.Second)
			resp, err := n.fx.E.Range(ctx, &regattapb.RangeRequest{Table: []byte(name), Key: []byte{0}, RangeEnd: []byte{0}})
			cancel()
			n.mu.RUnlock()
			if err != nil {
				continue
			}
			if fl > leaderLocal {
				return vt.Failf(prop+"/follower-ahead-of-leader", 0, "node %d records leader index %d, the leader's applied index is %d", ni+1, fl, leaderLocal)
			}
			var got []model.Pair
			for _, kv := range resp.Kvs {
				got = append(got, model.Pair{K: kv.Key, V: kv.Value})
			}
			if fl == leaderLocal {
				if err := samePairs(got, m.Pairs); err != nil {
					return vt.Failf(prop+"/final-state-differs", 0, "follower cluster: leader quiet at index %d, node %d caught up (%d node restarts, %d lease hand-overs): %v", leaderLocal, ni+1, restarts, handovers, err)
				}
			}
		}
	} else {
		o.Label("cluster-not-converged-within-the-time-budget(final comparison skipped)")
	}
	if os.Getenv("VERIF_DEBUG_C05") != "" {
		fmt.Printf("DEBUG after acts %s; cluster case: converged=%v samples=%d distinct=%d restarts=%d handovers=%d txns=%d leaderLocal=%d total=%s\n", time.Since(tq), converged, len(samples), len(distinct), restarts, handovers, txns, leaderLocal, time.Since(t0))
	}
	o.LabelN("cluster-samples", len(samples))
	if handovers > 0 {
		o.Label("cluster-lease-holder-restarted")
	}
	if restarts > 0 {
		o.Label("cluster-node-restart")
	}
	if len(nodesSampledMid) >= 2 {
		o.Label("cluster-mid-replication-samples-on>=2-nodes")
	}
	o.NonTrivial = len(distinct) >= 3 && txns >= 2 && handovers > 0
	o.Describe = func() string {
		return fmt.Sprintf("follower cluster poll=%dms lease=%dms server=%d stall=%dus: %d acts (%d txns, %d node restarts, %d lease hand-overs), %d samples at %d distinct recorded indices", c.PollMs, c.LeaseMs, c.Server, c.StallUs, len(c.Acts), txns, restarts, handovers, len(samples), len(distinct))
	}
	return nil
}

func TestC05Cluster(t *testing.T)        { vt.Check(t, prop, genCluster, runCluster) }
func TestC05ClusterReplay(t *testing.T)  { vt.Replay(t, prop, runCluster) }
func TestC05ClusterRegress(t *testing.T) { vt.Regress(t, prop, "testdata", runCluster) }

// leaseHolder reads the table's lease record from the node's copy of the catalogue: the id of the node holding an unexpired lease, or 0.
func leaseHolder(e *storage.Engine, name string) uint64 {
	rs := &kv.RaftStore{NodeHost: e.NodeHost, ClusterID: 1000}
	p, err := rs.Get("/tables/" + name + "/lease")
	if err != nil {
		return 0
	}
	var l table.Lease
	if json.Unmarshal([]byte(p.Value), &l) != nil || l.Until.Before(time.Now()) {
		return 0
	}
	return l.ID
}
