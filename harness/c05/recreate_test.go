//go:build verif

package c05

// TestC05Recreate: the leader table is DELETED AND CREATED AGAIN under the same name while it is being replicated (an operator wiping a
// table).  The new table is another table: its log starts over.  The follower must end up with the new table's content - "tables
// deleted there disappear, tables created appear", "once the leader stops changing the follower reaches the leader's latest state".
// Stepped like TestC05 (worker polls, table-set reconciliation rounds and table manager rounds are harness actions).  Along the way the
// follower may still hold the old table (it has not noticed yet): its content must be the content of ONE of the leader table's
// incarnations at the index it records.  At the end, with the leader quiet, a bounded number of reconcile + poll rounds must reach the
// current table's latest state.

import (
	"context"
	"fmt"
	"testing"
	"time"

	"github.com/jamf/regatta/regattapb"
	"pgregory.net/rapid"

	"verifharness/internal/model"
	"verifharness/internal/replfx"
	"verifharness/internal/vt"
)

type RecreateCase struct {
	Acts []Act `json:"acts"` // put | del | txn | poll (N: log server) | recreate | reconcile
}

func genRecreate(t *rapid.T) RecreateCase {
	c := RecreateCase{}
	n := rapid.IntRange(4, 30).Draw(t, "n")
	for i := 0; i < n; i++ {
		k := rapid.IntRange(0, 19).Draw(t, "kind")
		switch {
		case k <= 3:
			c.Acts = append(c.Acts, Act{Kind: "put", K: rapid.SampledFrom(keys[:6]).Draw(t, "k"), V: rapid.SliceOfN(rapid.Byte(), 0, 12).Draw(t, "v")})
		case k == 4:
			c.Acts = append(c.Acts, Act{Kind: "del", K: rapid.SampledFrom(keys[:6]).Draw(t, "k")})
		case k <= 9:
			c.Acts = append(c.Acts, Act{Kind: "txn", N: rapid.IntRange(0, 3).Draw(t, "digit")})
		case k <= 14:
			c.Acts = append(c.Acts, Act{Kind: "poll", N: rapid.IntRange(0, len(replfx.LogSizes)-1).Draw(t, "server")})
		case k <= 16:
			c.Acts = append(c.Acts, Act{Kind: "reconcile"})
		default:
			c.Acts = append(c.Acts, Act{Kind: "recreate"})
		}
	}
	return c
}

func runRecreate(c RecreateCase, o *vt.Obs) *vt.Failure {
	if err := sharedPair(); err != nil {
		vt.Inconclusive("C05 fixture: " + err.Error())
		return nil
	}
	p := pair
	name := fmt.Sprintf("rc%d", caseNo.Add(1))
	if _, err := p.L.CreateTable(name); err != nil {
		vt.Inconclusive("C05 create leader table: " + err.Error())
		return nil
	}
	defer replfx.DropTable(p.L, name)
	if _, err := p.F.CreateTable(name); err != nil {
		vt.Inconclusive("C05 create follower table: " + err.Error())
		return nil
	}
	defer func() { replfx.DropTable(p.F, name) }()

	m := model.New()
	incarnations := []*history{{}} // one history of states per incarnation of the leader table
	cur := func() *history { return incarnations[len(incarnations)-1] }
	record := func(rev uint64) {
		h := cur()
		h.revs = append(h.revs, rev)
		h.states = append(h.states, m.Clone())
	}
	ctxT := func() (context.Context, context.CancelFunc) {
		return context.WithTimeout(context.Background(), 20*time.Second)
	}
	followerState := func() (uint64, []model.Pair, bool) {
		_, l1, err := replfx.Indices(p.F.E, name)
		if err != nil {
			return 0, nil, false
		}
		content, err := replfx.ReadAll(p.F.E, name, true)
		if err != nil {
			return 0, nil, false
		}
		_, l2, err := replfx.Indices(p.F.E, name)
		if err != nil || l1 != l2 {
			return 0, nil, false
		}
		return l1, content, true
	}
	check := func(step int, what string) *vt.Failure {
		l, content, ok := followerState()
		if !ok {
			return nil // the table is being replaced
		}
		var lastErr error
		for _, h := range incarnations {
			if lastErr = samePairs(content, h.at(l).Pairs); lastErr == nil {
				return nil
			}
		}
		sig := prop + "/follower-differs-at-recorded-index"
		if len(incarnations) > 1 {
			// after a re-creation: commands of the new table's log applied on top of the old table's content (the known finding's second face)
			sig = prop + "/recreated-table-mixed-with-old-content"
		}
		return vt.Failf(sig, step, "after %s: the follower records leader index %d but its content is the content of NO incarnation of the leader table at that index (%d incarnations; against the current one: %v)", what, l, len(incarnations), lastErr)
	}
	recreations, polls := 0, 0
	lastSrv := 2
	for i, a := range c.Acts {
		switch a.Kind {
		case "put":
			ctx, cancel := ctxT()
			r, err := p.L.E.Put(ctx, &regattapb.PutRequest{Table: []byte(name), Key: a.K, Value: a.V})
			cancel()
			if err != nil {
				return vt.Failf(prop+"/leader-write-error", i, "%v", err)
			}
			m.Put(a.K, a.V)
			record(r.Header.Revision)
		case "del":
			ctx, cancel := ctxT()
			r, err := p.L.E.Delete(ctx, &regattapb.DeleteRangeRequest{Table: []byte(name), Key: a.K})
			cancel()
			if err != nil {
				return vt.Failf(prop+"/leader-write-error", i, "%v", err)
			}
			m.Del(a.K)
			record(r.Header.Revision)
		case "txn":
			cmp := []*regattapb.Compare{{Key: []byte("ctr"), Result: regattapb.Compare_EQUAL, TargetUnion: &regattapb.Compare_Value{Value: digit(a.N)}}}
			succ := []*regattapb.RequestOp{{Request: &regattapb.RequestOp_RequestPut{RequestPut: &regattapb.RequestOp_Put{Key: []byte("ctr"), Value: digit(a.N + 1)}}}}
			fail := []*regattapb.RequestOp{{Request: &regattapb.RequestOp_RequestPut{RequestPut: &regattapb.RequestOp_Put{Key: []byte("ctr"), Value: digit(0)}}},
				{Request: &regattapb.RequestOp_RequestPut{RequestPut: &regattapb.RequestOp_Put{Key: []byte("n"), Value: []byte(fmt.Sprintf("%d.%d", recreations, i))}}}}
			ctx, cancel := ctxT()
			r, err := p.L.E.Txn(ctx, &regattapb.TxnRequest{Table: []byte(name), Compare: cmp, Success: succ, Failure: fail})
			cancel()
			if err != nil {
				return vt.Failf(prop+"/leader-write-error", i, "%v", err)
			}
			m.ApplyTxn(cmp, succ, fail)
			record(r.Header.Revision)
		case "poll":
			lastSrv = a.N
			res, err := replfx.Poll(p.Worker(name, a.N))
			if err != nil && res != "table-not-exists" && res != "leader-behind" {
				return vt.Failf(prop+"/poll-error", i, "worker poll (%s): %v", res, err)
			}
			polls++
			o.Label("poll:" + res)
		case "reconcile":
			if err := p.Mgrs[0].VerifReconcileTables(); err != nil {
				return vt.Failf(prop+"/reconcile-tables-error", i, "%v", err)
			}
			_ = p.F.E.Manager.VerifReconcile()
			_ = p.F.WaitTablePatient(name, 20*time.Second)
		case "recreate":
			if err := p.L.E.DeleteTable(name); err != nil {
				vt.Inconclusive("C05 delete leader table: " + err.Error())
				return nil
			}
			_ = p.L.E.Manager.VerifReconcile()
			if _, err := p.L.CreateTable(name); err != nil {
				vt.Inconclusive("C05 re-create leader table: " + err.Error())
				return nil
			}
			m = model.New()
			incarnations = append(incarnations, &history{})
			recreations++
		}
		if f := check(i, a.Kind); f != nil {
			return f
		}
	}
	// the leader is quiet: rounds of table reconciliation and polls reach the CURRENT leader table's latest state
	leaderLocal, _, err := replfx.Indices(p.L.E, name)
	if err != nil {
		return vt.Failf(prop+"/leader-read-error", len(c.Acts), "%v", err)
	}
	reached := false
	var lastL uint64
	var lastDiff error
	for k := 0; k < 8 && !reached; k++ {
		_ = p.Mgrs[0].VerifReconcileTables()
		_ = p.F.E.Manager.VerifReconcile()
		_ = p.F.WaitTablePatient(name, 20*time.Second)
		if _, err := replfx.Poll(p.Worker(name, lastSrv)); err != nil {
			o.Label("final-poll-refused")
		}
		if l, content, ok := followerState(); ok {
			lastL = l
			if lastDiff = samePairs(content, m.Pairs); lastDiff == nil && l == leaderLocal {
				reached = true
			}
		}
	}
	if !reached {
		return vt.Failf(prop+"/does-not-reach-the-recreated-table", len(c.Acts), "the leader table was deleted and created again %d time(s); the leader is quiet at index %d; after 8 rounds of table reconciliation + poll the follower records leader index %d and differs from the leader's table: %v", recreations, leaderLocal, lastL, lastDiff)
	}
	if recreations > 0 {
		o.Label("leader-table-deleted-and-created-again")
	}
	o.NonTrivial = recreations > 0 && polls > 0
	o.Describe = func() string { return fmt.Sprintf("%+v", c.Acts) }
	return nil
}

func TestC05Recreate(t *testing.T)        { vt.Check(t, prop, genRecreate, runRecreate) }
func TestC05RecreateReplay(t *testing.T)  { vt.Replay(t, prop, runRecreate) }
func TestC05RecreateRegress(t *testing.T) { vt.Regress(t, prop, "testdata", runRecreate) }
