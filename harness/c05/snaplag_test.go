//go:build verif

package c05

// TestC05SnapshotLag: "that index never moves backwards ... whether the follower catches up by incremental log replication [or] by snapshot
// recovery after the leader compacted its log".  The leader is a CLUSTER: the node that serves the follower's snapshot request need not be
// the node whose log answered the follower's earlier polls, and its own copy of the table may lag.  A follower that has replicated
// everything committed so far (index X = commit index; any smaller X is covered with it) and is then told to recover from a snapshot
// must not be handed an image older than X - the table dump is a read that has to reflect every write acknowledged before it was
// requested, whichever replica serves it.  Real table layer (table.ActiveTable.Snapshot) over the raft stand-in with a lagging replica;
// untimed.  (Seeded change C05-N: the dump was read without consensus, from whatever the serving replica had applied.)

import (
	"context"
	"fmt"
	"io"
	"testing"

	"github.com/jamf/regatta/regattapb"
	"github.com/jamf/regatta/storage/table"
	"github.com/jamf/regatta/storage/table/fsm"
	"pgregory.net/rapid"

	"verifharness/internal/simraft"
	"verifharness/internal/vt"
)

type SnapLagCase struct {
	RecoveryType int   `json:"recovery_type"`
	Writes       int   `json:"writes"`      // acknowledged leader writes before the snapshot request
	LagApplied   int   `json:"lag_applied"` // how many of them the serving replica has applied on its own when the request arrives
	Rounds       []int `json:"rounds"`      // further rounds: that many more writes, then another snapshot request through the lagging replica
}

func genSnapLag(t *rapid.T) SnapLagCase {
	c := SnapLagCase{RecoveryType: rapid.IntRange(0, 1).Draw(t, "rtype"), Writes: rapid.IntRange(1, 20).Draw(t, "writes")}
	c.LagApplied = rapid.IntRange(0, c.Writes).Draw(t, "applied")
	c.Rounds = rapid.SliceOfN(rapid.IntRange(0, 5), 0, 3).Draw(t, "rounds")
	return c
}

func runSnapLag(c SnapLagCase, o *vt.Obs) *vt.Failure {
	cl, err := simraft.New(2, fsm.SnapshotRecoveryType(c.RecoveryType))
	if err != nil {
		return vt.Failf(prop+"/open-error", 0, "%v", err)
	}
	defer cl.Close()
	fresh := table.Table{Name: "t", ClusterID: 10001}.AsActive(simraft.Handle{C: cl, Replica: 0})
	lagging := table.Table{Name: "t", ClusterID: 10001}.AsActive(simraft.Handle{C: cl, Replica: 1})
	ctx := context.Background()
	n := 0
	write := func(k int) *vt.Failure {
		for i := 0; i < k; i++ {
			n++
			if _, err := fresh.Put(ctx, &regattapb.PutRequest{Table: []byte("t"), Key: []byte(fmt.Sprintf("k%02d", n%7)), Value: []byte(fmt.Sprint(n))}); err != nil {
				return vt.Failf(prop+"/leader-write-error", n, "%v", err)
			}
		}
		return nil
	}
	if f := write(c.Writes); f != nil {
		return f
	}
	if _, err := cl.CatchUp(1, uint64(c.LagApplied)); err != nil {
		return vt.Failf(prop+"/apply-error", 0, "%v", err)
	}
	lagged := false
	for round := 0; round <= len(c.Rounds); round++ {
		acked := cl.Commit()
		behind := acked - cl.Applied[1]
		resp, err := lagging.Snapshot(ctx, io.Discard)
		if err != nil {
			return vt.Failf(prop+"/leader-snapshot-error", round, "%v", err)
		}
		if resp.Index < acked {
			return vt.Failf(prop+"/snapshot-older-than-acknowledged-writes", round, "a table dump requested after %d acknowledged writes, served by a leader node whose own copy was %d entries behind, declares index %d: a follower that had replicated up to %d and is told to recover from it would move backwards", acked, behind, resp.Index, acked)
		}
		if behind > 0 {
			lagged = true
		}
		if round < len(c.Rounds) {
			if f := write(c.Rounds[round]); f != nil {
				return f
			}
		}
	}
	if lagged {
		o.Label("snapshot-served-by-a-lagging-leader-node")
	}
	o.NonTrivial = lagged
	o.Describe = func() string { return fmt.Sprintf("%+v", c) }
	return nil
}

func TestC05SnapshotLag(t *testing.T)       { vt.Check(t, prop, genSnapLag, runSnapLag) }
func TestC05SnapshotLagReplay(t *testing.T) { vt.Replay(t, prop, runSnapLag) }
