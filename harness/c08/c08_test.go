// C08 — in-cluster snapshots are faithful, point-in-time and installed atomically.
package c08

import (
	"bytes"
	"errors"
	"fmt"
	"io"
	"runtime/debug"
	"strings"
	"sync"
	"testing"
	"time"

	"github.com/cockroachdb/pebble/vfs"
	"github.com/jamf/regatta/regattapb"
	"github.com/jamf/regatta/storage/table/fsm"
	"github.com/jamf/regatta/util/iter"
	sm "github.com/lni/dragonboat/v4/statemachine"
	"pgregory.net/rapid"

	"verifharness/internal/crashfs"
	"verifharness/internal/fsmx"
	"verifharness/internal/gen"
	"verifharness/internal/model"
	"verifharness/internal/tlog"
	"verifharness/internal/vt"
)

const prop = "C08"

type Case struct {
	SaverType int `json:"saver_type"`
	RecvType  int `json:"recv_type"`
	// Saver: history before PrepareSnapshot; Between: Update calls applied after prepare and before/while saving.
	Saver   [][][]byte `json:"saver"`
	Between [][][]byte `json:"between"`
	// SyncBeforeSave: the saver's Sync() is called between prepare and save (dragonboat's concurrent save does prepare, Sync, save)
	SyncBeforeSave bool `json:"sync_before_save"`
	// Second: ANOTHER snapshot of the saver is prepared after the writes that follow the first prepare (a leader serving two lagging
	// peers; the raft library's periodic snapshot) and is "abandoned" (closed without ever being saved) or "saved-first", before the
	// first one is saved: prepared snapshots of one replica do not disturb each other (seeded change C08-M: closing one removed them all)
	Second string `json:"second,omitempty"`
	// Recv: the receiver's own, unrelated history (its own log).
	Recv     [][][]byte `json:"recv"`
	RecvSync bool       `json:"recv_sync"` // receiver syncs its own state before the install
	// Interrupt: "" | stop-save | stop-recover | crash-recover
	Interrupt string `json:"interrupt,omitempty"`
	StopAfter int    `json:"stop_after,omitempty"` // stop-save: after k writer calls; stop-recover: after k reader calls
	// crash-recover: points to run; empty = enumerate all operation boundaries of the install
	Points []int64 `json:"points,omitempty"`
	// Reader: "" | lazy (lookup before the install, consume after) | racing (goroutines reading across the install)
	Reader string `json:"reader,omitempty"`
	// SaverBulk: large constant-filled values the saver holds before its history (kept symbolic so that case files stay small): tables
	// bigger than what the snapshot writer ships in one piece
	SaverBulk []BulkPut `json:"saver_bulk,omitempty"`
}

type BulkPut struct {
	Key  string `json:"key"`
	Fill byte   `json:"fill"`
	N    int    `json:"n"`
	// Rand: incompressible content (a fixed xorshift stream seeded by Fill and N) - the snapshot writer rotates its pieces by their
	// COMPRESSED size, constant-filled values would never make it rotate
	Rand bool `json:"rand,omitempty"`
}

func (b BulkPut) value() []byte {
	if !b.Rand {
		return bytes.Repeat([]byte{b.Fill}, b.N)
	}
	out := make([]byte, b.N)
	x := uint64(b.Fill)*2654435761 + uint64(b.N) + 88172645463325252
	for i := 0; i+8 <= len(out); i += 8 {
		x ^= x << 13
		x ^= x >> 7
		x ^= x << 17
		out[i], out[i+1], out[i+2], out[i+3], out[i+4], out[i+5], out[i+6], out[i+7] = byte(x), byte(x>>8), byte(x>>16), byte(x>>24), byte(x>>32), byte(x>>40), byte(x>>48), byte(x>>56)
	}
	return out
}

// genBig: a saver table of 18-40 MiB (the sstable-stream format ships 16 MiB pieces, the checkpoint format several files), always with
// Update calls between prepare and save that overwrite / delete / add keys all over the key space and move both indices.
func genBig(t *rapid.T) Case {
	pool := gen.NewPool(t, 2, 5, 64)
	c := Case{
		SaverType:      rapid.IntRange(0, 1).Draw(t, "saver"),
		RecvType:       rapid.IntRange(0, 1).Draw(t, "recv"),
		Saver:          genBatches(t, pool, "saver", 0, 2),
		Recv:           genBatches(t, pool, "recv", 0, 2),
		RecvSync:       rapid.Bool().Draw(t, "recvsync"),
		SyncBeforeSave: rapid.Bool().Draw(t, "syncbeforesave"),
	}
	total, want := 0, rapid.IntRange(18, 40).Draw(t, "MiB")*1024*1024
	for i := 0; total < want; i++ {
		n := rapid.SampledFrom([]int{512 * 1024, 1024 * 1024, 2 * 1024 * 1024}).Draw(t, "bulksize")
		total += n
		c.SaverBulk = append(c.SaverBulk, BulkPut{Key: fmt.Sprintf("bulk%03d", i), Fill: byte('a' + i%26), N: n, Rand: rapid.IntRange(0, 4).Draw(t, "incompressible") > 0})
	}
	// between prepare and save: touch the first, a middle and the last bulk key, add keys before / after them, with leader indices
	li := uint64(5000)
	mk := func(cmd *regattapb.Command) []byte {
		li++
		x := li
		cmd.Table, cmd.LeaderIndex = []byte("t"), &x
		b, _ := cmd.MarshalVT()
		return b
	}
	nb := len(c.SaverBulk)
	c.Between = [][][]byte{
		{mk(&regattapb.Command{Type: regattapb.Command_PUT, Kv: &regattapb.KeyValue{Key: []byte(c.SaverBulk[0].Key), Value: []byte("overwritten-after-prepare")}})},
		{mk(&regattapb.Command{Type: regattapb.Command_DELETE, Kv: &regattapb.KeyValue{Key: []byte(c.SaverBulk[nb/2].Key)}}),
			mk(&regattapb.Command{Type: regattapb.Command_PUT, Kv: &regattapb.KeyValue{Key: []byte("a-new-first-key"), Value: []byte("added-after-prepare")}})},
		{mk(&regattapb.Command{Type: regattapb.Command_PUT, Kv: &regattapb.KeyValue{Key: []byte(c.SaverBulk[nb-1].Key), Value: []byte("overwritten-after-prepare")}}),
			mk(&regattapb.Command{Type: regattapb.Command_PUT, Kv: &regattapb.KeyValue{Key: []byte("zz-new-last-key"), Value: []byte("added-after-prepare")}})},
	}
	c.Between = append(c.Between, genBatches(t, pool, "between", 0, 2)...)
	return c
}

func genBatches(t *rapid.T, pool *gen.Pool, label string, minB, maxB int) [][][]byte {
	n := rapid.IntRange(minB, maxB).Draw(t, label+".batches")
	var out [][][]byte
	for i := 0; i < n; i++ {
		m := rapid.IntRange(1, 4).Draw(t, label+".n")
		var b [][]byte
		for j := 0; j < m; j++ {
			c := pool.Command(t, label, gen.CmdOpts{LeaderIndex: true})
			x, _ := c.MarshalVT()
			b = append(b, x)
		}
		out = append(out, b)
	}
	return out
}

func genCase(t *rapid.T) Case {
	pool := gen.NewPool(t, 2, 7, 1024)
	pool2 := gen.NewPool(t, 2, 5, 64)
	c := Case{
		SaverType: rapid.IntRange(0, 1).Draw(t, "saver"),
		RecvType:  rapid.IntRange(0, 1).Draw(t, "recv"),
		Saver:     genBatches(t, pool, "saver", 0, 6),
		Between:   genBatches(t, pool, "between", 0, 3),
		Recv:      genBatches(t, pool2, "recv", 0, 4),
		RecvSync:  rapid.Bool().Draw(t, "recvsync"),
	}
	c.SyncBeforeSave = rapid.Bool().Draw(t, "syncbeforesave")
	c.Second = rapid.SampledFrom([]string{"", "", "", "abandoned", "saved-first"}).Draw(t, "second")
	switch rapid.IntRange(0, 9).Draw(t, "mode") {
	case 0, 1:
		c.Interrupt = "stop-save"
		c.StopAfter = rapid.IntRange(0, 12).Draw(t, "stopafter")
	case 2, 3:
		c.Interrupt = "stop-recover"
		c.StopAfter = rapid.IntRange(0, 12).Draw(t, "stopafter")
	case 4:
		c.Interrupt = "crash-recover"
	case 5, 6:
		c.Reader = "lazy"
	case 7:
		c.Reader = "racing"
	}
	return c
}

// side = a real replica + its model.
type side struct {
	r    *fsmx.Replica
	m    *model.Map
	next uint64
}

func (s *side) apply(batches [][][]byte) error {
	for _, b := range batches {
		if _, err := s.r.Apply(fsmx.MkEntries(s.next, b)); err != nil {
			return err
		}
		for _, x := range b {
			cmd, err := tlog.DecodeCmd(x)
			if err != nil {
				panic(err)
			}
			s.m.Apply(cmd, s.next)
			s.next++
		}
	}
	return nil
}

func newSide(fs vfs.FS, typ int, node uint64) (*side, error) {
	r := fsmx.Create(fs, fsm.SnapshotRecoveryType(typ), node)
	if _, err := r.Open(); err != nil {
		return nil, err
	}
	return &side{r: r, m: model.New(), next: 1}, nil
}

// equalsModel compares content + both indices of a replica with a model state.
func equalsModel(r *fsmx.Replica, m *model.Map) error {
	all, err := r.All()
	if err != nil {
		return fmt.Errorf("scan: %w", err)
	}
	if len(all) != len(m.Pairs) {
		return fmt.Errorf("%d pairs, want %d", len(all), len(m.Pairs))
	}
	for i, kv := range all {
		if !bytes.Equal(kv.Key, m.Pairs[i].K) || !bytes.Equal(kv.Value, m.Pairs[i].V) {
			return fmt.Errorf("pair %d: %q=%q want %q=%q", i, kv.Key, kv.Value, m.Pairs[i].K, m.Pairs[i].V)
		}
	}
	li, err := r.LocalIndex()
	if err != nil || li != m.Index {
		return fmt.Errorf("applied index %d want %d (%v)", li, m.Index, err)
	}
	ld, err := r.LeaderIndex()
	if err != nil || ld != m.LeaderIndex {
		return fmt.Errorf("leader index %d want %d (%v)", ld, m.LeaderIndex, err)
	}
	return nil
}

type stopWriter struct {
	w     io.Writer
	n, at int
	stop  chan struct{}
	once  sync.Once
}

func (s *stopWriter) Write(p []byte) (int, error) {
	if s.n >= s.at {
		s.once.Do(func() { close(s.stop) })
	}
	s.n++
	return s.w.Write(p)
}

type stopReader struct {
	r     io.Reader
	n, at int
	stop  chan struct{}
	once  sync.Once
}

func (s *stopReader) Read(p []byte) (int, error) {
	if s.n >= s.at {
		s.once.Do(func() { close(s.stop) })
	}
	s.n++
	return s.r.Read(p)
}

func isPebbleClosed(r any) bool {
	s := fmt.Sprint(r)
	return strings.Contains(s, "pebble: closed")
}

const knownClosedSig = prop + "/panic:read-across-install-pebble-closed"
const knownShortSig = prop + "/read-across-install-silently-truncated"

func isPrefixOf(kvs []*regattapb.KeyValue, m *model.Map) bool {
	if len(kvs) > len(m.Pairs) {
		return false
	}
	for i, kv := range kvs {
		if !bytes.Equal(kv.Key, m.Pairs[i].K) || !bytes.Equal(kv.Value, m.Pairs[i].V) {
			return false
		}
	}
	return true
}

func run(c Case, o *vt.Obs) *vt.Failure {
	saver, err := newSide(fsmx.NewFS(), c.SaverType, 1)
	if err != nil {
		return vt.Failf(prop+"/open-error", 0, "%v", err)
	}
	defer func() { _ = saver.r.Close() }()
	if len(c.SaverBulk) > 0 {
		var bulk [][][]byte
		for i, b := range c.SaverBulk {
			li := uint64(100 + i)
			x, _ := (&regattapb.Command{Table: []byte("t"), Type: regattapb.Command_PUT, LeaderIndex: &li, Kv: &regattapb.KeyValue{Key: []byte(b.Key), Value: b.value()}}).MarshalVT()
			if i%4 == 0 {
				bulk = append(bulk, nil)
			}
			bulk[len(bulk)-1] = append(bulk[len(bulk)-1], x)
		}
		if err := saver.apply(bulk); err != nil {
			return vt.Failf(prop+"/apply-error", 0, "saver (bulk): %v", err)
		}
		o.Label("saver-table-larger-than-one-shipped-piece")
	}
	if err := saver.apply(c.Saver); err != nil {
		return vt.Failf(prop+"/apply-error", 0, "saver: %v", err)
	}
	atPrepare := saver.m.Clone()
	ctx, err := saver.r.Prepare()
	if err != nil {
		return vt.Failf(prop+"/prepare-error", 1, "%v", err)
	}
	// writes applied after prepare must not leak into the snapshot
	if err := saver.apply(c.Between); err != nil {
		return vt.Failf(prop+"/apply-error", 2, "saver (between prepare and save): %v", err)
	}
	if c.SyncBeforeSave {
		if err := saver.r.SM.Sync(); err != nil {
			return vt.Failf(prop+"/sync-error", 2, "saver Sync between prepare and save: %v", err)
		}
		if len(c.Between) > 0 {
			o.Label("flush-between-prepare-and-save")
		}
	}
	if c.Second != "" {
		ctx2, err := saver.r.Prepare()
		if err != nil {
			return vt.Failf(prop+"/prepare-error", 2, "second prepare: %v", err)
		}
		if c.Second == "saved-first" {
			if _, err := saver.r.Save(ctx2, nil); err != nil {
				return vt.Failf(prop+"/save-error", 2, "save of the snapshot prepared second: %v", err)
			}
		} else if cl, ok := ctx2.(interface{ Close() error }); ok {
			_ = cl.Close()
		}
		o.Label("second-prepared-snapshot-" + c.Second)
	}
	var snap []byte
	if c.Interrupt == "stop-save" {
		var buf bytes.Buffer
		sw := &stopWriter{w: &buf, at: c.StopAfter, stop: make(chan struct{})}
		err := saver.r.SM.SaveSnapshot(ctx, sw, sw.stop)
		if err != nil {
			if !errors.Is(err, sm.ErrSnapshotStopped) {
				return vt.Failf(prop+"/save-stop-error", 3, "stopped save returned %v, want ErrSnapshotStopped", err)
			}
			o.Label("save-stopped")
			// the saver stays fully usable
			if err := equalsModel(saver.r, saver.m); err != nil {
				return vt.Failf(prop+"/saver-damaged-by-stopped-save", 3, "%v", err)
			}
			o.NonTrivial = len(c.Between) > 0
			return nil
		}
		o.Label("save-completed-despite-stop")
		snap = buf.Bytes() // completed: must be a full, valid snapshot
	} else {
		snap, err = saver.r.Save(ctx, nil)
		if err != nil {
			return vt.Failf(prop+"/save-error", 3, "%v", err)
		}
	}

	// receiver with its own unrelated state
	var cfs *crashfs.FS
	var rfs vfs.FS = fsmx.NewFS()
	if c.Interrupt == "crash-recover" {
		cfs = crashfs.New(fsmx.DataDir)
		rfs = cfs
	}
	if c.Interrupt == "crash-recover" {
		return runCrash(c, o, snap, atPrepare)
	}
	recv, err := newSide(rfs, c.RecvType, 2)
	if err != nil {
		return vt.Failf(prop+"/open-error", 4, "receiver: %v", err)
	}
	abandoned := false
	defer func() {
		if !abandoned {
			_ = recv.r.Close()
		}
	}()
	if err := recv.apply(c.Recv); err != nil {
		return vt.Failf(prop+"/apply-error", 4, "receiver: %v", err)
	}
	if c.RecvSync {
		_ = recv.r.SM.Sync()
	}
	pre := recv.m.Clone()

	if c.Interrupt == "stop-recover" {
		sr := &stopReader{r: bytes.NewReader(snap), at: c.StopAfter, stop: make(chan struct{})}
		err := recv.r.RecoverFrom(sr, sr.stop)
		if err != nil {
			if !errors.Is(err, sm.ErrSnapshotStopped) {
				return vt.Failf(prop+"/recover-stop-error", 5, "stopped recover returned %v, want ErrSnapshotStopped", err)
			}
			o.Label("recover-stopped")
			// nothing of the install may be visible; the replica is shut down by the raft library afterwards, so the
			// remaining legal calls are reads, Close and a later Open
			if err := equalsModel(recv.r, pre); err != nil {
				return vt.Failf(prop+"/partial-install-visible", 5, "after a stopped install the receiver is not in its pre-install state: %v", err)
			}
			idx, err := recv.r.Reopen()
			if err != nil {
				return vt.Failf(prop+"/reopen-after-stopped-install", 5, "reopen: %v", err)
			}
			if idx != pre.Index {
				return vt.Failf(prop+"/partial-install-visible", 5, "reopen after a stopped install reports index %d, pre-install index %d", idx, pre.Index)
			}
			if err := equalsModel(recv.r, pre); err != nil {
				return vt.Failf(prop+"/partial-install-visible", 5, "after stopped install + reopen: %v", err)
			}
			o.NonTrivial = len(c.Recv) > 0
			return nil
		}
		o.Label("recover-completed-despite-stop")
	} else {
		// readers across the install
		var lazy []iter.Seq[*regattapb.ResponseOp_Range]
		var wg sync.WaitGroup
		stopReaders := make(chan struct{})
		var mu sync.Mutex
		var readerFail *vt.Failure
		knownPanic := false
		silentShort := false
		if c.Reader == "lazy" {
			for _, req := range []*regattapb.RequestOp_Range{{Key: []byte{0}, RangeEnd: []byte{0}}, {Key: []byte{0}, RangeEnd: []byte{0}, KeysOnly: true, Limit: 2}} {
				v, err := recv.r.SM.Lookup(fsm.IteratorRequest{RangeOp: req})
				if err != nil {
					return vt.Failf(prop+"/read-error", 5, "%v", err)
				}
				lazy = append(lazy, v.(iter.Seq[*regattapb.ResponseOp_Range]))
			}
		}
		racing := c.Reader == "racing"
		if racing && vt.IsKnown(knownClosedSig) {
			// Excluded by construction while the finding is listed: readers racing with an install panic or hang
			// inside pebble (DB handle closed under them) in many schedule-dependent ways; counted, not executed.
			o.KnownHit(knownClosedSig + "(racing readers not executed)")
			o.Label("racing-readers-excluded-by-known-finding")
			racing = false
		}
		if racing {
			for g := 0; g < 6; g++ {
				wg.Add(1)
				go func(g int) {
					defer wg.Done()
					defer func() {
						if r := recover(); r != nil {
							mu.Lock()
							if isPebbleClosed(r) || strings.Contains(string(debug.Stack()), "github.com/cockroachdb/pebble") {
								knownPanic = true // the panic originates inside pebble, on the DB handle the install closes
							} else if readerFail == nil {
								fmt.Printf("VERIF-DEBUG racing reader panic: %v\n%s\n", r, debug.Stack())
								readerFail = vt.Failf(prop+"/panic:racing-reader", 5, "reader panicked: %v\n%s", r, debug.Stack())
							}
							mu.Unlock()
						}
					}()
					for {
						select {
						case <-stopReaders:
							return
						default:
						}
						resp, err := recv.r.Range(&regattapb.RequestOp_Range{Key: []byte{0}, RangeEnd: []byte{0}})
						if err != nil {
							continue // failing cleanly is allowed
						}
						// old state or new state, nothing else
						if !matches(resp.Kvs, pre) && !matches(resp.Kvs, atPrepare) {
							mu.Lock()
							if isPrefixOf(resp.Kvs, pre) || isPrefixOf(resp.Kvs, atPrepare) {
								// known finding: iterator errors on the DB handle closed by the install are swallowed,
								// the read silently returns a truncated (often empty) result
								silentShort = true
							} else if readerFail == nil {
								readerFail = vt.Failf(prop+"/mixed-state-visible", 5, "a read overlapping the install saw %d pairs that are neither the old nor the new state nor a truncation of one of them", len(resp.Kvs))
							}
							mu.Unlock()
							return
						}
					}
				}(g)
			}
		}
		err := recv.r.Recover(snap, nil)
		close(stopReaders)
		done := make(chan struct{})
		go func() { wg.Wait(); close(done) }()
		select {
		case <-done:
		case <-time.After(10 * time.Second):
			// readers are stuck: after a panic inside pebble its mutexes may stay locked for ever
			abandoned = true
			mu.Lock()
			kp, rf := knownPanic, readerFail
			mu.Unlock()
			if !kp && rf == nil {
				vt.Inconclusive("C08: racing readers did not finish within 10 s and no panic was observed")
				return nil
			}
		}
		mu.Lock()
		rf, kp, ss := readerFail, knownPanic, silentShort
		mu.Unlock()
		if rf != nil {
			abandoned = true
			return rf
		}
		if ss {
			abandoned = true
			if !vt.IsKnown(knownShortSig) {
				return vt.Failf(knownShortSig, 5, "a Lookup racing with RecoverFromSnapshot returned, without error, a truncated result that is neither the old nor the new state")
			}
			o.KnownHit(knownShortSig)
			return nil
		}
		if kp {
			abandoned = true // a panic inside pebble may leave its mutexes locked: no further calls on this instance
			if !vt.IsKnown(knownClosedSig) {
				return vt.Failf(knownClosedSig, 5, "a Lookup racing with RecoverFromSnapshot panicked with 'pebble: closed'")
			}
			o.KnownHit(knownClosedSig)
			return nil
		}
		if err != nil {
			return vt.Failf(prop+"/recover-error", 5, "RecoverFromSnapshot: %v", err)
		}
		if racing {
			o.Label("racing-readers-across-install")
			o.NonTrivial = true
		}
		if c.Reader == "lazy" {
			// consume, after the install, the sequences obtained before it: old state, new state or a clean failure
			for i, seq := range lazy {
				perr := func() (p any) {
					defer func() { p = recover() }()
					seq(func(r *regattapb.ResponseOp_Range) bool { return true })
					return nil
				}()
				if perr != nil {
					if isPebbleClosed(perr) {
						// raised by pebble's entry check before any lock is taken: the instance stays usable
						if !vt.IsKnown(knownClosedSig) {
							return vt.Failf(knownClosedSig, 6, "a range sequence obtained before an install and consumed after it panicked: %v", perr)
						}
						o.KnownHit(knownClosedSig)
						continue
					}
					abandoned = true
					return vt.Failf(prop+"/panic:lazy-reader", 6, "lazy sequence %d panicked: %v", i, perr)
				}
			}
			o.Label("lazy-read-across-install")
			o.NonTrivial = true
		}
	}
	// the install took effect completely
	if err := equalsModel(recv.r, atPrepare); err != nil {
		return vt.Failf(prop+"/installed-state-differs", 6, "receiver after install vs saver at prepare time (saver type %d, receiver type %d): %v", c.SaverType, c.RecvType, err)
	}
	// the receiver continues with the saver's log: applying the entries after the snapshot reaches the saver's final state
	recv.m = atPrepare.Clone()
	recv.next = atPrepare.Index + 1
	if atPrepare.Index == 0 {
		recv.next = 1
	}
	if err := recv.apply(c.Between); err != nil {
		return vt.Failf(prop+"/apply-error", 7, "receiver after install: %v", err)
	}
	if err := equalsModel(recv.r, saver.m); err != nil {
		return vt.Failf(prop+"/diverged-after-install", 7, "receiver after install + remaining log vs saver: %v", err)
	}
	idx, err := recv.r.Reopen()
	if err != nil || idx != saver.m.Index {
		return vt.Failf(prop+"/reopen-after-install", 8, "reopen after install: index %d want %d err %v", idx, saver.m.Index, err)
	}
	if err := equalsModel(recv.r, saver.m); err != nil {
		return vt.Failf(prop+"/reopen-after-install", 8, "after install + reopen: %v", err)
	}
	if len(c.Between) > 0 {
		o.Label("writes-between-prepare-and-save")
	}
	if c.SaverType != c.RecvType {
		o.Label("cross-format")
	}
	if len(c.Recv) > 0 {
		o.Label("receiver-had-own-state")
	}
	if len(c.Between) > 0 && (c.SaverType != c.RecvType || c.Interrupt != "" || len(c.SaverBulk) > 0) {
		o.NonTrivial = true
	}
	o.Describe = func() string { return describe(c) }
	return nil
}

func matches(kvs []*regattapb.KeyValue, m *model.Map) bool {
	if len(kvs) != len(m.Pairs) {
		return false
	}
	for i, kv := range kvs {
		if !bytes.Equal(kv.Key, m.Pairs[i].K) || !bytes.Equal(kv.Value, m.Pairs[i].V) {
			return false
		}
	}
	return true
}

// runCrash enumerates every file-system operation boundary of the install as a crash point.
// crash points >= killBase use the "process dies, operating system survives" fault model at point-killBase
const killBase = int64(1_000_000)

func runCrash(c Case, o *vt.Obs, snap []byte, installed *model.Map) *vt.Failure {
	exec := func(point int64) (int64, *vt.Failure) {
		cfs := crashfs.New(fsmx.DataDir)
		recv, err := newSide(cfs, c.RecvType, 2)
		if err != nil {
			return 0, vt.Failf(prop+"/open-error", 4, "receiver: %v", err)
		}
		if err := recv.apply(c.Recv); err != nil {
			return 0, vt.Failf(prop+"/apply-error", 4, "receiver: %v", err)
		}
		durable := uint64(0)
		if c.RecvSync {
			if err := recv.r.SM.Sync(); err != nil {
				return 0, vt.Failf(prop+"/sync-error", 4, "%v", err)
			}
			durable = recv.m.Index
		}
		// prefix states of the receiver's own log
		kill := point >= killBase
		if kill {
			// second fault model: the process dies at this operation while the operating system survives - everything done so far
			// stays, nothing further happens
			cfs.ArmKeep(point - killBase)
		} else {
			cfs.Arm(point)
		}
		rerr := recv.r.Recover(snap, nil)
		ops := cfs.Count()
		if rerr != nil && !cfs.Crashed() {
			return 0, vt.Failf(prop+"/recover-error", 5, "RecoverFromSnapshot: %v", rerr)
		}
		_ = recv.r.Close()
		if point < 0 {
			return ops, nil
		}
		cfs.Crash()
		r := fsmx.Create(cfs, fsm.SnapshotRecoveryType(c.RecvType), 2)
		idx, err := r.Open()
		if err != nil {
			return ops, vt.Failf(prop+"/crash-in-install/reopen-fails", int(point), "Open after a crash at install operation %d: %v\n%s", point, err, clipS(cfs.Dump(), 1200))
		}
		defer r.Close()
		// all or nothing: exactly the installed state, or a prefix (>= last sync) of the receiver's own log
		if err := equalsModel(r, installed); err == nil && idx == installed.Index {
			o.Label("crash->installed-state")
			return ops, nil
		}
		own := model.New()
		n := uint64(0)
		if err := equalsModel(r, own); err == nil && idx == 0 && durable == 0 {
			o.Label("crash->pre-install-state")
			return ops, nil
		}
		for _, b := range c.Recv {
			for _, x := range b {
				cmd, _ := tlog.DecodeCmd(x)
				n++
				own.Apply(cmd, n)
				if n == idx && n >= durable {
					if err := equalsModel(r, own); err == nil {
						o.Label("crash->pre-install-state")
						return ops, nil
					}
				}
			}
		}
		model_ := "power loss (unsynced state dropped)"
		if kill {
			model_ = "the process dies there, nothing done before is lost"
		}
		return ops, vt.Failf(prop+"/crash-in-install/neither-old-nor-new", int(point%killBase), "interruption at install operation %d (%s): reopened at index %d with a state that is neither the installed snapshot (index %d) nor a prefix >= %d of the receiver's own log", point%killBase, model_, idx, installed.Index, durable)
	}
	points := c.Points
	if len(points) == 0 {
		total, f := exec(-1)
		if f != nil {
			return f
		}
		for p := int64(0); p <= total; p++ {
			points = append(points, p)
		}
		for p := int64(0); p <= total; p++ {
			points = append(points, killBase+p)
		}
	}
	for _, p := range points {
		if _, f := exec(p); f != nil {
			n := c
			n.Points = []int64{p}
			f.Case = n
			return f
		}
		o.SubNonTrivial(fmt.Sprintf("p%d", p))
	}
	o.Evals = len(points)
	o.Label("crash-points-in-install")
	o.Describe = func() string { return fmt.Sprintf("%d crash points inside the install; %s", len(points), describe(c)) }
	return nil
}

func clipS(s string, n int) string {
	if len(s) > n {
		return s[:n]
	}
	return s
}

func describe(c Case) string {
	var steps []tlog.Step
	for _, b := range c.Saver {
		steps = append(steps, tlog.Step{Op: "apply", Cmds: b})
	}
	steps = append(steps, tlog.Step{Op: "PREPARE"})
	for _, b := range c.Between {
		steps = append(steps, tlog.Step{Op: "apply", Cmds: b})
	}
	steps = append(steps, tlog.Step{Op: "SAVE"})
	s := fmt.Sprintf("saver type %d -> receiver type %d, interrupt=%q stop_after=%d reader=%q recv_sync=%v\nsaver:\n%s", c.SaverType, c.RecvType, c.Interrupt, c.StopAfter, c.Reader, c.RecvSync, tlog.Describe(steps))
	var rs []tlog.Step
	for _, b := range c.Recv {
		rs = append(rs, tlog.Step{Op: "apply", Cmds: b})
	}
	return s + "receiver:\n" + tlog.Describe(rs)
}

func TestC08(t *testing.T)        { vt.Check(t, prop, genCase, run) }
func TestC08Replay(t *testing.T)  { vt.Replay(t, prop, run) }
func TestC08Regress(t *testing.T) { vt.Regress(t, prop, "testdata", run) }

func TestC08Big(t *testing.T)        { vt.Check(t, prop, genBig, run) }
func TestC08BigReplay(t *testing.T)  { vt.Replay(t, prop, run) }
func TestC08BigRegress(t *testing.T) { vt.Regress(t, prop, "testdata", run) }
