//go:build verif

package c08

// TestC08Cluster: in-cluster snapshots as the raft library really takes, ships and installs them.  A real 3-node regatta cluster in one
// process whose nodes are configured with DIFFERENT snapshot formats (generated per process shard), tables that snapshot every few
// entries and keep next to nothing of their log: a node is taken down, the others keep writing (generated puts incl. sizeable and
// empty values, deletes, range deletes, non-idempotent transactions) until the log the node would need is gone, then the node comes
// back - it can only catch up by a snapshot streamed from a peer (possibly of another format) - and some more writes follow.
// Oracle: a linearizable read on the returned node (it completes once the node has caught up) is the model's content; after the
// writes have stopped every node's own copy is the model's content and all copies report the same applied index.

import (
	"bytes"
	"context"
	"errors"
	"fmt"
	"os"
	"sync"
	"sync/atomic"
	"testing"
	"time"

	"github.com/jamf/regatta/regattapb"
	"github.com/jamf/regatta/storage/table"
	"github.com/lni/dragonboat/v4"
	"pgregory.net/rapid"

	"verifharness/internal/enginefx"
	"verifharness/internal/model"
	"verifharness/internal/vt"
)

type CAct struct {
	Kind string `json:"kind"` // put | del | delrange | txn | down (N: node) | up
	K    []byte `json:"k,omitempty"`
	N    int    `json:"n,omitempty"` // put: value size; txn: expected digit; down: node
}

type ClusterCase struct {
	Acts []CAct `json:"acts"`
}

var cKeys = [][]byte{[]byte("a"), []byte("b"), []byte("b\x00"), []byte("c"), []byte("ctr"), []byte("\xff"), bytes.Repeat([]byte{'L'}, 1024)}

func genClusterCase(t *rapid.T) ClusterCase {
	c := ClusterCase{}
	write := func() CAct {
		switch k := rapid.IntRange(0, 9).Draw(t, "w"); {
		case k <= 3:
			return CAct{Kind: "put", K: rapid.SampledFrom(cKeys).Draw(t, "k"), N: rapid.SampledFrom([]int{0, 1, 7, 300, 70_000, 600_000}).Draw(t, "size")}
		case k == 4:
			return CAct{Kind: "del", K: rapid.SampledFrom(cKeys).Draw(t, "k")}
		case k == 5:
			return CAct{Kind: "delrange", K: rapid.SampledFrom(cKeys).Draw(t, "k")}
		default:
			return CAct{Kind: "txn", N: rapid.IntRange(0, 3).Draw(t, "digit")}
		}
	}
	for i, n := 0, rapid.IntRange(0, 12).Draw(t, "before"); i < n; i++ {
		c.Acts = append(c.Acts, write())
	}
	rounds := rapid.IntRange(1, 2).Draw(t, "rounds")
	for r := 0; r < rounds; r++ {
		c.Acts = append(c.Acts, CAct{Kind: "down", N: rapid.IntRange(0, 2).Draw(t, "node")})
		for i, n := 0, rapid.IntRange(25, 60).Draw(t, "while-down"); i < n; i++ {
			c.Acts = append(c.Acts, write())
		}
		c.Acts = append(c.Acts, CAct{Kind: "up"})
		for i, n := 0, rapid.IntRange(0, 8).Draw(t, "after"); i < n; i++ {
			c.Acts = append(c.Acts, write())
		}
	}
	return c
}

var (
	cOnce    sync.Once
	cFx      []*enginefx.Fixture
	cErr     error
	cNo      atomic.Int64
	cFormats []table.SnapshotRecoveryType
	cApplied [3]atomic.Int64 // apply calls per node (all tables)
)

func value(i, size int) []byte {
	v := []byte(fmt.Sprintf("v%d.", i))
	if size > len(v) {
		v = append(v, bytes.Repeat([]byte{byte('a' + i%26)}, size-len(v))...)
	}
	if size == 0 {
		return nil
	}
	return v
}

func runClusterCase(c ClusterCase, o *vt.Obs) *vt.Failure {
	cOnce.Do(func() {
		// the formats of the three nodes depend on the process shard: all mixes occur over the shards of a run
		mixes := [][]table.SnapshotRecoveryType{
			{table.RecoveryTypeSnapshot, table.RecoveryTypeCheckpoint, table.RecoveryTypeSnapshot},
			{table.RecoveryTypeCheckpoint, table.RecoveryTypeSnapshot, table.RecoveryTypeCheckpoint},
			{table.RecoveryTypeCheckpoint, table.RecoveryTypeCheckpoint, table.RecoveryTypeCheckpoint},
			{table.RecoveryTypeSnapshot, table.RecoveryTypeSnapshot, table.RecoveryTypeSnapshot},
		}
		sh := 0
		if s := os.Getenv("VERIF_SHARD"); s != "" {
			sh = int(s[len(s)-1] - '0')
		}
		cFormats = mixes[sh%len(mixes)]
		cFx, cErr = enginefx.StartCluster(3, enginefx.Opts{MaxInMemLogSize: 6 * 1024 * 1024, SnapshotEntries: 10, CompactionOverhead: 2, RecoveryTypes: cFormats,
			AppliedNode: func(node int, table string, rev uint64) { cApplied[node].Add(1) }})
	})
	if cErr != nil {
		vt.Inconclusive("C08 cluster fixture: " + cErr.Error())
		return nil
	}
	for _, f := range cFx {
		if f.E == nil {
			if err := f.Restart(); err != nil {
				vt.Inconclusive("C08 cluster node restart: " + err.Error())
				return nil
			}
		}
	}
	name := fmt.Sprintf("snap%d", cNo.Add(1))
	if _, err := enginefx.ClusterCreateTable(cFx, name, 60*time.Second); err != nil {
		vt.Inconclusive("C08 cluster table: " + err.Error())
		return nil
	}
	defer enginefx.ClusterDropTable(cFx, name)
	defer func() {
		for _, f := range cFx {
			if f.E == nil {
				_ = f.Restart()
			}
		}
	}()
	m := model.New()
	down := -1
	writes, missed := 0, 0
	snapshotCatchUps := 0
	writer := func() *enginefx.Fixture {
		for i, f := range cFx {
			if i != down && f.E != nil {
				return f
			}
		}
		return nil
	}
	ctxT := func() (context.Context, context.CancelFunc) {
		return context.WithTimeout(context.Background(), 30*time.Second)
	}
	readNode := func(node int, linearizable bool) ([]model.Pair, error) {
		ctx, cancel := context.WithTimeout(context.Background(), 60*time.Second)
		defer cancel()
		st, err := cFx[node].E.IterateRange(ctx, &regattapb.RangeRequest{Table: []byte(name), Key: []byte{0}, RangeEnd: []byte{0}, Linearizable: linearizable})
		if err != nil {
			return nil, err
		}
		var out []model.Pair
		st(func(r *regattapb.RangeResponse) bool {
			for _, kv := range r.Kvs {
				out = append(out, model.Pair{K: append([]byte(nil), kv.Key...), V: append([]byte(nil), kv.Value...)})
			}
			return true
		})
		return out, nil
	}
	same := func(got []model.Pair) error {
		if len(got) != len(m.Pairs) {
			return fmt.Errorf("%d pairs, the model holds %d", len(got), len(m.Pairs))
		}
		for i := range got {
			if !bytes.Equal(got[i].K, m.Pairs[i].K) || !bytes.Equal(got[i].V, m.Pairs[i].V) {
				return fmt.Errorf("pair %d: %q (value of %d bytes), model %q (value of %d bytes)", i, clipK(got[i].K), len(got[i].V), clipK(m.Pairs[i].K), len(m.Pairs[i].V))
			}
		}
		return nil
	}
	for i, a := range c.Acts {
		switch a.Kind {
		case "put", "del", "delrange", "txn":
			w := writer()
			if w == nil {
				vt.Inconclusive("C08 cluster: no node up")
				return nil
			}
			var err error
			// a proposal that was DROPPED (the raft group is electing a leader after a node went away, the system is busy) certainly
			// had no effect and is sent again; a timeout is ambiguous and ends the case
			for attempt := 0; attempt < 200; attempt++ {
				ctx, cancel := ctxT()
				switch a.Kind {
				case "put":
					v := value(i, a.N)
					if _, err = w.E.Put(ctx, &regattapb.PutRequest{Table: []byte(name), Key: a.K, Value: v}); err == nil {
						m.Put(a.K, v)
					}
				case "del":
					if _, err = w.E.Delete(ctx, &regattapb.DeleteRangeRequest{Table: []byte(name), Key: a.K}); err == nil {
						m.Del(a.K)
					}
				case "delrange":
					end := append(append([]byte(nil), a.K...), 0xff)
					if _, err = w.E.Delete(ctx, &regattapb.DeleteRangeRequest{Table: []byte(name), Key: a.K, RangeEnd: end}); err == nil {
						m.DelRange(a.K, end)
					}
				default:
					cmp := []*regattapb.Compare{{Key: []byte("ctr"), Result: regattapb.Compare_EQUAL, TargetUnion: &regattapb.Compare_Value{Value: []byte{byte('0' + a.N%4)}}}}
					succ := []*regattapb.RequestOp{{Request: &regattapb.RequestOp_RequestPut{RequestPut: &regattapb.RequestOp_Put{Key: []byte("ctr"), Value: []byte{byte('0' + (a.N+1)%4)}}}}}
					fail := []*regattapb.RequestOp{{Request: &regattapb.RequestOp_RequestPut{RequestPut: &regattapb.RequestOp_Put{Key: []byte("ctr"), Value: []byte("0")}}},
						{Request: &regattapb.RequestOp_RequestPut{RequestPut: &regattapb.RequestOp_Put{Key: []byte("n"), Value: []byte(fmt.Sprintf("%d", i))}}}}
					if _, err = w.E.Txn(ctx, &regattapb.TxnRequest{Table: []byte(name), Compare: cmp, Success: succ, Failure: fail}); err == nil {
						m.ApplyTxn(cmp, succ, fail)
					}
				}
				cancel()
				if err == nil || !(errors.Is(err, dragonboat.ErrShardNotReady) || errors.Is(err, dragonboat.ErrSystemBusy) || errors.Is(err, dragonboat.ErrShardNotFound)) {
					break
				}
				time.Sleep(50 * time.Millisecond)
			}
			if err != nil && os.Getenv("VERIF_DEBUG_C08") != "" {
				fmt.Printf("DEBUG write %d %s key %q size %d failed: %v (down=%d writes=%d missed=%d writer=node%d)\n", i, a.Kind, clipK(a.K), a.N, err, down, writes, missed, w.Cfg.NodeID)
			}
			if err != nil {
				// an ambiguous outcome (timeout while a node is down) would make the model unreliable: the case ends without a verdict
				vt.Inconclusive(fmt.Sprintf("C08 cluster write (%s): %v", a.Kind, err))
				return nil
			}
			writes++
			if down >= 0 {
				missed++
			}
		case "down":
			if down >= 0 {
				continue
			}
			down = a.N % 3
			if err := cFx[down].Stop(); err != nil {
				vt.Inconclusive("C08 cluster node stop: " + err.Error())
				return nil
			}
			missed = 0
			// a proposal handed to a leader that has just gone away is lost (the client only sees its deadline pass, which is
			// ambiguous): wait until the remaining nodes know a leader among themselves before writing on
			if w := writer(); w != nil {
				if tb, err := w.E.GetTable(name); err == nil {
					for dl := time.Now().Add(20 * time.Second); time.Now().Before(dl); time.Sleep(10 * time.Millisecond) {
						if id, _, ok, err := w.E.NodeHost.GetLeaderID(tb.ClusterID); err == nil && ok && int(id)-1 != down {
							break
						}
					}
					time.Sleep(30 * time.Millisecond)
				}
			}
		case "up":
			if down < 0 {
				continue
			}
			node := down
			before := cApplied[node].Load()
			if err := cFx[node].Restart(); err != nil {
				vt.Inconclusive("C08 cluster node start: " + err.Error())
				return nil
			}
			_ = cFx[node].E.Manager.VerifReconcile()
			if err := cFx[node].WaitTablePatient(name, 60*time.Second); err != nil {
				vt.Inconclusive("C08 cluster: table on the returned node: " + err.Error())
				return nil
			}
			down = -1
			got, err := readNode(node, true)
			if err != nil {
				vt.Inconclusive("C08 cluster: read on the returned node: " + err.Error())
				return nil
			}
			if err := same(got); err != nil {
				return vt.Failf(prop+"/cluster-catch-up-differs", i, "node %d (format %v) was down for %d writes and came back; a linearizable read on it (peers' formats %v): %v", node+1, cFormats[node], missed, cFormats, err)
			}
			// fewer apply calls than missed entries: the node did not get those entries from the log
			if applied := cApplied[node].Load() - before; applied < int64(missed) {
				snapshotCatchUps++
			}
		}
	}
	if down >= 0 {
		if err := cFx[down].Restart(); err == nil {
			_ = cFx[down].E.Manager.VerifReconcile()
			_ = cFx[down].WaitTablePatient(name, 60*time.Second)
		}
		down = -1
	}
	// settled: every node's own copy
	var indices []uint64
	for node := range cFx {
		if cFx[node].E == nil {
			continue
		}
		if _, err := readNode(node, true); err != nil { // brings the node up to date
			vt.Inconclusive("C08 cluster: settling read: " + err.Error())
			return nil
		}
		got, err := readNode(node, false)
		if err != nil {
			vt.Inconclusive("C08 cluster: local read: " + err.Error())
			return nil
		}
		if err := same(got); err != nil {
			return vt.Failf(prop+"/cluster-copy-differs", len(c.Acts), "after the writes stopped, node %d's own copy (format %v): %v", node+1, cFormats[node], err)
		}
		if tb, err := cFx[node].E.GetTable(name); err == nil {
			ctx, cancel := ctxT()
			li, err := tb.LocalIndex(ctx, false)
			cancel()
			if err == nil {
				indices = append(indices, li.Index)
			}
		}
	}
	for _, x := range indices {
		if x != indices[0] {
			return vt.Failf(prop+"/cluster-applied-index-differs", len(c.Acts), "after the writes stopped the nodes report applied indices %v for the same table", indices)
		}
	}
	if snapshotCatchUps > 0 {
		o.Label("node-caught-up-by-a-streamed-snapshot")
	}
	o.Label(fmt.Sprintf("formats:%v", cFormats))
	o.NonTrivial = snapshotCatchUps > 0
	o.Describe = func() string {
		return fmt.Sprintf("formats %v, %d writes, %d snapshot catch-ups, %d acts", cFormats, writes, snapshotCatchUps, len(c.Acts))
	}
	return nil
}

func clipK(b []byte) []byte {
	if len(b) > 16 {
		return b[:16]
	}
	return b
}

func TestC08Cluster(t *testing.T)        { vt.Check(t, prop, genClusterCase, runClusterCase) }
func TestC08ClusterReplay(t *testing.T)  { vt.Replay(t, prop, runClusterCase) }
func TestC08ClusterRegress(t *testing.T) { vt.Regress(t, prop, "testdata", runClusterCase) }
