// C02 — transactions are atomic if/then/else: one branch, in order, all or nothing.
package c02

import (
	"bytes"
	"fmt"
	"sync"
	"sync/atomic"
	"testing"

	"github.com/jamf/regatta/regattapb"
	"github.com/jamf/regatta/storage/table/fsm"
	"pgregory.net/rapid"

	"verifharness/internal/fsmx"
	"verifharness/internal/gen"
	"verifharness/internal/model"
	"verifharness/internal/tlog"
	"verifharness/internal/vt"
)

const prop = "C02"

// ---- part 1: model-based histories with many transactions ------------------------------------

type Case struct {
	RecoveryType int         `json:"recovery_type"`
	Steps        []tlog.Step `json:"steps"`
}

func genCase(t *rapid.T) Case {
	p := gen.NewPool(t, 2, 6, 1024)
	maxSteps := 25
	if vt.Thorough() {
		maxSteps = 50
	}
	// a third of the histories also flush and reopen the table: what a transaction deleted or overwrote must stay so
	maint := rapid.IntRange(0, 2).Draw(t, "maintenance") == 0
	return Case{
		RecoveryType: rapid.IntRange(0, 1).Draw(t, "rtype"),
		Steps:        tlog.GenSteps(t, p, tlog.GenOpts{MinSteps: 1, MaxSteps: maxSteps, MaxBatch: 4, LeaderIndex: false, Reads: true, ROTxn: true, Maintenance: maint, TxnHeavy: true}),
	}
}

func run(c Case, o *vt.Obs) *vt.Failure {
	e, f := tlog.NewExec(prop, fsm.SnapshotRecoveryType(c.RecoveryType))
	if f != nil {
		return f
	}
	defer e.Close()
	meta := 0
	for i, s := range c.Steps {
		if f := e.Run(i, s); f != nil {
			return f
		}
		if s.Op == "rotxn" {
			// metamorphic relations for read-only transactions on the same state:
			//   read path (Lookup, checked above)  ==  the chosen branch's range ops issued individually
			//   ==  the same transaction sent through the log as a TXN command.
			if f := metamorphic(e, i, s); f != nil {
				return f
			}
			meta++
		}
	}
	if f := e.CheckFull(len(c.Steps)); f != nil {
		return f
	}
	tr := e.M.T
	if tr.TxnSucc > 0 {
		o.Label("txn-success-branch")
	}
	if tr.TxnFail > 0 {
		o.Label("txn-failure-branch")
	}
	if tr.TxnRich > 0 {
		o.Label("txn-rich(pred>=1,ops>=2,reads-own-write)")
	}
	if tr.TxnEmptyTaken > 0 {
		o.Label("txn-empty-branch-taken")
	}
	if meta > 0 {
		o.Label("readonly-txn-metamorphic")
	}
	o.NonTrivial = tr.TxnRich > 0
	o.Describe = func() string { return tlog.Describe(c.Steps) }
	return nil
}

func metamorphic(e *tlog.Exec, stepNo int, s tlog.Step) *vt.Failure {
	req, _ := tlog.DecodeTxnReq(s)
	viaLookup, err := e.R.Txn(req)
	if err != nil {
		return vt.Failf(prop+"/rotxn-error", stepNo, "lookup: %v", err)
	}
	ops := req.Failure
	if viaLookup.Succeeded {
		ops = req.Success
	}
	if len(ops) != len(viaLookup.Responses) {
		return vt.Failf(prop+"/rotxn-response-count", stepNo, "%d responses for %d ops", len(viaLookup.Responses), len(ops))
	}
	for i, op := range ops {
		single, rerr := e.R.Range(op.GetRequestRange())
		if rerr != nil {
			return vt.Failf(prop+"/read-error", stepNo, "range: %v", rerr)
		}
		if !equalRange(single, viaLookup.Responses[i].GetResponseRange()) {
			return vt.Failf(prop+"/rotxn-vs-individual", stepNo, "op %d %s: txn answered %v, the same read alone answered %v", i, tlog.FmtRange(op.GetRequestRange()), viaLookup.Responses[i].GetResponseRange(), single)
		}
	}
	// write path: the same transaction as a log entry (changes nothing but the applied index)
	cmd := &regattapb.Command{Table: []byte("t"), Type: regattapb.Command_TXN, Txn: &regattapb.Txn{Compare: req.Compare, Success: req.Success, Failure: req.Failure}}
	b, _ := cmd.MarshalVT()
	before := len(e.Results)
	if f := e.Apply(stepNo, [][]byte{b}); f != nil {
		return f
	}
	r := e.Results[before]
	if (r.Value == 1) != viaLookup.Succeeded {
		return vt.Failf(prop+"/rotxn-vs-write-path", stepNo, "write path succeeded=%v, read path %v", r.Value == 1, viaLookup.Succeeded)
	}
	cr := &regattapb.CommandResult{}
	if len(r.Data) > 0 {
		if err := cr.UnmarshalVT(r.Data); err != nil {
			return vt.Failf(prop+"/rotxn-vs-write-path", stepNo, "undecodable result")
		}
	}
	if len(cr.Responses) != len(viaLookup.Responses) {
		return vt.Failf(prop+"/rotxn-vs-write-path", stepNo, "write path %d responses, read path %d", len(cr.Responses), len(viaLookup.Responses))
	}
	for i := range cr.Responses {
		if !equalRange(cr.Responses[i].GetResponseRange(), viaLookup.Responses[i].GetResponseRange()) {
			return vt.Failf(prop+"/rotxn-vs-write-path", stepNo, "op %d: write path %v, read path %v", i, cr.Responses[i], viaLookup.Responses[i])
		}
	}
	return nil
}

func equalRange(a, b *regattapb.ResponseOp_Range) bool {
	if a == nil || b == nil {
		return a == b
	}
	if a.Count != b.Count || a.More != b.More || len(a.Kvs) != len(b.Kvs) {
		return false
	}
	for i := range a.Kvs {
		if !bytes.Equal(a.Kvs[i].Key, b.Kvs[i].Key) || !bytes.Equal(a.Kvs[i].Value, b.Kvs[i].Value) {
			return false
		}
	}
	return true
}

func TestC02(t *testing.T)        { vt.Check(t, prop, genCase, run) }
func TestC02Replay(t *testing.T)  { vt.Replay(t, prop, run) }
func TestC02Regress(t *testing.T) { vt.Regress(t, prop, "testdata", run) }

// ---- part 2: atomic visibility under real concurrency -----------------------------------------
//
// A generated sequence of "stamp" commands rewrites a fixed group of keys together (as a TXN, a
// PUT_BATCH, a SEQUENCE of puts, or several entries of one apply call's *single* entry).  Reader
// goroutines issue range Lookups over the group while the writer applies; every observed
// snapshot must carry exactly one stamp.  The oracle does not depend on timing; timing only
// decides how many distinct stamps the readers get to see (reported as coverage).

type AtomicCase struct {
	RecoveryType int   `json:"recovery_type"`
	Keys         int   `json:"keys"`
	Forms        []int `json:"forms"` // per stamp: 0 TXN(no predicate) 1 TXN(predicate on previous stamp) 2 PUT_BATCH 3 SEQUENCE 4 TXN delete-range + puts
	PerBatch     []int `json:"per_batch"`
	Readers      int   `json:"readers"`
	ReadTxn      bool  `json:"read_txn"` // readers use a read-only transaction with one range op per key instead of one range read
	// Predicates: readers use a read-only transaction WITH predicates over the flag pair fa/fb (exactly one of them is "1" in every
	// committed state): [fa == 1, <range predicate over the group>, fb == 1] can never hold, and "fa == 1 ? read fa : read fa" must
	// return a value consistent with the branch taken.
	Predicates bool `json:"predicates"`
	// Big mode (TestC02AtomicBig, Pad > 0): every group value carries Pad bytes of padding behind its stamp, every stamp command is
	// applied in an Update call of its own that starts with filler puts bringing the pending write batch to Offset bytes below
	// 16 MiB (so that 16 MiB of pending writes are crossed INSIDE the stamp command) and ends with Trail further 2 MiB filler puts.
	Pad    int `json:"pad,omitempty"`
	Offset int `json:"offset,omitempty"`
	Trail  int `json:"trail,omitempty"`
}

func genAtomic(t *rapid.T) AtomicCase {
	n := rapid.IntRange(2, 30).Draw(t, "stamps")
	c := AtomicCase{
		RecoveryType: rapid.IntRange(0, 1).Draw(t, "rtype"),
		Keys:         rapid.IntRange(2, 5).Draw(t, "keys"),
		Readers:      rapid.IntRange(1, 4).Draw(t, "readers"),
		ReadTxn:      rapid.Bool().Draw(t, "readtxn"),
		Predicates:   rapid.IntRange(0, 2).Draw(t, "predicates") == 0,
	}
	for i := 0; i < n; i++ {
		c.Forms = append(c.Forms, rapid.IntRange(0, 4).Draw(t, "form"))
	}
	left := n
	for left > 0 {
		k := rapid.IntRange(1, min(4, left)).Draw(t, "perbatch")
		c.PerBatch = append(c.PerBatch, k)
		left -= k
	}
	return c
}

func groupKey(i int) []byte { return []byte(fmt.Sprintf("g%02d", i)) }

func genAtomicBig(t *rapid.T) AtomicCase {
	n := rapid.IntRange(2, 4).Draw(t, "stamps")
	c := AtomicCase{
		RecoveryType: rapid.IntRange(0, 1).Draw(t, "rtype"),
		Keys:         rapid.IntRange(2, 5).Draw(t, "keys"),
		Readers:      rapid.IntRange(2, 4).Draw(t, "readers"),
		ReadTxn:      rapid.Bool().Draw(t, "readtxn"),
		Pad:          rapid.SampledFrom([]int{64 << 10, 150 << 10, 300 << 10}).Draw(t, "pad"),
		Trail:        rapid.IntRange(1, 4).Draw(t, "trail"),
	}
	// the 16 MiB mark falls behind the first, a middle or the last put of the group (or, now and then, not inside the command at all)
	c.Offset = rapid.IntRange(1<<10, (c.Keys+1)*c.Pad).Draw(t, "offset")
	for i := 0; i < n; i++ {
		c.Forms = append(c.Forms, rapid.IntRange(0, 4).Draw(t, "form"))
		c.PerBatch = append(c.PerBatch, 1)
	}
	return c
}

const bigMark = 16 << 20 // fsm's maxBatchSize

func fillerPut(i, size int) []byte {
	b, _ := (&regattapb.Command{Table: []byte("t"), Type: regattapb.Command_PUT, Kv: &regattapb.KeyValue{Key: []byte(fmt.Sprintf("zfill%02d", i)), Value: bytes.Repeat([]byte{byte('A' + i%26)}, size)}}).MarshalVT()
	return b
}

// bigCall: the commands of one Update call in big mode - lead fillers, the stamp command, trailing fillers.
func bigCall(c AtomicCase, stamp int) [][]byte {
	var cmds [][]byte
	left := bigMark - c.Offset
	for i := 0; left > 0; i++ {
		sz := min(left, 2<<20)
		cmds = append(cmds, fillerPut(i, sz))
		left -= sz
	}
	b, _ := stampCmd(c, stamp).MarshalVT()
	cmds = append(cmds, b)
	for i := 0; i < c.Trail; i++ {
		cmds = append(cmds, fillerPut(20+i, 2<<20))
	}
	return cmds
}

func stampOf(v []byte) string {
	if len(v) > 5 {
		return string(v[:5])
	}
	return string(v)
}

func stampCmd(c AtomicCase, stamp int) *regattapb.Command {
	val := []byte(fmt.Sprintf("s%04d", stamp))
	if c.Pad > 0 {
		val = append(val, bytes.Repeat([]byte{'p'}, c.Pad)...)
	}
	prev := []byte(fmt.Sprintf("s%04d", stamp-1))
	if c.Pad > 0 {
		prev = append(prev, bytes.Repeat([]byte{'p'}, c.Pad)...)
	}
	cmd := &regattapb.Command{Table: []byte("t")}
	fa, fb := []byte("0"), []byte("1")
	if stamp%2 == 1 {
		fa, fb = []byte("1"), []byte("0")
	}
	flagKVs := []*regattapb.KeyValue{{Key: []byte("fa"), Value: fa}, {Key: []byte("fb"), Value: fb}}
	puts := func() []*regattapb.RequestOp {
		var ops []*regattapb.RequestOp
		for k := 0; k < c.Keys; k++ {
			ops = append(ops, &regattapb.RequestOp{Request: &regattapb.RequestOp_RequestPut{RequestPut: &regattapb.RequestOp_Put{Key: groupKey(k), Value: val}}})
		}
		for _, kv := range flagKVs {
			ops = append(ops, &regattapb.RequestOp{Request: &regattapb.RequestOp_RequestPut{RequestPut: &regattapb.RequestOp_Put{Key: kv.Key, Value: kv.Value}}})
		}
		return ops
	}
	switch c.Forms[stamp-1] {
	case 0:
		cmd.Type = regattapb.Command_TXN
		cmd.Txn = &regattapb.Txn{Success: puts()}
	case 1:
		cmd.Type = regattapb.Command_TXN
		cmd.Txn = &regattapb.Txn{
			Compare: []*regattapb.Compare{{Key: groupKey(0), Result: regattapb.Compare_EQUAL, TargetUnion: &regattapb.Compare_Value{Value: prev}}},
			Success: puts(), Failure: puts(),
		}
	case 2:
		cmd.Type = regattapb.Command_PUT_BATCH
		for k := 0; k < c.Keys; k++ {
			cmd.Batch = append(cmd.Batch, &regattapb.KeyValue{Key: groupKey(k), Value: val})
		}
		cmd.Batch = append(cmd.Batch, flagKVs...)
	case 3:
		cmd.Type = regattapb.Command_SEQUENCE
		for k := 0; k < c.Keys; k++ {
			cmd.Sequence = append(cmd.Sequence, &regattapb.Command{Table: []byte("t"), Type: regattapb.Command_PUT, Kv: &regattapb.KeyValue{Key: groupKey(k), Value: val}})
		}
		for _, kv := range flagKVs {
			cmd.Sequence = append(cmd.Sequence, &regattapb.Command{Table: []byte("t"), Type: regattapb.Command_PUT, Kv: kv})
		}
	default:
		cmd.Type = regattapb.Command_TXN
		ops := []*regattapb.RequestOp{{Request: &regattapb.RequestOp_RequestDeleteRange{RequestDeleteRange: &regattapb.RequestOp_DeleteRange{Key: []byte("g"), RangeEnd: []byte("h")}}}}
		cmd.Txn = &regattapb.Txn{Success: append(ops, puts()...)}
	}
	return cmd
}

func runAtomic(c AtomicCase, o *vt.Obs) *vt.Failure {
	r := fsmx.Create(fsmx.NewFS(), fsm.SnapshotRecoveryType(c.RecoveryType), 1)
	if _, err := r.Open(); err != nil {
		return vt.Failf(prop+"/open-error", 0, "%v", err)
	}
	defer r.Close()
	var stop atomic.Bool
	var wg sync.WaitGroup
	var mu sync.Mutex
	var fail *vt.Failure
	perCall := 1
	if c.Pad > 0 {
		perCall = len(bigCall(c, 1))
	}
	seen := map[string]bool{}
	observations := 0
	rd := func(k string) *regattapb.RequestOp {
		return &regattapb.RequestOp{Request: &regattapb.RequestOp_RequestRange{RequestRange: &regattapb.RequestOp_Range{Key: []byte(k)}}}
	}
	one := &regattapb.Compare_Value{Value: []byte("1")}
	valOf := func(op *regattapb.ResponseOp) string {
		if kvs := op.GetResponseRange().GetKvs(); len(kvs) == 1 {
			return string(kvs[0].Value)
		}
		return ""
	}
	predicateRead := func() error {
		// (1) a conjunction that holds in no committed state
		never := &regattapb.TxnRequest{Table: []byte("t"), Compare: []*regattapb.Compare{
			{Key: []byte("fa"), Result: regattapb.Compare_EQUAL, TargetUnion: one},
			{Key: []byte("g"), RangeEnd: []byte("h"), Result: regattapb.Compare_NOT_EQUAL, TargetUnion: &regattapb.Compare_Value{Value: []byte("never")}},
			{Key: []byte("fb"), Result: regattapb.Compare_EQUAL, TargetUnion: one},
		}, Success: []*regattapb.RequestOp{rd("fa"), rd("fb")}, Failure: []*regattapb.RequestOp{rd("fa"), rd("fb")}}
		resp, err := r.Txn(never)
		if err != nil {
			return err
		}
		if resp.Succeeded {
			return fmt.Errorf("predicates fa==1 AND fb==1 both held although exactly one flag is 1 in every committed state")
		}
		if a, b := valOf(resp.Responses[0]), valOf(resp.Responses[1]); a != "" && a == b {
			return fmt.Errorf("reads of one transaction show fa=%q fb=%q, no committed state has equal flags", a, b)
		}
		// (2) branch and reads must agree
		branch := &regattapb.TxnRequest{Table: []byte("t"), Compare: []*regattapb.Compare{
			{Key: []byte("fa"), Result: regattapb.Compare_EQUAL, TargetUnion: one},
			{Key: []byte("g"), RangeEnd: []byte("h"), Result: regattapb.Compare_NOT_EQUAL, TargetUnion: &regattapb.Compare_Value{Value: []byte("never")}},
		}, Success: []*regattapb.RequestOp{rd("fa")}, Failure: []*regattapb.RequestOp{rd("fa")}}
		resp, err = r.Txn(branch)
		if err != nil {
			return err
		}
		a := valOf(resp.Responses[0])
		if a != "" && resp.Succeeded != (a == "1") {
			return fmt.Errorf("predicate fa==1 evaluated to %v but the read of the same transaction returns fa=%q", resp.Succeeded, a)
		}
		return nil
	}
	// index-stable read: applied index, content, applied index again; if the index did not move in between, the content must be
	// the state after exactly that many stamps (entry i is stamp i) - the effects of an apply call and its index become visible together
	indexStable := func() error {
		l1, err := r.LocalIndex()
		if err != nil {
			return err
		}
		resp, err := r.Range(&regattapb.RequestOp_Range{Key: []byte("g"), RangeEnd: []byte("gz")})
		if err != nil {
			return err
		}
		l2, err := r.LocalIndex()
		if err != nil {
			return err
		}
		if l1 == l2 && l1 > 0 && len(resp.Kvs) > 0 {
			want := fmt.Sprintf("s%04d", l1)
			if c.Pad > 0 {
				// big mode: every Update call holds perCall entries and one stamp; the index is published with the call's last entry
				if l1%uint64(perCall) != 0 {
					return fmt.Errorf("applied index reads %d, which is inside an apply call of %d entries: the index of a call is published with its last entry", l1, perCall)
				}
				want = fmt.Sprintf("s%04d", l1/uint64(perCall))
			}
			for _, kv := range resp.Kvs {
				if stampOf(kv.Value) != want {
					return fmt.Errorf("applied index reads %d before and after, but the content carries stamp %q instead of %q: index and data of one apply call were not published together", l1, stampOf(kv.Value), want)
				}
			}
		}
		return nil
	}
	readOnce := func() (vals [][]byte, err error) {
		if err := indexStable(); err != nil {
			return nil, err
		}
		if c.Predicates {
			if err := predicateRead(); err != nil {
				return nil, err
			}
		}
		if c.ReadTxn {
			req := &regattapb.TxnRequest{Table: []byte("t")}
			for k := 0; k < c.Keys; k++ {
				req.Success = append(req.Success, &regattapb.RequestOp{Request: &regattapb.RequestOp_RequestRange{RequestRange: &regattapb.RequestOp_Range{Key: groupKey(k)}}})
			}
			resp, err := r.Txn(req)
			if err != nil {
				return nil, err
			}
			for _, rr := range resp.Responses {
				for _, kv := range rr.GetResponseRange().Kvs {
					vals = append(vals, kv.Value)
				}
			}
			if len(vals) != 0 && len(vals) != c.Keys {
				return vals, fmt.Errorf("partial group: %d of %d keys visible", len(vals), c.Keys)
			}
			return vals, nil
		}
		resp, err := r.Range(&regattapb.RequestOp_Range{Key: []byte("g"), RangeEnd: []byte("gz")})
		if err != nil {
			return nil, err
		}
		for _, kv := range resp.Kvs {
			vals = append(vals, kv.Value)
		}
		if len(vals) != 0 && len(vals) != c.Keys {
			return vals, fmt.Errorf("partial group: %d of %d keys visible", len(vals), c.Keys)
		}
		return vals, nil
	}
	for i := 0; i < c.Readers; i++ {
		wg.Add(1)
		go func() {
			defer wg.Done()
			for !stop.Load() {
				vals, err := readOnce()
				mu.Lock()
				observations++
				if err != nil && fail == nil {
					fail = vt.Failf(prop+"/atomic-visibility", 0, "reader: %v (stamps %q)", err, stamps(vals))
				}
				for _, v := range vals {
					if !bytes.Equal(v, vals[0]) && fail == nil {
						fail = vt.Failf(prop+"/atomic-visibility", 0, "reader saw a mix of stamps: %q", stamps(vals))
					}
				}
				if len(vals) > 0 {
					seen[stampOf(vals[0])] = true
				}
				mu.Unlock()
			}
		}()
	}
	next := uint64(1)
	stamp := 0
	var applyErr error
	for _, n := range c.PerBatch {
		var cmds [][]byte
		if c.Pad > 0 {
			stamp++
			cmds = bigCall(c, stamp)
		} else {
			for j := 0; j < n; j++ {
				stamp++
				b, _ := stampCmd(c, stamp).MarshalVT()
				cmds = append(cmds, b)
			}
		}
		if _, err := r.Apply(fsmx.MkEntries(next, cmds)); err != nil {
			applyErr = err
			break
		}
		next += uint64(len(cmds))
	}
	stop.Store(true)
	wg.Wait()
	if applyErr != nil {
		return vt.Failf(prop+"/apply-error", 0, "%v", applyErr)
	}
	if fail != nil {
		return fail
	}
	// final state = last stamp on every key
	vals, err := readOnce()
	if err != nil {
		return vt.Failf(prop+"/atomic-visibility", 0, "final read: %v", err)
	}
	want := fmt.Sprintf("s%04d", stamp)
	for _, v := range vals {
		if stampOf(v) != want {
			return vt.Failf(prop+"/atomic-final", 0, "final group value %q want %q", stampOf(v), want)
		}
	}
	if c.Pad > 0 {
		o.Label("16MiB-of-pending-writes-crossed-inside-a-stamp-command")
	}
	o.LabelN("reader-observations", observations)
	if len(seen) >= 2 {
		o.Label("readers-saw>=2-distinct-stamps")
	}
	if c.Predicates {
		o.Label("readonly-txn-with-predicates-under-concurrent-writes")
	}
	o.NonTrivial = len(seen) >= 2
	o.Describe = func() string {
		return fmt.Sprintf("%d keys rewritten together by %d stamp commands (forms %v, batches %v, padding %d, 16 MiB mark %d bytes into the command, %d trailing fillers), %d readers (txn=%v) made %d observations and saw %d distinct stamps", c.Keys, stamp, c.Forms, c.PerBatch, c.Pad, c.Offset, c.Trail, c.Readers, c.ReadTxn, observations, len(seen))
	}
	return nil
}

func stamps(vals [][]byte) []string {
	var out []string
	for _, v := range vals {
		out = append(out, stampOf(v))
	}
	return out
}

func TestC02Atomic(t *testing.T)        { vt.Check(t, prop, genAtomic, runAtomic) }
func TestC02AtomicBig(t *testing.T)     { vt.Check(t, prop, genAtomicBig, runAtomic) }
func TestC02AtomicReplay(t *testing.T)  { vt.Replay(t, prop, runAtomic) }
func TestC02AtomicRegress(t *testing.T) { vt.Regress(t, prop, "testdata", runAtomic) }

var _ = model.New
