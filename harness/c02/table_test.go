package c02

// TestC02Table: the transaction as a CLIENT issues it - through table.ActiveTable.Txn (what KV.Txn calls), which decides between the
// read path and the log, builds the command that is proposed and decodes its result - over an in-memory raft stand-in with one real
// state machine replica.  Shapes the table layer could be tempted to treat specially are over-represented: no predicates, a branch of
// puts only, a single operation, prev_kv on a key written earlier in the same transaction, empty branches, read-only transactions.
// Oracle: the same transaction evaluated by the reference model on the same state (succeeded flag, n-th response for the n-th
// operation of the executed branch, every later read).

import (
	"context"
	"fmt"
	"testing"

	"github.com/jamf/regatta/regattapb"
	"github.com/jamf/regatta/storage/table"
	"github.com/jamf/regatta/storage/table/fsm"
	"pgregory.net/rapid"

	"verifharness/internal/gen"
	"verifharness/internal/model"
	"verifharness/internal/simraft"
	"verifharness/internal/vt"
)

type TableOp struct {
	Kind string `json:"kind"` // txn | put | del
	Req  []byte `json:"req"`
	// LostAck (txn): the transaction is committed and applied, but the raft layer reports a timeout to the table layer - the outcome is
	// ambiguous for the caller.  Whatever the table layer tells its caller, ONE call puts at most ONE entry into the log (seeded change
	// C02-M: the table layer proposed the command again after a "safe to retry" error - both branches of a compare-and-swap ran)
	LostAck bool `json:"lost_ack,omitempty"`
}

type TableCase struct {
	Ops []TableOp `json:"ops"`
}

func genTableCase(t *rapid.T) TableCase {
	pool := gen.NewPool(t, 2, 4, 64)
	c := TableCase{}
	n := rapid.IntRange(2, 14).Draw(t, "n")
	putOp := func(label string, prev bool) *regattapb.RequestOp {
		p := pool.PutOp(t, label)
		p.PrevKv = prev
		return &regattapb.RequestOp{Request: &regattapb.RequestOp_RequestPut{RequestPut: p}}
	}
	for i := 0; i < n; i++ {
		switch rapid.IntRange(0, 9).Draw(t, "kind") {
		case 0:
			r := &regattapb.PutRequest{Table: []byte("t"), Key: pool.Key(t, "k"), Value: gen.Value(t, "v"), PrevKv: rapid.Bool().Draw(t, "prev")}
			b, _ := r.MarshalVT()
			c.Ops = append(c.Ops, TableOp{Kind: "put", Req: b})
		case 1:
			r := &regattapb.DeleteRangeRequest{Table: []byte("t"), Key: pool.Key(t, "k"), PrevKv: rapid.Bool().Draw(t, "prev"), Count: rapid.Bool().Draw(t, "count")}
			if rapid.Bool().Draw(t, "isrange") {
				r.RangeEnd = pool.RangeEnd(t, "del", false)
			}
			b, _ := r.MarshalVT()
			c.Ops = append(c.Ops, TableOp{Kind: "del", Req: b})
		default:
			var x *regattapb.Txn
			switch rapid.IntRange(0, 7).Draw(t, "shape") {
			case 0:
				// no predicate, puts only, prev_kv everywhere (the same key may be written twice)
				x = &regattapb.Txn{}
				for j, np := 0, rapid.IntRange(1, 4).Draw(t, "nputs"); j < np; j++ {
					x.Success = append(x.Success, putOp("p", true))
				}
			case 1:
				// predicates that certainly hold / certainly fail, puts only on both branches
				x = &regattapb.Txn{Compare: []*regattapb.Compare{pool.Compare(t, "c")}}
				for j, np := 0, rapid.IntRange(1, 3).Draw(t, "nputs"); j < np; j++ {
					x.Success = append(x.Success, putOp("ps", rapid.Bool().Draw(t, "prev")))
					x.Failure = append(x.Failure, putOp("pf", rapid.Bool().Draw(t, "prev")))
				}
			case 2:
				// a single operation of any kind, with or without a predicate
				x = &regattapb.Txn{Success: []*regattapb.RequestOp{pool.RequestOp(t, "single", false)}}
				if rapid.Bool().Draw(t, "haspred") {
					x.Compare = []*regattapb.Compare{pool.Compare(t, "c")}
					x.Failure = []*regattapb.RequestOp{pool.RequestOp(t, "singlef", false)}
				}
			case 3:
				// deletes only
				x = &regattapb.Txn{}
				for j, nd := 0, rapid.IntRange(1, 3).Draw(t, "ndels"); j < nd; j++ {
					x.Success = append(x.Success, &regattapb.RequestOp{Request: &regattapb.RequestOp_RequestDeleteRange{RequestDeleteRange: pool.DeleteOp(t, "d")}})
				}
			case 4:
				x = pool.Txn(t, "ro", true) // read-only
			default:
				x = pool.Txn(t, "txn", false)
				switch rapid.IntRange(0, 5).Draw(t, "emptyclass") {
				case 0:
					x.Success = nil
				case 1:
					x.Failure = nil
				}
			}
			r := &regattapb.TxnRequest{Table: []byte("t"), Compare: x.Compare, Success: x.Success, Failure: x.Failure}
			b, _ := r.MarshalVT()
			c.Ops = append(c.Ops, TableOp{Kind: "txn", Req: b, LostAck: rapid.IntRange(0, 7).Draw(t, "lostack") == 0})
		}
	}
	return c
}

func runTable(c TableCase, o *vt.Obs) *vt.Failure {
	cl, err := simraft.New(1, fsm.RecoveryTypeSnapshot)
	if err != nil {
		return vt.Failf(prop+"/open-error", 0, "%v", err)
	}
	defer cl.Close()
	tab := table.Table{Name: "t", ClusterID: 10001}.AsActive(simraft.Handle{C: cl, Replica: 0})
	m := model.New()
	ctx := context.Background()
	prevOnOwnWrite, readonly, both := false, false, map[bool]bool{}
	lostAcks := 0
	for i, op := range c.Ops {
		switch op.Kind {
		case "put":
			r := &regattapb.PutRequest{}
			_ = r.UnmarshalVT(op.Req)
			resp, err := tab.Put(ctx, r)
			if err != nil {
				return vt.Failf(prop+"/table-write-error", i, "put: %v", err)
			}
			want := m.Apply(&regattapb.Command{Type: regattapb.Command_PUT, Table: r.Table, Kv: &regattapb.KeyValue{Key: r.Key, Value: r.Value}, PrevKvs: r.PrevKv}, cl.Commit())
			if cerr := model.CheckOp(want.Ops[0], &regattapb.ResponseOp{Response: &regattapb.ResponseOp_ResponsePut{ResponsePut: &regattapb.ResponseOp_Put{PrevKv: resp.PrevKv}}}); cerr != nil {
				return vt.Failf(prop+"/table-put", i, "%v", cerr)
			}
		case "del":
			r := &regattapb.DeleteRangeRequest{}
			_ = r.UnmarshalVT(op.Req)
			resp, err := tab.Delete(ctx, r)
			if err != nil {
				return vt.Failf(prop+"/table-write-error", i, "delete: %v", err)
			}
			want := m.Apply(&regattapb.Command{Type: regattapb.Command_DELETE, Table: r.Table, Kv: &regattapb.KeyValue{Key: r.Key}, RangeEnd: r.RangeEnd, PrevKvs: r.PrevKv, Count: r.Count}, cl.Commit())
			if cerr := model.CheckOp(want.Ops[0], &regattapb.ResponseOp{Response: &regattapb.ResponseOp_ResponseDeleteRange{ResponseDeleteRange: &regattapb.ResponseOp_DeleteRange{Deleted: resp.Deleted, PrevKvs: resp.PrevKvs}}}); cerr != nil {
				return vt.Failf(prop+"/table-delete", i, "%v", cerr)
			}
		case "txn":
			r := &regattapb.TxnRequest{}
			_ = r.UnmarshalVT(op.Req)
			// does a put of the executed branch ask for the previous pair of a key an earlier operation of the same branch wrote?
			written := map[string]bool{}
			branch := r.Success
			if !m.EvalCompare(r.Compare) {
				branch = r.Failure
			}
			for _, bo := range branch {
				if p := bo.GetRequestPut(); p != nil {
					if p.PrevKv && written[string(p.Key)] {
						prevOnOwnWrite = true
					}
					written[string(p.Key)] = true
				}
			}
			before := cl.Commit()
			cl.LoseNextAck = op.LostAck && !r.IsReadonly()
			lost := cl.LoseNextAck
			resp, err := tab.Txn(ctx, r)
			cl.LoseNextAck = false
			if lost {
				lostAcks++
				if n := cl.Commit() - before; n > 1 {
					return vt.Failf(prop+"/table-txn-proposed-more-than-once", i, "one transaction call (its first acknowledgement was lost: the raft layer reported a timeout for an entry that did commit) put %d entries into the log; answer to the caller: %v, %v", n, resp, err)
				}
				if err != nil {
					// the caller was told about the ambiguity; the entry is in the log: the model follows the log
					m.Apply(&regattapb.Command{Type: regattapb.Command_TXN, Table: r.Table, Txn: &regattapb.Txn{Compare: r.Compare, Success: r.Success, Failure: r.Failure}}, cl.Commit())
					goto content
				}
			}
			if err != nil {
				return vt.Failf(prop+"/table-write-error", i, "txn: %v", err)
			}
			var ok bool
			var ops []model.OpExpect
			if r.IsReadonly() {
				readonly = true
				if cl.Commit() != before {
					return vt.Failf(prop+"/table-readonly-txn-logged", i, "a read-only transaction was appended to the log")
				}
				ok, ops = m.ReadTxn(r)
			} else {
				want := m.Apply(&regattapb.Command{Type: regattapb.Command_TXN, Table: r.Table, Txn: &regattapb.Txn{Compare: r.Compare, Success: r.Success, Failure: r.Failure}}, cl.Commit())
				ok, ops = want.Value == 1, want.Ops
			}
			both[ok] = true
			if resp.Succeeded != ok {
				return vt.Failf(prop+"/table-txn-branch", i, "transaction through the table layer: succeeded=%v, the model takes the other branch (%v)", resp.Succeeded, ok)
			}
			if cerr := model.CheckOps(ops, resp.Responses); cerr != nil {
				return vt.Failf(prop+"/table-txn-responses", i, "transaction through the table layer (succeeded=%v, %d operations in the executed branch): %v", ok, len(ops), cerr)
			}
		}
	content:
		// every key of the model reads back, nothing else does
		resp, err := tab.Range(ctx, &regattapb.RangeRequest{Table: []byte("t"), Key: []byte{0}, RangeEnd: []byte{0}, Linearizable: true})
		if err != nil {
			return vt.Failf(prop+"/table-read-error", i, "%v", err)
		}
		want := m.Read(&regattapb.RequestOp_Range{Key: []byte{0}, RangeEnd: []byte{0}})
		if cerr := model.CheckRangeResponse(want, &regattapb.ResponseOp_Range{Kvs: resp.Kvs, Count: resp.Count, More: resp.More}, false); cerr != nil {
			return vt.Failf(prop+"/table-content", i, "content after operation %d (%s): %v", i, op.Kind, cerr)
		}
	}
	if prevOnOwnWrite {
		o.Label("prev_kv-of-a-key-written-earlier-in-the-same-transaction")
	}
	if readonly {
		o.Label("read-only-transaction-through-the-table-layer")
	}
	if lostAcks > 0 {
		o.Label("transaction-whose-acknowledgement-from-the-raft-layer-was-lost")
	}
	o.NonTrivial = prevOnOwnWrite || (both[true] && both[false])
	o.Describe = func() string {
		var out []string
		for _, op := range c.Ops {
			if op.Kind == "txn" {
				r := &regattapb.TxnRequest{}
				_ = r.UnmarshalVT(op.Req)
				out = append(out, fmt.Sprintf("txn(%d predicates, %d/%d ops)", len(r.Compare), len(r.Success), len(r.Failure)))
			} else {
				out = append(out, op.Kind)
			}
		}
		return fmt.Sprint(out)
	}
	return nil
}

func TestC02Table(t *testing.T)        { vt.Check(t, prop, genTableCase, runTable) }
func TestC02TableReplay(t *testing.T)  { vt.Replay(t, prop, runTable) }
func TestC02TableRegress(t *testing.T) { vt.Regress(t, prop, "testdata", runTable) }
