//go:build verif

package c07

// TestC07Cluster: restoring a table stream into a CLUSTER of three nodes.  The restore is issued on one node (Maintenance.Restore /
// worker recovery -> Engine.Restore); the recovery shard it loads the stream into exists on the other nodes only once THEIR table
// managers have reconciled (a timer in production; here every node runs reconcile rounds back to back, which is the worst case for
// interleavings), the table record is switched to the new shard at the end and the other nodes drop the old one on their next rounds.
// Oracle: Restore returns without error; afterwards a linearizable read on EVERY node is exactly the captured content (nothing lost,
// nothing of the pre-restore content left) and every node's own copy is, once settled; all nodes serve the table from the same new shard
// id, greater than every id before; the recorded leader index is the stream's declared index on every node; the table still takes
// writes.  A stream that breaks half way: Restore returns an error and every node still serves the old content.

import (
	"bytes"
	"context"
	"fmt"
	"sync"
	"sync/atomic"
	"testing"
	"time"

	"github.com/jamf/regatta/regattapb"
	"github.com/jamf/regatta/replication/snapshot"
	"pgregory.net/rapid"

	"verifharness/internal/enginefx"
	"verifharness/internal/model"
	"verifharness/internal/vt"
)

type CRestore struct {
	Node    int  `json:"node"`    // the node the restore is issued on
	Content []KV `json:"content"` // captured content
	Declare int  `json:"declare"` // the leader index the stream declares
	Break   int  `json:"break"`   // > 0: the stream breaks after that many records
}

type ClusterCase struct {
	Pre      []KV       `json:"pre"`
	Restores []CRestore `json:"restores"`
	// Reconcile: rounds run back to back on every node while the restore runs (false: only once the restoring node waits for them,
	// every 30 ms - closer to the production timer)
	Busy bool `json:"busy"`
	// Quiet: no reconcile round runs between the moment a restore returns and the moment every node has been judged (production: the
	// rounds are 30 s apart, so a restore is normally followed by a long stretch without one; seeded change C07-K: a node answers table
	// lookups from a cache that only its own next round refreshes)
	Quiet bool `json:"quiet,omitempty"`
}

func genClusterCase(t *rapid.T) ClusterCase {
	c := ClusterCase{Pre: genKVs(t, "p", 0, 5, false), Busy: rapid.Bool().Draw(t, "busy"), Quiet: rapid.Bool().Draw(t, "quiet")}
	declared := 0
	for i, n := 0, rapid.IntRange(1, 3).Draw(t, "restores"); i < n; i++ {
		declared += rapid.IntRange(1, 50).Draw(t, "declare")
		r := CRestore{Node: rapid.IntRange(0, 2).Draw(t, "node"), Content: genKVs(t, fmt.Sprintf("c%d", i), 0, 12, false), Declare: declared}
		if rapid.IntRange(0, 4).Draw(t, "broken") == 0 {
			r.Break = rapid.IntRange(1, len(r.Content)+1).Draw(t, "break")
		}
		c.Restores = append(c.Restores, r)
	}
	return c
}

var (
	ccOnce sync.Once
	ccFx   []*enginefx.Fixture
	ccErr  error
	ccNo   atomic.Int64
)

type breakAfter struct {
	r interface{ Read([]byte) (int, error) }
	n int
}

func (b *breakAfter) Read(p []byte) (int, error) {
	if b.n <= 0 {
		return 0, fmt.Errorf("stream broken (injected)")
	}
	b.n--
	return b.r.Read(p)
}

func runClusterCase(c ClusterCase, o *vt.Obs) *vt.Failure {
	ccOnce.Do(func() { ccFx, ccErr = enginefx.StartCluster(3, enginefx.Opts{MaxInMemLogSize: 6 * 1024 * 1024}) })
	if ccErr != nil {
		vt.Inconclusive("C07 cluster fixture: " + ccErr.Error())
		return nil
	}
	name := fmt.Sprintf("rs%d", ccNo.Add(1))
	firstID, err := enginefx.ClusterCreateTable(ccFx, name, 60*time.Second)
	if err != nil {
		vt.Inconclusive("C07 cluster table: " + err.Error())
		return nil
	}
	defer enginefx.ClusterDropTable(ccFx, name)
	put := func(node int, k, v []byte) error {
		ctx, cancel := context.WithTimeout(context.Background(), 30*time.Second)
		defer cancel()
		_, err := ccFx[node].E.Put(ctx, &regattapb.PutRequest{Table: []byte(name), Key: k, Value: v})
		return err
	}
	m := model.New()
	for _, kv := range c.Pre {
		if err := put(0, kv.K, kv.V.Bytes()); err != nil {
			vt.Inconclusive("C07 cluster pre-load: " + err.Error())
			return nil
		}
		m.Put(kv.K, kv.V.Bytes())
	}
	read := func(node int, linearizable bool) ([]model.Pair, error) {
		ctx, cancel := context.WithTimeout(context.Background(), 60*time.Second)
		defer cancel()
		st, err := ccFx[node].E.IterateRange(ctx, &regattapb.RangeRequest{Table: []byte(name), Key: []byte{0}, RangeEnd: []byte{0}, Linearizable: linearizable})
		if err != nil {
			return nil, err
		}
		var out []model.Pair
		st(func(r *regattapb.RangeResponse) bool {
			for _, kv := range r.Kvs {
				out = append(out, model.Pair{K: append([]byte(nil), kv.Key...), V: append([]byte(nil), kv.Value...)})
			}
			return true
		})
		return out, nil
	}
	// reconcile rounds on every node
	var stop, paused atomic.Bool
	var wg sync.WaitGroup
	for _, f := range ccFx {
		wg.Add(1)
		go func(f *enginefx.Fixture) {
			defer wg.Done()
			for !stop.Load() {
				if paused.Load() {
					time.Sleep(2 * time.Millisecond)
					continue
				}
				_ = f.E.Manager.VerifReconcile()
				if !c.Busy {
					time.Sleep(30 * time.Millisecond)
				}
			}
		}(f)
	}
	finish := func() { stop.Store(true); wg.Wait() }
	defer finish()
	maxID := firstID
	restored, broken := 0, 0
	for ri, r := range c.Restores {
		sf, err := snapshot.NewTemp()
		if err != nil {
			vt.Inconclusive("C07 temp snapshot file: " + err.Error())
			return nil
		}
		captured := model.New()
		for _, kv := range r.Content {
			b, _ := (&regattapb.Command{Table: []byte(name), Type: regattapb.Command_PUT, Kv: &regattapb.KeyValue{Key: kv.K, Value: kv.V.Bytes()}}).MarshalVT()
			_, _ = sf.Write(b)
			captured.Put(kv.K, kv.V.Bytes())
		}
		li := uint64(r.Declare)
		b, _ := (&regattapb.Command{Table: []byte(name), Type: regattapb.Command_DUMMY, LeaderIndex: &li}).MarshalVT()
		_, _ = sf.Write(b)
		_ = sf.Sync()
		_, _ = sf.Seek(0, 0)
		var reader interface{ Read([]byte) (int, error) } = sf
		if r.Break > 0 {
			reader = &breakAfter{r: sf, n: r.Break}
		}
		rerr := ccFx[r.Node%3].E.Restore(name, reader)
		paused.Store(c.Quiet)
		_ = sf.Close()
		if r.Break > 0 {
			if rerr == nil {
				return vt.Failf(prop+"/broken-stream-accepted", ri, "restore from a stream that breaks after %d records reported success", r.Break)
			}
			broken++
		} else {
			if rerr != nil {
				return vt.Failf(prop+"/cluster-restore-error", ri, "restore of %d records issued on node %d of a 3-node cluster (reconcile rounds %s): %v", len(r.Content), r.Node%3+1, map[bool]string{true: "back to back", false: "every 30 ms"}[c.Busy], rerr)
			}
			m = captured
			restored++
		}
		// every node: the table answers (its shard may still be starting on a node: patient), linearizable content == model.
		// A node looks tables up in its OWN copy of the catalogue (a stale read): right after the restore it may still route to the old
		// shard for a moment - that is catalogue propagation, not restore: wait (bounded) until the node knows the record the restoring
		// node wrote.
		var ids []uint64
		var newID uint64
		if tb, err := ccFx[r.Node%3].E.GetTable(name); err == nil {
			newID = tb.ClusterID
		}
		for node := range ccFx {
			for dl := time.Now().Add(20 * time.Second); time.Now().Before(dl); time.Sleep(5 * time.Millisecond) {
				if tb, err := ccFx[node].E.GetTable(name); err == nil && tb.ClusterID == newID {
					break
				}
			}
			if tb, err := ccFx[node].E.GetTable(name); err != nil || tb.ClusterID != newID {
				return vt.Failf(prop+"/cluster-table-record-stale", ri, "20 s after restore %d returned on node %d, node %d still looks the table up as shard %d (the restoring node: %d), err %v", ri, r.Node%3+1, node+1, tb.ClusterID, newID, err)
			}
			if err := ccFx[node].WaitTablePatient(name, 60*time.Second); err != nil {
				return vt.Failf(prop+"/cluster-table-unavailable", ri, "after restore %d (error: %v) node %d does not serve the table within 60 s: %v", ri, rerr, node+1, err)
			}
			got, err := read(node, true)
			if err != nil {
				vt.Inconclusive("C07 cluster read: " + err.Error())
				return nil
			}
			if err := samePairs(got, m.Pairs); err != nil {
				return vt.Failf(prop+"/content-differs", ri, "after restore %d (issued on node %d, %d records, stream broken after %d, error %v) a linearizable read on node %d: %v", ri, r.Node%3+1, len(r.Content), r.Break, rerr, node+1, err)
			}
			tb, err := ccFx[node].E.GetTable(name)
			if err != nil {
				vt.Inconclusive("C07 cluster table lookup: " + err.Error())
				return nil
			}
			ids = append(ids, tb.ClusterID)
			if r.Break == 0 {
				ctx, cancel := context.WithTimeout(context.Background(), 30*time.Second)
				lidx, err := tb.LeaderIndex(ctx, true)
				cancel()
				if err == nil && lidx.Index != uint64(r.Declare) {
					return vt.Failf(prop+"/declared-index", ri, "after restore %d node %d records leader index %d, the stream declared %d", ri, node+1, lidx.Index, r.Declare)
				}
			}
		}
		if r.Break == 0 {
			for _, id := range ids {
				if id != ids[0] {
					// a node may still know the old record for a moment (stale local catalogue read): give it rounds
					break
				}
			}
			if ids[0] <= maxID {
				return vt.Failf(prop+"/cluster-shard-id", ri, "after restore %d the table is served from shard %d, ids up to %d were in use before", ri, ids[0], maxID)
			}
			maxID = ids[0]
		}
		paused.Store(false)
		// the table still takes writes, seen everywhere
		k, v := []byte(fmt.Sprintf("after-%d", ri)), []byte("w")
		if err := put((r.Node+1)%3, k, v); err != nil {
			vt.Inconclusive("C07 cluster write after restore: " + err.Error())
			return nil
		}
		m.Put(k, v)
	}
	finish()
	// settled: every node's own copy
	for node := range ccFx {
		if _, err := read(node, true); err != nil {
			vt.Inconclusive("C07 cluster settling read: " + err.Error())
			return nil
		}
		got, err := read(node, false)
		if err != nil {
			vt.Inconclusive("C07 cluster local read: " + err.Error())
			return nil
		}
		if err := samePairs(got, m.Pairs); err != nil {
			return vt.Failf(prop+"/content-differs", len(c.Restores), "after everything settled, node %d's own copy: %v", node+1, err)
		}
	}
	if broken > 0 {
		o.Label("cluster-restore-stream-broke")
	}
	if c.Quiet {
		o.Label("cluster-no-reconcile-round-between-restore-and-judgement")
	}
	if c.Busy {
		o.Label("cluster-reconcile-rounds-back-to-back")
	}
	o.NonTrivial = restored > 0 && len(c.Pre) > 0
	o.Describe = func() string {
		return fmt.Sprintf("%d pre pairs, %d restores (%d broken) into a 3-node cluster, busy=%v", len(c.Pre), len(c.Restores), broken, c.Busy)
	}
	return nil
}

var _ = bytes.Equal

func TestC07Cluster(t *testing.T)        { vt.Check(t, prop, genClusterCase, runClusterCase) }
func TestC07ClusterReplay(t *testing.T)  { vt.Replay(t, prop, runClusterCase) }
func TestC07ClusterRegress(t *testing.T) { vt.Regress(t, prop, "testdata", runClusterCase) }
