//go:build verif

// C07 — restoring a table stream reproduces exactly the content that was captured.
package c07

import (
	"bytes"
	"context"
	"errors"
	"fmt"
	"io"
	"os"
	"path/filepath"
	"sync"
	"sync/atomic"
	"testing"
	"time"

	"github.com/jamf/regatta/regattapb"
	"github.com/jamf/regatta/regattaserver"
	"github.com/jamf/regatta/replication"
	"github.com/jamf/regatta/replication/backup"
	"github.com/jamf/regatta/replication/snapshot"
	"github.com/jamf/regatta/storage"
	"go.uber.org/zap"
	"google.golang.org/grpc"
	"pgregory.net/rapid"

	"verifharness/internal/enginefx"
	"verifharness/internal/model"
	"verifharness/internal/replfx"
	"verifharness/internal/vt"
)

const prop = "C07"

type Val struct {
	B []byte `json:"b,omitempty"`
	N int    `json:"n,omitempty"`
	F byte   `json:"f,omitempty"`
	R bool   `json:"r,omitempty"` // incompressible (fixed xorshift stream seeded by F and N) instead of constant-filled: the stream is snappy-compressed before it is chunked
}

func (v Val) Bytes() []byte {
	if v.N > 0 && v.R {
		out := make([]byte, v.N)
		x := uint64(v.F)*2654435761 + uint64(v.N) + 88172645463325252
		for i := range out {
			if i%8 == 0 {
				x ^= x << 13
				x ^= x >> 7
				x ^= x << 17
			}
			out[i] = byte(x >> (8 * (i % 8)))
		}
		return out
	}
	if v.N > 0 {
		return bytes.Repeat([]byte{v.F}, v.N)
	}
	return v.B
}

type KV struct {
	K []byte `json:"k"`
	V Val    `json:"v"`
}

type Case struct {
	Content []KV `json:"content"` // captured table content
	Pre     []KV `json:"pre"`     // content of the target table before the restore (must not survive)
	// MaxInMemLogSize of the restoring server: 0 = unlimited; otherwise computed so that the half-size
	// batch threshold falls on record ThresholdAt (plus Slack bytes)
	ThresholdAt int    `json:"threshold_at"` // -1: use MaxInMem as given
	Slack       int    `json:"slack"`
	MaxInMem    uint64 `json:"max_in_mem"`
	Source      string `json:"source"`  // backup | snapshot
	Writers     bool   `json:"writers"` // leader keeps writing while the stream is produced (snapshot source only)
	Corrupt     int    `json:"corrupt"` // backup source: >0 = flip the byte at this offset (mod file size) of the backup file; -1 = put another VALID backup file (taken later) under the manifest; -2 = alter the checksum in the manifest
	// PriorBroken > 0: before the restore under test an earlier restore of the same table breaks after PriorBroken records of a stream
	// of stale pairs that is big enough to have proposed at least one batch (a retried restore / a recovery interrupted half way)
	PriorBroken int `json:"prior_broken,omitempty"`
	// RecvLimit > 0 (snapshot source): the follower's snapshot receive rate limit in bytes per second (replication.max-snapshot-recv-
	// bytes-per-second); chunks of the stream can be larger than what the limiter lets through in one go
	RecvLimit int `json:"recv_limit,omitempty"`
	// Sabotage (snapshot source): while the recovery is loading, the follower's table is deleted once (an operator, the table
	// reconciliation) - that recovery may fail; the table is created again and recovered once more, which must give the captured content
	Sabotage bool `json:"sabotage,omitempty"`
}

func genKVs(t *rapid.T, label string, minN, maxN int, large bool) []KV {
	n := rapid.IntRange(minN, maxN).Draw(t, label+".n")
	var out []KV
	for i := 0; i < n; i++ {
		k := []byte(fmt.Sprintf("%s-%04d", label, i))
		switch rapid.IntRange(0, 11).Draw(t, label+".kclass") {
		case 0, 1:
			k = rapid.SliceOfN(rapid.Byte(), 1, 20).Draw(t, label+".k")
		case 2:
			// keys about as long as a key may be (1024 bytes), sharing long prefixes; 0x00 / 0xFF bytes
			k = append(bytes.Repeat([]byte{rapid.SampledFrom([]byte{'k', 0xFF, 0x00}).Draw(t, label+".kfill")}, rapid.SampledFrom([]int{1014, 1015, 1018, 1019, 1020}).Draw(t, label+".klen")), []byte(fmt.Sprintf("%04d", i))...)
		case 3:
			k = []byte{rapid.SampledFrom([]byte{0x00, 0x01, 0xFF}).Draw(t, label+".k1"), byte(i)}
		}
		var v Val
		switch c := rapid.IntRange(0, 9).Draw(t, label+".vclass"); {
		case c == 0:
			v = Val{}
		case c <= 5:
			v = Val{B: rapid.SliceOfN(rapid.Byte(), 1, 40).Draw(t, label+".v")}
		case c <= 8 || !large:
			v = Val{N: rapid.IntRange(50, 3000).Draw(t, label+".vn"), F: 'm', R: rapid.Bool().Draw(t, label+".vr")}
			if rapid.IntRange(0, 14).Draw(t, label+".vmid") == 0 {
				// records of 64 KiB and more, followed by further records (also in the quick tier; seeded change C07-L: such records are
				// handed to the stream compressor without a copy while the producer already reuses their buffer)
				v.N = rapid.SampledFrom([]int{64 * 1024, 70 * 1024, 112 * 1024, 200 * 1024}).Draw(t, label+".vmidn")
			}
		default:
			v = Val{N: rapid.SampledFrom([]int{256 * 1024, 1024 * 1024, 2*1024*1024 - 100, 2 * 1024 * 1024}).Draw(t, label+".vbig"), F: 'L', R: rapid.Bool().Draw(t, label+".vr")}
		}
		out = append(out, KV{K: k, V: v})
	}
	return out
}

func genCase(t *rapid.T) Case {
	large := vt.Thorough() && rapid.IntRange(0, 4).Draw(t, "large") == 0
	maxN := 60
	if large {
		maxN = 8
	}
	minN := 0
	if rapid.IntRange(0, 9).Draw(t, "emptyclass") == 0 {
		maxN = 0 // the captured table is EMPTY: restoring it must empty the target
	}
	minPre := 0
	if maxN == 0 {
		minPre = 1
	}
	c := Case{
		Content: genKVs(t, "c", minN, maxN, large),
		Pre:     genKVs(t, "p", minPre, 5, false),
		Source:  rapid.SampledFrom([]string{"backup", "snapshot", "snapshot"}).Draw(t, "source"),
	}
	switch rapid.IntRange(0, 5).Draw(t, "memclass") {
	case 0:
		c.ThresholdAt, c.MaxInMem = -1, 0 // unlimited
	case 1:
		c.ThresholdAt, c.MaxInMem = -1, 1024*1024
	case 2:
		c.ThresholdAt, c.MaxInMem = -1, 6*1024*1024
	default:
		if len(c.Content) > 0 {
			c.ThresholdAt = rapid.IntRange(0, len(c.Content)-1).Draw(t, "thresholdAt")
			c.Slack = rapid.IntRange(-3, 3).Draw(t, "slack")
		} else {
			c.ThresholdAt, c.MaxInMem = -1, 1024
		}
	}
	if large {
		c.ThresholdAt, c.MaxInMem = -1, 6*1024*1024 // dragonboat rejects single proposals above the in-memory log size
	}
	if c.Source == "snapshot" {
		c.Writers = rapid.IntRange(0, 2).Draw(t, "writers") == 0
		if rapid.IntRange(0, 3).Draw(t, "recvlimit") == 0 {
			c.RecvLimit = rapid.SampledFrom([]int{512, 4096, 65536, 1 << 20}).Draw(t, "limit")
		}
		c.Sabotage = !c.Writers && rapid.IntRange(0, 5).Draw(t, "sabotage") == 0
	} else if rapid.IntRange(0, 3).Draw(t, "corrupt") == 0 {
		c.Corrupt = rapid.SampledFrom([]int{-1, -2, 0}).Draw(t, "corruptKind")
		if c.Corrupt == 0 {
			c.Corrupt = rapid.IntRange(1, 1<<20).Draw(t, "corruptAt")
		}
	}
	if rapid.IntRange(0, 3).Draw(t, "prior") == 0 {
		c.PriorBroken = rapid.IntRange(2, 6).Draw(t, "priorRecords")
	}
	return c
}

// recordSize is the size of the PUT command the snapshot stream carries for one pair.
func recordSize(table string, kv KV) int {
	cmd := &regattapb.Command{Table: []byte(table), Type: regattapb.Command_PUT, Kv: &regattapb.KeyValue{Key: kv.K, Value: kv.V.Bytes()}}
	return cmd.SizeVT()
}

var (
	leaderOnce sync.Once
	leader     *enginefx.Fixture
	leaderSrv  *enginefx.Server
	leaderConn *grpc.ClientConn
	leaderErr  error
	caseNo     atomic.Int64
)

// sharedLeader: one source engine per process with replication + maintenance services.
func sharedLeader() error {
	leaderOnce.Do(func() {
		leader, leaderErr = enginefx.Start(enginefx.Opts{NodeID: 1, MaxInMemLogSize: 6 * 1024 * 1024})
		if leaderErr != nil {
			return
		}
		leaderSrv, leaderErr = enginefx.Serve(func(r grpc.ServiceRegistrar) {
			regattapb.RegisterMetadataServer(r, &regattaserver.MetadataServer{Tables: leader.E})
			regattapb.RegisterSnapshotServer(r, &regattaserver.SnapshotServer{Tables: leader.E})
			regattapb.RegisterLogServer(r, regattaserver.NewLogServer(leader.E, leader.E.LogReader, zap.NewNop(), 0))
			regattapb.RegisterMaintenanceServer(r, &regattaserver.BackupServer{Tables: leader.E, AuthFunc: func(ctx context.Context) (context.Context, error) { return ctx, nil }})
			regattapb.RegisterClusterServer(r, &regattaserver.ClusterServer{Cluster: leader.E, Config: func() map[string]any { return nil }})
		})
		if leaderErr != nil {
			return
		}
		leaderConn, leaderErr = enginefx.Dial(leaderSrv.Addr, grpc.WithDefaultCallOptions(grpc.MaxCallRecvMsgSize(8*1024*1024)))
	})
	return leaderErr
}

func put(e *storage.Engine, table string, k, v []byte) (uint64, error) {
	ctx, cancel := context.WithTimeout(context.Background(), 20*time.Second)
	defer cancel()
	r, err := e.Put(ctx, &regattapb.PutRequest{Table: []byte(table), Key: k, Value: v})
	if err != nil {
		return 0, err
	}
	return r.Header.Revision, nil
}

func load(e *storage.Engine, table string, kvs []KV, m *model.Map) (uint64, error) {
	var rev uint64
	for _, kv := range kvs {
		r, err := put(e, table, kv.K, kv.V.Bytes())
		if err != nil {
			return 0, err
		}
		rev = r
		if m != nil {
			m.Put(kv.K, kv.V.Bytes())
		}
	}
	return rev, nil
}

func samePairs(got []model.Pair, want []model.Pair) error {
	if len(got) != len(want) {
		return fmt.Errorf("%d pairs restored, %d captured", len(got), len(want))
	}
	for i := range got {
		if !bytes.Equal(got[i].K, want[i].K) {
			return fmt.Errorf("pair %d: key %q, captured %q", i, got[i].K, want[i].K)
		}
		if !bytes.Equal(got[i].V, want[i].V) {
			return fmt.Errorf("pair %d (key %q): value differs (%d bytes vs %d bytes)", i, got[i].K, len(got[i].V), len(want[i].V))
		}
	}
	return nil
}

type quietLog struct{}

func (quietLog) Info(args ...interface{})              {}
func (quietLog) Infof(msg string, args ...interface{}) {}

func run(c Case, o *vt.Obs) *vt.Failure {
	if os.Getenv("VERIF_DEBUG") != "" {
		l, _ := zap.NewDevelopment()
		zap.ReplaceGlobals(l)
	}
	if err := sharedLeader(); err != nil {
		vt.Inconclusive("C07 leader fixture: " + err.Error())
		return nil
	}
	name := fmt.Sprintf("t%d", caseNo.Add(1))
	if _, err := leader.CreateTable(name); err != nil {
		vt.Inconclusive("C07 create leader table: " + err.Error())
		return nil
	}
	defer replfx.DropTable(leader, name)
	captured := model.New()
	if _, err := load(leader.E, name, c.Content, captured); err != nil {
		return vt.Failf(prop+"/leader-write-error", 0, "%v", err)
	}
	// the restoring server with the generated in-memory-log-size setting
	maxInMem := c.MaxInMem
	if c.ThresholdAt >= 0 {
		sum := 0
		for i := 0; i <= c.ThresholdAt && i < len(c.Content); i++ {
			sum += recordSize(name, c.Content[i])
		}
		v := 2*sum + c.Slack
		maxInMem = uint64(max(v, 200))
	}
	if maxInMem > 0 {
		// soundness: dragonboat permanently rejects a proposal larger than MaxInMemLogSize ("recommended to be significantly
		// larger than the biggest proposal"); a restore batch is at most half the limit plus one record, so only settings
		// of at least twice the biggest record (+ entry overhead) are operable at all
		biggest := 0
		for _, kv := range append(append([]KV(nil), c.Content...), c.Pre...) {
			biggest = max(biggest, recordSize(name, kv))
		}
		maxInMem = max(maxInMem, uint64(2*(biggest+400)))
	}
	queue := storage.NewNotificationQueue()
	go queue.Run()
	defer queue.Close()
	target, err := enginefx.Start(enginefx.Opts{NodeID: 1, MaxInMemLogSize: maxInMem, Applied: queue.Notify})
	if err != nil {
		vt.Inconclusive("C07 target fixture: " + err.Error())
		return nil
	}
	defer target.Stop()
	if _, err := target.CreateTable(name); err != nil {
		vt.Inconclusive("C07 create target table: " + err.Error())
		return nil
	}
	if _, err := load(target.E, name, c.Pre, nil); err != nil {
		// tiny in-memory log sizes can reject the pre-load itself; that is configuration, not the property
		c.Pre = nil
	}
	if c.PriorBroken > 0 {
		// an earlier restore of this table that proposed at least one batch and then broke
		vsize := 4 * 1024 * 1024 / 3 // unlimited log: batches of 4 MiB
		if maxInMem > 0 {
			vsize = int(min(max(maxInMem/4, 64), 512*1024))
		}
		sf, err := snapshot.NewTemp()
		if err != nil {
			vt.Inconclusive("C07 temp snapshot file: " + err.Error())
			return nil
		}
		for i := 0; i <= c.PriorBroken; i++ {
			cmd := &regattapb.Command{Table: []byte(name), Type: regattapb.Command_PUT, Kv: &regattapb.KeyValue{Key: []byte(fmt.Sprintf("stale-%04d", i)), Value: bytes.Repeat([]byte{'S'}, vsize)}}
			b, _ := cmd.MarshalVT()
			if _, err := sf.Write(b); err != nil {
				vt.Inconclusive("C07 temp snapshot file: " + err.Error())
				return nil
			}
		}
		_ = sf.Sync()
		_, _ = sf.Seek(0, 0)
		rerr := target.E.Restore(name, &breakingReader{r: sf, after: c.PriorBroken})
		_ = sf.Close()
		_ = os.Remove(sf.Path())
		if rerr == nil {
			return vt.Failf(prop+"/broken-stream-accepted", 0, "restore from a stream that breaks after %d records reported success", c.PriorBroken)
		}
		o.Label("prior-interrupted-restore")
	}
	threshold := "none"
	if c.ThresholdAt >= 0 {
		threshold = "inside-stream"
	} else if maxInMem == 0 {
		threshold = "limit-0"
	}
	o.Label("threshold:" + threshold)
	o.Label("source:" + c.Source)

	switch c.Source {
	case "snapshot":
		mgr := replication.NewManager(target.E, queue, leaderConn, replication.Config{ReconcileInterval: time.Hour, Workers: replication.WorkerConfig{
			PollInterval: time.Hour, LeaseInterval: time.Hour, LogRPCTimeout: 30 * time.Second, SnapshotRPCTimeout: 120 * time.Second, MaxRecoveryInFlight: 1,
			MaxSnapshotRecv: uint64(c.RecvLimit)}})
		w := mgr.VerifWorker(name)
		if c.RecvLimit > 0 {
			o.Label("snapshot-receive-rate-limited")
		}
		// optional concurrent writers on the leader: the stream must still be the image at the index it declares
		type stamp struct {
			rev uint64
			val []byte
		}
		var stamps []stamp
		var wg sync.WaitGroup
		stop := make(chan struct{})
		if c.Writers {
			wg.Add(1)
			go func() {
				defer wg.Done()
				for i := 0; ; i++ {
					select {
					case <-stop:
						return
					default:
					}
					v := []byte(fmt.Sprintf("w%06d", i))
					rev, err := put(leader.E, name, []byte("~writer"), v)
					if err != nil {
						return
					}
					stamps = append(stamps, stamp{rev, v})
				}
			}()
			time.Sleep(2 * time.Millisecond)
		}
		var sabotaged atomic.Bool
		if c.Sabotage {
			wg.Add(1)
			go func() {
				defer wg.Done()
				for {
					select {
					case <-stop:
						return
					default:
					}
					if tb, err := target.E.Manager.GetTable(name); err == nil && tb.RecoverID != 0 {
						if target.E.DeleteTable(name) == nil {
							sabotaged.Store(true)
						}
						return
					}
					time.Sleep(200 * time.Microsecond)
				}
			}()
		}
		rerr := w.Recover()
		close(stop)
		wg.Wait()
		if sabotaged.Load() {
			o.Label("table-deleted-while-its-recovery-was-loading")
			// whatever that recovery reported: the table is set up again and recovered once more
			_ = target.E.Manager.VerifReconcile()
			if _, err := target.E.GetTable(name); err != nil {
				if _, err := target.CreateTable(name); err != nil {
					vt.Inconclusive("C07 re-create target table: " + err.Error())
					return nil
				}
			}
			if rerr != nil {
				rerr = w.Recover()
			}
		}
		if rerr != nil {
			return vt.Failf(prop+"/recover-error", 1, "worker recovery from the leader snapshot stream failed: %v (max-in-mem %d)", rerr, maxInMem)
		}
		got, err := replfx.ReadAll(target.E, name, true)
		if err != nil {
			return vt.Failf(prop+"/read-error", 2, "%v", err)
		}
		_, declared, err := replfx.Indices(target.E, name)
		if err != nil {
			return vt.Failf(prop+"/read-error", 2, "%v", err)
		}
		want := captured.Clone()
		if c.Writers {
			// content at exactly the declared index: the writer's last stamp with revision <= declared
			var last []byte
			for _, s := range stamps {
				if s.rev <= declared {
					last = s.val
				}
			}
			if last != nil {
				want.Put([]byte("~writer"), last)
			}
			o.Label("concurrent-writers")
		} else {
			leaderLocal, _, err := replfx.Indices(leader.E, name)
			if err != nil {
				return vt.Failf(prop+"/read-error", 2, "%v", err)
			}
			if declared != leaderLocal {
				return vt.Failf(prop+"/declared-index", 2, "after recovery the follower records leader index %d, the leader table was at %d when the stream was produced", declared, leaderLocal)
			}
		}
		if err := samePairs(got, want.Pairs); err != nil {
			return vt.Failf(prop+"/content-differs", 2, "snapshot stream restore (max-in-mem-log-size %d, %d records, declared index %d): %v", maxInMem, len(c.Content), declared, err)
		}
	case "backup":
		dir, err := os.MkdirTemp(scratch(), "c07-backup-")
		if err != nil {
			vt.Inconclusive("C07 scratch dir: " + err.Error())
			return nil
		}
		defer os.RemoveAll(dir)
		man, err := (&backup.Backup{Conn: leaderConn, Dir: dir, Log: quietLog{}}).Backup()
		if err != nil {
			return vt.Failf(prop+"/backup-error", 1, "%v", err)
		}
		tsrv, err := enginefx.Serve(func(r grpc.ServiceRegistrar) {
			regattapb.RegisterMaintenanceServer(r, &regattaserver.BackupServer{Tables: target.E, AuthFunc: func(ctx context.Context) (context.Context, error) { return ctx, nil }})
		})
		if err != nil {
			vt.Inconclusive("C07 target server: " + err.Error())
			return nil
		}
		defer tsrv.Stop()
		tconn, err := enginefx.Dial(tsrv.Addr)
		if err != nil {
			vt.Inconclusive("C07 dial: " + err.Error())
			return nil
		}
		defer tconn.Close()
		before, err := replfx.ReadAll(target.E, name, true)
		if err != nil {
			return vt.Failf(prop+"/read-error", 1, "%v", err)
		}
		corrupted := false
		if c.Corrupt == -1 {
			// a different, perfectly decodable backup file (taken after one more leader write) under the first manifest
			if _, err := put(leader.E, name, []byte("~swapped-in"), []byte("from a later backup")); err != nil {
				return vt.Failf(prop+"/leader-write-error", 1, "%v", err)
			}
			dir2, err := os.MkdirTemp(scratch(), "c07-backup2-")
			if err != nil {
				vt.Inconclusive("C07 scratch dir: " + err.Error())
				return nil
			}
			defer os.RemoveAll(dir2)
			man2, err := (&backup.Backup{Conn: leaderConn, Dir: dir2, Log: quietLog{}}).Backup()
			if err != nil {
				return vt.Failf(prop+"/backup-error", 1, "%v", err)
			}
			for _, mt := range man.Tables {
				for _, mt2 := range man2.Tables {
					if mt.Name == name && mt2.Name == name && mt.MD5 != mt2.MD5 {
						b, _ := os.ReadFile(filepath.Join(dir2, mt2.FileName))
						_ = os.WriteFile(filepath.Join(dir, mt.FileName), b, 0o644)
						corrupted = true
						o.Label("backup-file-swapped-for-another-valid-one")
					}
				}
			}
		} else if c.Corrupt == -2 {
			mp := filepath.Join(dir, "manifest.json")
			b, _ := os.ReadFile(mp)
			for _, mt := range man.Tables {
				if mt.Name == name && len(mt.MD5) > 0 {
					alt := []byte(mt.MD5)
					if alt[0] == '0' {
						alt[0] = '1'
					} else {
						alt[0] = '0'
					}
					if nb := bytes.Replace(b, []byte(mt.MD5), alt, 1); !bytes.Equal(nb, b) {
						_ = os.WriteFile(mp, nb, 0o644)
						corrupted = true
						o.Label("manifest-checksum-altered")
					}
				}
			}
		}
		if c.Corrupt > 0 {
			for _, mt := range man.Tables {
				if mt.Name != name {
					continue
				}
				p := filepath.Join(dir, mt.FileName)
				b, _ := os.ReadFile(p)
				if len(b) > 0 {
					b[c.Corrupt%len(b)] ^= 0x5A
					_ = os.WriteFile(p, b, 0o644)
					corrupted = true
				}
			}
		}
		rerr := (&backup.Backup{Conn: tconn, Dir: dir, Log: quietLog{}}).Restore()
		if corrupted {
			o.Label("corrupted-backup-file")
			if rerr == nil {
				return vt.Failf(prop+"/corrupt-backup-accepted", 2, "a backup file whose checksum does not match its manifest was restored without error")
			}
			after, err := replfx.ReadAll(target.E, name, true)
			if err != nil {
				return vt.Failf(prop+"/read-error", 2, "%v", err)
			}
			if err := samePairs(after, before); err != nil {
				return vt.Failf(prop+"/corrupt-backup-changed-table", 2, "refused restore changed the table: %v", err)
			}
			return nil
		}
		if rerr != nil {
			return vt.Failf(prop+"/restore-error", 2, "restore of a valid backup failed: %v (max-in-mem %d)", rerr, maxInMem)
		}
		got, err := replfx.ReadAll(target.E, name, true)
		if err != nil {
			return vt.Failf(prop+"/read-error", 3, "%v", err)
		}
		if err := samePairs(got, captured.Pairs); err != nil {
			return vt.Failf(prop+"/content-differs", 3, "backup restore (max-in-mem-log-size %d, %d records): %v", maxInMem, len(c.Content), err)
		}
	}
	total := 0
	for _, kv := range c.Content {
		total += recordSize(name, kv)
	}
	inside := maxInMem > 0 && uint64(total) > maxInMem/2 // the batch threshold is crossed before the stream ends
	if inside {
		o.Label("batch-threshold-crossed-inside-stream")
	}
	if len(c.Content) == 0 && len(c.Pre) > 0 {
		o.Label("empty-table-restored-over-a-table-holding-data")
	}
	o.NonTrivial = (len(c.Content) >= 3 && (inside || maxInMem == 0)) || (len(c.Content) == 0 && len(c.Pre) > 0)
	o.Describe = func() string {
		return fmt.Sprintf("%d captured pairs, %d pre-restore pairs, max-in-mem-log-size %d (threshold at record %d, slack %d), source %s, writers %v, corrupt %d", len(c.Content), len(c.Pre), maxInMem, c.ThresholdAt, c.Slack, c.Source, c.Writers, c.Corrupt)
	}
	return nil
}

// breakingReader passes `after` records through and then fails.
type breakingReader struct {
	r     io.Reader
	after int
	n     int
}

func (b *breakingReader) Read(p []byte) (int, error) {
	if b.n >= b.after {
		return 0, errors.New("stream broken (injected)")
	}
	b.n++
	return b.r.Read(p)
}

func scratch() string {
	d := os.Getenv("VERIF_SCRATCH")
	if d == "" {
		d = "/dev/shm/verif-scratch"
	}
	_ = os.MkdirAll(d, 0o755)
	return d
}

func TestC07(t *testing.T)        { vt.Check(t, prop, genCase, run) }
func TestC07Replay(t *testing.T)  { vt.Replay(t, prop, run) }
func TestC07Regress(t *testing.T) { vt.Regress(t, prop, "testdata", run) }
