package c07

// TestC07Image: "the stream is a point-in-time image - its content is the table's content at exactly the log index it declares,
// even while writes continue" - checked directly on the state machine that produces the stream (fsm.SnapshotRequest, the dump behind
// Maintenance.Backup and Snapshot.Stream).  A generated log is applied in generated Update calls (some of them carrying more than 16 MiB
// of pending writes: filler puts in front of and behind the interesting entries) while 1-3 goroutines take table dumps as fast as they
// can.  Every dump is judged after the run: its pairs must be exactly the model's content after the entry whose index it declares.
// Timing decides only which indices get sampled.

import (
	"bytes"
	"fmt"
	"sort"
	"sync"
	"sync/atomic"
	"testing"

	"verifharness/internal/fsmx"
	"verifharness/internal/vt"

	"github.com/jamf/regatta/regattapb"
	"github.com/jamf/regatta/storage/table/fsm"
	"pgregory.net/rapid"
)

type ImgOp struct {
	Kind int    `json:"kind"` // 0 put, 1 delete, 2 range delete [k,end), 3 put batch of two keys
	K    string `json:"k"`
	End  string `json:"end,omitempty"`
	Size int    `json:"size"` // padding bytes behind the value's stamp
}

type ImgCall struct {
	Ops    []ImgOp `json:"ops"`
	Offset int     `json:"offset,omitempty"` // > 0: filler puts first bring the pending batch to Offset bytes below 16 MiB
	Trail  int     `json:"trail,omitempty"`  // 2 MiB filler puts behind the ops
	Leader bool    `json:"leader"`           // entries carry leader indices (replicated shape)
}

type ImageCase struct {
	RecoveryType int       `json:"recovery_type"`
	Calls        []ImgCall `json:"calls"`
	Streams      int       `json:"streams"`
}

var imgKeys = []string{"a", "b", "b\x00", "c", "d", "e", "m", "y"}

func genImage(t *rapid.T) ImageCase {
	c := ImageCase{RecoveryType: rapid.IntRange(0, 1).Draw(t, "rtype"), Streams: rapid.IntRange(1, 3).Draw(t, "streams")}
	n := rapid.IntRange(2, 10).Draw(t, "calls")
	bigLeft := 3
	for i := 0; i < n; i++ {
		call := ImgCall{Leader: rapid.Bool().Draw(t, "leader")}
		big := bigLeft > 0 && rapid.IntRange(0, 2).Draw(t, "big") == 0
		nops := rapid.IntRange(1, 6).Draw(t, "nops")
		for j := 0; j < nops; j++ {
			op := ImgOp{Kind: rapid.SampledFrom([]int{0, 0, 0, 1, 2, 3}).Draw(t, "kind"), K: rapid.SampledFrom(imgKeys).Draw(t, "k")}
			if op.Kind == 2 {
				op.End = rapid.SampledFrom(append([]string{"\x00"}, imgKeys...)).Draw(t, "end")
			}
			if big {
				op.Size = rapid.SampledFrom([]int{0, 32 << 10, 200 << 10}).Draw(t, "size")
			} else {
				op.Size = rapid.SampledFrom([]int{0, 0, 100, 5000}).Draw(t, "size")
			}
			call.Ops = append(call.Ops, op)
		}
		if big {
			bigLeft--
			call.Offset = rapid.IntRange(1, 1<<20).Draw(t, "offset")
			call.Trail = rapid.IntRange(0, 3).Draw(t, "trail")
		}
		c.Calls = append(c.Calls, call)
	}
	return c
}

func imgValue(index uint64, sub, size int) []byte {
	v := []byte(fmt.Sprintf("i%08d.%d", index, sub))
	if size > 0 {
		v = append(v, bytes.Repeat([]byte{byte('a' + index%26)}, size)...)
	}
	return v
}

// descriptor of a value: its stamp and its length (the padding is a function of both)
func imgDesc(v []byte) string {
	n := min(len(v), 12)
	return fmt.Sprintf("%s#%d", v[:n], len(v))
}

type imgState map[string]string

func (s imgState) clone() imgState {
	o := make(imgState, len(s))
	for k, v := range s {
		o[k] = v
	}
	return o
}

// imgCommands builds the entries of one Update call and advances the model entry by entry (states[index] = content after that entry).
func imgCommands(call ImgCall, first uint64, cur imgState, states map[uint64]imgState) [][]byte {
	var cmds [][]byte
	idx := first
	emit := func(cmd *regattapb.Command) {
		cmd.Table = []byte(fsmx.Table)
		if call.Leader {
			li := idx * 10
			cmd.LeaderIndex = &li
		}
		b, _ := cmd.MarshalVT()
		cmds = append(cmds, b)
		states[idx] = cur.clone()
		idx++
	}
	filler := func(i, size int) {
		v := imgValue(idx, 0, size)
		k := fmt.Sprintf("zfill%02d", i)
		cur[k] = imgDesc(v)
		emit(&regattapb.Command{Type: regattapb.Command_PUT, Kv: &regattapb.KeyValue{Key: []byte(k), Value: v}})
	}
	if call.Offset > 0 {
		left := (16 << 20) - call.Offset
		for i := 0; left > 0; i++ {
			sz := min(left, 2<<20-32)
			filler(i, sz)
			left -= sz + 32
		}
	}
	for _, op := range call.Ops {
		switch op.Kind {
		case 0:
			v := imgValue(idx, 0, op.Size)
			cur[op.K] = imgDesc(v)
			emit(&regattapb.Command{Type: regattapb.Command_PUT, Kv: &regattapb.KeyValue{Key: []byte(op.K), Value: v}})
		case 1:
			delete(cur, op.K)
			emit(&regattapb.Command{Type: regattapb.Command_DELETE, Kv: &regattapb.KeyValue{Key: []byte(op.K)}})
		case 2:
			for k := range cur {
				if k >= op.K && (op.End == "\x00" || k < op.End) {
					delete(cur, k)
				}
			}
			emit(&regattapb.Command{Type: regattapb.Command_DELETE, Kv: &regattapb.KeyValue{Key: []byte(op.K)}, RangeEnd: []byte(op.End)})
		default:
			v1, v2 := imgValue(idx, 1, op.Size), imgValue(idx, 2, op.Size)
			k2 := op.K + "2"
			cur[op.K], cur[k2] = imgDesc(v1), imgDesc(v2)
			emit(&regattapb.Command{Type: regattapb.Command_PUT_BATCH, Batch: []*regattapb.KeyValue{{Key: []byte(op.K), Value: v1}, {Key: []byte(k2), Value: v2}}})
		}
	}
	for i := 0; i < call.Trail; i++ {
		filler(20+i, 2<<20-32)
	}
	return cmds
}

// dumpRecorder: the dump hands one marshalled PUT command to every Write call (the snapshot file frames exactly that).
type dumpRecorder struct {
	pairs [][2]string
	err   error
}

func (d *dumpRecorder) Write(p []byte) (int, error) {
	cmd := &regattapb.Command{}
	if err := cmd.UnmarshalVT(p); err != nil {
		d.err = fmt.Errorf("a record of the dump does not decode as a command: %v", err)
		return len(p), nil
	}
	if cmd.Type != regattapb.Command_PUT || cmd.Kv == nil {
		d.err = fmt.Errorf("a record of the dump is not a PUT: %v", cmd.Type)
		return len(p), nil
	}
	d.pairs = append(d.pairs, [2]string{string(cmd.Kv.Key), imgDesc(cmd.Kv.Value)})
	return len(p), nil
}

type imgDump struct {
	index uint64
	pairs [][2]string
}

func imgCompare(d imgDump, states map[uint64]imgState) error {
	want, ok := states[d.index]
	if !ok {
		if d.index == 0 && len(d.pairs) == 0 {
			return nil
		}
		return fmt.Errorf("the dump declares index %d, which is no index of the log", d.index)
	}
	if !sort.SliceIsSorted(d.pairs, func(i, j int) bool { return d.pairs[i][0] < d.pairs[j][0] }) {
		return fmt.Errorf("the dump declaring index %d is not in key order", d.index)
	}
	got := imgState{}
	for _, p := range d.pairs {
		if _, dup := got[p[0]]; dup {
			return fmt.Errorf("the dump declaring index %d holds key %q twice", d.index, p[0])
		}
		got[p[0]] = p[1]
	}
	for k, v := range want {
		if g, ok := got[k]; !ok {
			return fmt.Errorf("the dump declaring index %d lacks key %q (= %s at that index)", d.index, k, v)
		} else if g != v {
			return fmt.Errorf("the dump declaring index %d holds %q = %s, the table held %s at that index", d.index, k, g, v)
		}
	}
	for k, g := range got {
		if _, ok := want[k]; !ok {
			return fmt.Errorf("the dump declaring index %d holds %q = %s, the table held no such key at that index", d.index, k, g)
		}
	}
	return nil
}

func runImage(c ImageCase, o *vt.Obs) *vt.Failure {
	r := fsmx.Create(fsmx.NewFS(), fsm.SnapshotRecoveryType(c.RecoveryType), 1)
	if _, err := r.Open(); err != nil {
		return vt.Failf(prop+"/open-error", 0, "%v", err)
	}
	defer r.Close()
	states := map[uint64]imgState{}
	cur := imgState{}
	var calls [][][]byte
	next := uint64(1)
	bigCalls := 0
	for _, call := range c.Calls {
		cmds := imgCommands(call, next, cur, states)
		calls = append(calls, cmds)
		next += uint64(len(cmds))
		if call.Offset > 0 {
			bigCalls++
		}
	}
	var stop atomic.Bool
	var wg sync.WaitGroup
	var mu sync.Mutex
	var dumps []imgDump
	var dumpErr error
	take := func() {
		rec := &dumpRecorder{}
		res, err := r.SM.Lookup(fsm.SnapshotRequest{Writer: rec})
		mu.Lock()
		defer mu.Unlock()
		if err == nil {
			err = rec.err
		}
		if err != nil {
			if dumpErr == nil {
				dumpErr = err
			}
			return
		}
		dumps = append(dumps, imgDump{index: res.(*fsm.SnapshotResponse).Index, pairs: rec.pairs})
	}
	for i := 0; i < c.Streams; i++ {
		wg.Add(1)
		go func() {
			defer wg.Done()
			for !stop.Load() {
				take()
			}
		}()
	}
	first := uint64(1)
	var applyErr error
	for _, cmds := range calls {
		if _, err := r.Apply(fsmx.MkEntries(first, cmds)); err != nil {
			applyErr = err
			break
		}
		first += uint64(len(cmds))
	}
	stop.Store(true)
	wg.Wait()
	if applyErr != nil {
		return vt.Failf(prop+"/apply-error", 0, "%v", applyErr)
	}
	take() // quiescent: must be the final state
	if dumpErr != nil {
		return vt.Failf(prop+"/dump-error", 0, "%v", dumpErr)
	}
	last := dumps[len(dumps)-1]
	if last.index != next-1 {
		return vt.Failf(prop+"/declared-index", 0, "a dump taken after the last apply call returned declares index %d, the table is at %d", last.index, next-1)
	}
	distinct := map[uint64]bool{}
	for _, d := range dumps {
		distinct[d.index] = true
		if err := imgCompare(d, states); err != nil {
			return vt.Failf(prop+"/content-differs", 0, "table dump taken while writes continue: %v", err)
		}
	}
	o.LabelN("dumps-judged", len(dumps))
	if bigCalls > 0 {
		o.Label("apply-call-with-more-than-16MiB-of-pending-writes")
	}
	if len(distinct) >= 3 {
		o.Label("dumps-at>=3-distinct-indices")
	}
	o.NonTrivial = len(distinct) >= 2
	o.Describe = func() string {
		return fmt.Sprintf("%d apply calls (%d with > 16 MiB pending, %d entries), %d dumping goroutines took %d dumps at %d distinct declared indices", len(c.Calls), bigCalls, next-1, c.Streams, len(dumps), len(distinct))
	}
	return nil
}

func TestC07Image(t *testing.T)        { vt.Check(t, prop, genImage, runImage) }
func TestC07ImageReplay(t *testing.T)  { vt.Replay(t, prop, runImage) }
func TestC07ImageRegress(t *testing.T) { vt.Regress(t, prop, "testdata", runImage) }
