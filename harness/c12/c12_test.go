// C12 — key encoding is injective, order-preserving, and isolates bookkeeping keys.
package c12

import (
	"bytes"
	"fmt"
	"sort"
	"sync"
	"testing"

	"github.com/cockroachdb/pebble"
	rp "github.com/jamf/regatta/pebble"
	"github.com/jamf/regatta/regattapb"
	"github.com/jamf/regatta/storage/table/fsm"
	"github.com/jamf/regatta/storage/table/key"
	"github.com/jamf/regatta/util/iter"
	"pgregory.net/rapid"

	"verifharness/internal/fsmx"
	"verifharness/internal/gen"
	"verifharness/internal/vt"
)

const prop = "C12"

const maxKeyLen = 1024 // accepted by the table layer (key.LatestVersionLen)

func enc(t key.Type, k []byte) ([]byte, error) {
	var buf bytes.Buffer
	n, err := key.NewEncoder(&buf).Encode(&key.Key{KeyType: t, Key: k})
	if err != nil {
		return nil, err
	}
	if n != buf.Len() {
		return nil, fmt.Errorf("Encode reported %d bytes, wrote %d", n, buf.Len())
	}
	return buf.Bytes(), nil
}

var (
	cmpOnce sync.Once
	cmpVal  *pebble.Comparer
)

func storeComparer() *pebble.Comparer {
	cmpOnce.Do(func() { cmpVal = rp.DefaultOptions().Comparer })
	return cmpVal
}

func sign(x int) int {
	switch {
	case x < 0:
		return -1
	case x > 0:
		return 1
	}
	return 0
}

// ---- pure encoding laws ----------------------------------------------------------------------

type Case struct {
	Keys [][]byte `json:"keys"` // 2-3 non-empty keys
}

func genKey(t *rapid.T, label string, prev [][]byte) []byte {
	if len(prev) > 0 && rapid.IntRange(0, 2).Draw(t, label+".rel") == 0 {
		// neighbour of an earlier key: k.0x00, k.0xFF, prefix, last byte +-1
		p := prev[rapid.IntRange(0, len(prev)-1).Draw(t, label+".of")]
		k := append([]byte(nil), p...)
		switch rapid.IntRange(0, 4).Draw(t, label+".how") {
		case 0:
			k = append(k, 0x00)
		case 1:
			k = append(k, 0xFF)
		case 2:
			if len(k) > 1 {
				k = k[:len(k)-1]
			}
		case 3:
			k[len(k)-1]++
		default:
			k[len(k)-1]--
		}
		if len(k) > maxKeyLen {
			k = k[:maxKeyLen]
		}
		return k
	}
	switch rapid.IntRange(0, 5).Draw(t, label+".class") {
	case 0:
		n := rapid.SampledFrom([]int{1015, 1018, 1019, 1020, 1021, 1023, 1024}).Draw(t, label+".len")
		return rapid.SliceOfN(rapid.SampledFrom([]byte{0, 1, 0xFE, 0xFF}), n, n).Draw(t, label+".long")
	case 1:
		n := rapid.IntRange(1, maxKeyLen).Draw(t, label+".anylen")
		return bytes.Repeat([]byte{rapid.SampledFrom([]byte{0, 0xFF, 'k'}).Draw(t, label+".fill")}, n)
	default:
		return gen.FreshKey(t, label)
	}
}

func genCase(t *rapid.T) Case {
	n := rapid.IntRange(2, 3).Draw(t, "n")
	c := Case{}
	for i := 0; i < n; i++ {
		c.Keys = append(c.Keys, genKey(t, "key", c.Keys))
	}
	return c
}

var sysNames = [][]byte{[]byte("index"), []byte("leader_index")}

func run(c Case, o *vt.Obs) *vt.Failure {
	encs := make([][]byte, len(c.Keys))
	for i, k := range c.Keys {
		e, err := enc(key.TypeUser, k)
		if err != nil {
			return vt.Failf(prop+"/encode-error", i, "encode %q: %v", k, err)
		}
		encs[i] = e
		d, err := key.DecodeBytes(e)
		if err != nil {
			return vt.Failf(prop+"/decode-error", i, "decode(encode(%q)): %v", k, err)
		}
		if d.KeyType != key.TypeUser || !bytes.Equal(d.Key, k) {
			return vt.Failf(prop+"/round-trip", i, "decode(encode(%q)) = type %d key %q", k, d.KeyType, d.Key)
		}
		if len(e) != key.LatestKeyLen(len(k)) {
			return vt.Failf(prop+"/encoded-length", i, "encoded length %d, LatestKeyLen says %d", len(e), key.LatestKeyLen(len(k)))
		}
		// reader-based decoder agrees within its body limit (1019 user bytes)
		if len(k) <= 1019 {
			var dk key.Key
			if err := key.NewDecoder(bytes.NewReader(e)).Decode(&dk); err != nil {
				return vt.Failf(prop+"/decoder-error", i, "Decoder on encode(%q): %v", k, err)
			}
			if dk.KeyType != key.TypeUser || !bytes.Equal(dk.Key, k) {
				return vt.Failf(prop+"/decoder-mismatch", i, "Decoder gives type %d key %q for %q", dk.KeyType, dk.Key, k)
			}
		}
		// bookkeeping keys sort after every user key (hence after every expressible range end)
		for _, sn := range sysNames {
			se, _ := enc(key.TypeSystem, sn)
			if bytes.Compare(e, se) >= 0 {
				return vt.Failf(prop+"/bookkeeping-not-isolated", i, "user key %q encodes >= bookkeeping key %q", k, sn)
			}
		}
	}
	for i := range c.Keys {
		for j := range c.Keys {
			if sign(bytes.Compare(encs[i], encs[j])) != sign(bytes.Compare(c.Keys[i], c.Keys[j])) {
				return vt.Failf(prop+"/order", i, "cmp(%q,%q)=%d but cmp(enc)=%d", c.Keys[i], c.Keys[j], bytes.Compare(c.Keys[i], c.Keys[j]), bytes.Compare(encs[i], encs[j]))
			}
		}
	}
	// the store's own comparer (pebble/pebble.go): "order in storage space" is what THIS comparer says, and pebble relies on the documented
	// laws between its functions (skiplists of indexed batches order by AbbreviatedKey first, sstable index blocks use Separator / Successor,
	// bloom filters use Split)
	cmp := storeComparer()
	for i := range c.Keys {
		a := encs[i]
		if n := cmp.Split(a); n < 0 || n > len(a) {
			return vt.Failf(prop+"/comparer-split", i, "Split(enc %q)=%d outside [0,%d]", c.Keys[i], n, len(a))
		}
		if suc := cmp.Successor(nil, a); cmp.Compare(suc, a) < 0 {
			return vt.Failf(prop+"/comparer-successor", i, "Successor(enc %q) sorts before the key", c.Keys[i])
		}
		for j := range c.Keys {
			b := encs[j]
			want := sign(bytes.Compare(c.Keys[i], c.Keys[j]))
			if got := sign(cmp.Compare(a, b)); got != want {
				return vt.Failf(prop+"/comparer-order", i, "store comparer orders enc(%q) vs enc(%q) as %d, the user keys compare %d", c.Keys[i], c.Keys[j], got, want)
			}
			if cmp.Equal(a, b) != (want == 0) {
				return vt.Failf(prop+"/comparer-equal", i, "store comparer Equal(enc %q, enc %q)=%v", c.Keys[i], c.Keys[j], cmp.Equal(a, b))
			}
			if want < 0 {
				if cmp.AbbreviatedKey(a) > cmp.AbbreviatedKey(b) {
					return vt.Failf(prop+"/comparer-abbreviated-key-not-monotonic", i, "%q < %q but AbbreviatedKey(enc) %#x > %#x: ordered structures that compare abbreviated keys first would invert the pair", c.Keys[i], c.Keys[j], cmp.AbbreviatedKey(a), cmp.AbbreviatedKey(b))
				}
				if sep := cmp.Separator(nil, a, b); cmp.Compare(a, sep) > 0 || cmp.Compare(sep, b) >= 0 {
					return vt.Failf(prop+"/comparer-separator", i, "Separator(enc %q, enc %q) is not in [a, b)", c.Keys[i], c.Keys[j])
				}
				// prefixes (as defined by Split) must not order against the keys
				if pa, pb := a[:cmp.Split(a)], b[:cmp.Split(b)]; cmp.Compare(pa, pb) > 0 {
					return vt.Failf(prop+"/comparer-split", i, "%q < %q but their Split prefixes order the other way", c.Keys[i], c.Keys[j])
				}
			}
		}
	}
	nt := false
	for i := range c.Keys {
		if len(c.Keys[i]) >= 1019 {
			nt = true
			o.Label("len>=1019")
		}
		for j := range c.Keys {
			if i != j && bytes.HasPrefix(c.Keys[j], c.Keys[i]) && len(c.Keys[j]) > len(c.Keys[i]) {
				nt = true
				o.Label("strict-prefix-pair")
			}
			if i < j && len(c.Keys[i]) == len(c.Keys[j]) {
				d := 0
				for x := range c.Keys[i] {
					if c.Keys[i][x] != c.Keys[j][x] {
						d++
					}
				}
				if d == 1 {
					nt = true
					o.Label("one-byte-difference")
				}
			}
		}
	}
	o.NonTrivial = nt
	o.Describe = func() string { return fmt.Sprintf("%q", c.Keys) }
	return nil
}

func TestC12(t *testing.T)        { vt.Check(t, prop, genCase, run) }
func TestC12Replay(t *testing.T)  { vt.Replay(t, prop, run) }
func TestC12Regress(t *testing.T) { vt.Regress(t, prop, "testdata", run) }

// ---- through the state machine: the wildcard addresses every user key and no bookkeeping key ----

type FSMCase struct {
	Keys     [][]byte `json:"keys"`
	LowKey   []byte   `json:"low_key"`
	RangeEnd []byte   `json:"range_end"` // extreme explicit upper bound tried before the wildcard
	// Probes: keys read one by one - neighbours of the stored keys (a stored key extended / shortened / changed in its last byte, keys
	// sharing hundreds of leading bytes with a stored one) and the stored keys themselves: a key is answered from its own stored key or
	// not at all (seeded change C12-K: the store's prefix function was capped at 128 bytes - an absent key was answered from a stored
	// key that shares its first 123 bytes)
	Probes [][]byte `json:"probes,omitempty"`
}

func genFSMCase(t *rapid.T) FSMCase {
	n := rapid.IntRange(1, 8).Draw(t, "n")
	c := FSMCase{}
	for i := 0; i < n; i++ {
		c.Keys = append(c.Keys, genKey(t, "key", c.Keys))
	}
	c.LowKey = genKey(t, "low", c.Keys)
	c.RangeEnd = rapid.OneOf(
		rapid.Just(bytes.Repeat([]byte{0xFF}, 1024)),
		rapid.Just(bytes.Repeat([]byte{0xFF}, 1019)),
		rapid.Just([]byte{0xFF}),
		rapid.Custom(func(t *rapid.T) []byte { return genKey(t, "end", c.Keys) }),
	).Draw(t, "end")
	for i, k := 0, rapid.IntRange(1, 5).Draw(t, "probes"); i < k; i++ {
		c.Probes = append(c.Probes, genKey(t, "probe", c.Keys))
	}
	return c
}

func firstKey(r *regattapb.ResponseOp_Range) []byte {
	if len(r.Kvs) == 0 {
		return nil
	}
	return r.Kvs[0].Key
}

func runFSM(c FSMCase, o *vt.Obs) *vt.Failure {
	r := fsmx.Create(fsmx.NewFS(), fsm.RecoveryTypeSnapshot, 1)
	if _, err := r.Open(); err != nil {
		return vt.Failf(prop+"/open-error", 0, "%v", err)
	}
	defer r.Close()
	var cmds [][]byte
	li := uint64(77)
	uniq := map[string]bool{}
	for _, k := range c.Keys {
		uniq[string(k)] = true
		cmd := &regattapb.Command{Table: []byte("t"), Type: regattapb.Command_PUT, Kv: &regattapb.KeyValue{Key: k, Value: []byte("v")}, LeaderIndex: &li}
		b, _ := cmd.MarshalVT()
		cmds = append(cmds, b)
	}
	if _, err := r.Apply(fsmx.MkEntries(1, cmds)); err != nil {
		return vt.Failf(prop+"/apply-error", 0, "%v", err)
	}
	sorted := make([]string, 0, len(uniq))
	for k := range uniq {
		sorted = append(sorted, k)
	}
	sort.Strings(sorted)
	// wildcard read from the smallest possible key sees exactly the stored user keys, in order
	resp, err := r.Range(&regattapb.RequestOp_Range{Key: []byte{0}, RangeEnd: []byte{0}, KeysOnly: true})
	if err != nil {
		return vt.Failf(prop+"/read-error", 1, "%v", err)
	}
	if len(resp.Kvs) != len(sorted) {
		return vt.Failf(prop+"/wildcard-read", 1, "wildcard read returned %d keys, stored %d", len(resp.Kvs), len(sorted))
	}
	for i, kv := range resp.Kvs {
		if string(kv.Key) != sorted[i] {
			return vt.Failf(prop+"/wildcard-read", 1, "wildcard read key %d = %q want %q", i, kv.Key, sorted[i])
		}
	}
	// single-key reads: a key is answered from its own stored key or not at all
	for _, pk := range c.Probes {
		pr, err := r.Range(&regattapb.RequestOp_Range{Key: pk})
		if err != nil {
			return vt.Failf(prop+"/read-error", 1, "single-key read: %v", err)
		}
		if uniq[string(pk)] {
			if len(pr.Kvs) != 1 || !bytes.Equal(pr.Kvs[0].Key, pk) {
				return vt.Failf(prop+"/stored-key-not-found-under-its-own-name", 1, "single-key read of the stored key %q (%d bytes) returned %d pairs", clip(pk), len(pk), len(pr.Kvs))
			}
		} else if len(pr.Kvs) != 0 || pr.Count != 0 {
			return vt.Failf(prop+"/absent-key-answered-from-another-key", 1, "single-key read of %q (%d bytes, not stored) returned %d pairs (count %d), first key %q (%d bytes)", clip(pk), len(pk), len(pr.Kvs), pr.Count, clip(firstKey(pr)), len(firstKey(pr)))
		}
	}
	// [low, wildcard) == keys >= low
	resp, err = r.Range(&regattapb.RequestOp_Range{Key: c.LowKey, RangeEnd: []byte{0}, CountOnly: true})
	if err != nil {
		return vt.Failf(prop+"/read-error", 2, "%v", err)
	}
	want := 0
	for _, k := range sorted {
		if k >= string(c.LowKey) {
			want++
		}
	}
	if resp.Count != int64(want) {
		return vt.Failf(prop+"/wildcard-read", 2, "count of [%q, *) = %d want %d", c.LowKey, resp.Count, want)
	}
	// a streamed read over [low, end) obtained first and consumed after other keys were encoded by other requests: the bounds given in
	// user-key space must still select exactly the keys between them ("range bounds mean the same in both spaces")
	if v, err := r.SM.Lookup(fsm.IteratorRequest{RangeOp: &regattapb.RequestOp_Range{Key: c.LowKey, RangeEnd: c.RangeEnd, KeysOnly: true}}); err == nil {
		_, _ = r.Range(&regattapb.RequestOp_Range{Key: []byte("zz-other-request")})
		_, _ = r.Range(&regattapb.RequestOp_Range{Key: []byte{1}, RangeEnd: []byte("m")})
		var got []string
		v.(iter.Seq[*regattapb.ResponseOp_Range])(func(x *regattapb.ResponseOp_Range) bool {
			for _, kv := range x.Kvs {
				got = append(got, string(kv.Key))
			}
			return true
		})
		var wantKeys []string
		wildEnd := bytes.Equal(c.RangeEnd, []byte{0})
		for _, k := range sorted {
			if k >= string(c.LowKey) && (wildEnd || k < string(c.RangeEnd)) {
				wantKeys = append(wantKeys, k)
			}
		}
		if fmt.Sprint(got) != fmt.Sprint(wantKeys) {
			return vt.Failf(prop+"/bounds-differ-between-spaces", 2, "streamed read of [%q, %q~%dB) consumed after other requests returned %d keys %q, the user keys in that range are %d: %q", clip(c.LowKey), clip(c.RangeEnd), len(c.RangeEnd), len(got), shortStr(got), len(wantKeys), shortStr(wantKeys))
		}
	}
	// range deletes with extreme bounds: first an explicit bound, then the wildcard; bookkeeping must survive
	del1 := &regattapb.Command{Table: []byte("t"), Type: regattapb.Command_DELETE, Kv: &regattapb.KeyValue{Key: []byte{0}}, RangeEnd: c.RangeEnd, Count: true}
	b1, _ := del1.MarshalVT()
	res, err := r.Apply(fsmx.MkEntries(uint64(len(cmds)+1), [][]byte{b1}))
	if err != nil {
		return vt.Failf(prop+"/apply-error", 3, "%v", err)
	}
	want = 0
	wild := bytes.Equal(c.RangeEnd, []byte{0}) // the generated explicit bound may itself be the wildcard
	for _, k := range sorted {
		if k >= "\x00" && (wild || k < string(c.RangeEnd)) {
			want++
		}
	}
	cr := &regattapb.CommandResult{}
	_ = cr.UnmarshalVT(res[0].Result.Data)
	if got := cr.Responses[0].GetResponseDeleteRange().Deleted; got != int64(want) {
		return vt.Failf(prop+"/range-delete-bound", 3, "delete [0x00, %q~%dB) removed %d keys, model %d", clip(c.RangeEnd), len(c.RangeEnd), got, want)
	}
	del2 := &regattapb.Command{Table: []byte("t"), Type: regattapb.Command_DELETE, Kv: &regattapb.KeyValue{Key: []byte{0}}, RangeEnd: []byte{0}, Count: true}
	b2, _ := del2.MarshalVT()
	res, err = r.Apply(fsmx.MkEntries(uint64(len(cmds)+2), [][]byte{b2}))
	if err != nil {
		return vt.Failf(prop+"/apply-error", 4, "%v", err)
	}
	cr = &regattapb.CommandResult{}
	_ = cr.UnmarshalVT(res[0].Result.Data)
	if got := cr.Responses[0].GetResponseDeleteRange().Deleted; got != int64(len(sorted)-want) {
		return vt.Failf(prop+"/wildcard-delete", 4, "wildcard delete removed %d keys, %d were left", got, len(sorted)-want)
	}
	all, err := r.All()
	if err != nil || len(all) != 0 {
		return vt.Failf(prop+"/wildcard-delete", 4, "after wildcard delete %d keys remain (err %v)", len(all), err)
	}
	idx, _ := r.LocalIndex()
	lidx, _ := r.LeaderIndex()
	if idx != uint64(len(cmds)+2) || lidx != 77 {
		return vt.Failf(prop+"/bookkeeping-altered", 5, "after extreme range deletes: applied index %d (want %d), leader index %d (want 77)", idx, len(cmds)+2, lidx)
	}
	if idx2, err := r.Reopen(); err != nil || idx2 != uint64(len(cmds)+2) {
		return vt.Failf(prop+"/bookkeeping-altered", 6, "reopen after extreme range deletes: index %d err %v", idx2, err)
	}
	for _, k := range c.Keys {
		if len(k) >= 1019 {
			o.NonTrivial = true
			o.Label("len>=1019")
		}
	}
	if len(c.RangeEnd) >= 1019 {
		o.NonTrivial = true
		o.Label("extreme-explicit-bound")
	}
	o.Describe = func() string {
		return fmt.Sprintf("keys %q low %q end %q~%dB", shortAll(c.Keys), clip(c.LowKey), clip(c.RangeEnd), len(c.RangeEnd))
	}
	return nil
}

func clip(b []byte) []byte {
	if len(b) > 10 {
		return b[:10]
	}
	return b
}

func shortStr(ks []string) []string {
	var out []string
	for _, k := range ks {
		if len(k) > 12 {
			k = k[:12] + "..."
		}
		out = append(out, k)
	}
	return out
}

func shortAll(ks [][]byte) []string {
	var out []string
	for _, k := range ks {
		out = append(out, fmt.Sprintf("%q~%dB", clip(k), len(k)))
	}
	return out
}

func TestC12FSM(t *testing.T)        { vt.Check(t, prop, genFSMCase, runFSM) }
func TestC12FSMReplay(t *testing.T)  { vt.Replay(t, prop, runFSM) }
func TestC12FSMRegress(t *testing.T) { vt.Regress(t, prop, "testdata", runFSM) }

// ---- native fuzz target (thorough tier) --------------------------------------------------------

func FuzzC12(f *testing.F) {
	f.Add([]byte("a"), []byte("a\x00"))
	f.Add([]byte{0xFF}, []byte{0xFF, 0xFF})
	f.Add(bytes.Repeat([]byte{0xFF}, 1019), bytes.Repeat([]byte{0xFF}, 1020))
	f.Add([]byte("index"), []byte("leader_index"))
	f.Fuzz(func(t *testing.T, a, b []byte) {
		if len(a) == 0 || len(b) == 0 || len(a) > maxKeyLen || len(b) > maxKeyLen {
			t.Skip()
		}
		if fl := run(Case{Keys: [][]byte{a, b}}, &vt.Obs{}); fl != nil {
			t.Fatalf("VERIF-FAIL signature=%s %s", fl.Signature, fl.Msg)
		}
	})
}
