package c12

// TestC12Table: "range bounds mean the same in both spaces" at the surface a client uses - table.ActiveTable (what the KV service calls)
// over an in-memory raft stand-in with one real state machine.  Stored keys come from the C12 key generator (prefixes of each other,
// 0x00 / 0xFF bytes, lengths around the limit); the bounds of counted range deletes and range reads are those keys, their successors
// (k+0x00 - the natural "just past k", longer than a key may be when k has the maximum length), longer extensions, and the wildcard.
// Oracle: plain byte-string comparison on the user keys.

import (
	"bytes"
	"context"
	"errors"
	"fmt"
	"sort"
	"testing"

	"github.com/jamf/regatta/regattapb"
	serrors "github.com/jamf/regatta/storage/errors"
	"github.com/jamf/regatta/storage/table"
	"github.com/jamf/regatta/storage/table/fsm"
	"pgregory.net/rapid"

	"verifharness/internal/simraft"
	"verifharness/internal/vt"
)

type TableBound struct {
	Low []byte `json:"low"`
	End []byte `json:"end"`
	Del bool   `json:"del"` // counted range delete (then the keys are put back) instead of a read
}

type TableCase struct {
	Keys   [][]byte     `json:"keys"`
	Bounds []TableBound `json:"bounds"`
}

func genTableCase(t *rapid.T) TableCase {
	c := TableCase{}
	for i, n := 0, rapid.IntRange(1, 8).Draw(t, "n"); i < n; i++ {
		c.Keys = append(c.Keys, genKey(t, "key", c.Keys))
	}
	bound := func(label string) []byte {
		switch rapid.IntRange(0, 5).Draw(t, label+".class") {
		case 0:
			return []byte{0}
		case 1, 2:
			k := rapid.SampledFrom(c.Keys).Draw(t, label+".of")
			return append(append([]byte(nil), k...), rapid.SampledFrom([][]byte{{0}, {0}, {0xff}, {0xff, 0xff, 0xff, 0xff, 0xff, 0xff}, {0, 0}, {1}}).Draw(t, label+".ext")...)
		case 3:
			return append([]byte(nil), rapid.SampledFrom(c.Keys).Draw(t, label+".key")...)
		default:
			return genKey(t, label+".fresh", c.Keys)
		}
	}
	for i, n := 0, rapid.IntRange(1, 6).Draw(t, "nb"); i < n; i++ {
		b := TableBound{Low: genKey(t, "low", c.Keys), End: bound("end"), Del: rapid.Bool().Draw(t, "del")}
		if rapid.IntRange(0, 3).Draw(t, "lowzero") == 0 {
			b.Low = []byte{0}
		}
		c.Bounds = append(c.Bounds, b)
	}
	return c
}

func runTableCase(c TableCase, o *vt.Obs) *vt.Failure {
	cl, err := simraft.New(1, fsm.RecoveryTypeSnapshot)
	if err != nil {
		return vt.Failf(prop+"/open-error", 0, "%v", err)
	}
	defer cl.Close()
	tab := table.Table{Name: "t", ClusterID: 10001}.AsActive(simraft.Handle{C: cl, Replica: 0})
	ctx := context.Background()
	uniq := map[string]bool{}
	put := func(k []byte) *vt.Failure {
		if _, err := tab.Put(ctx, &regattapb.PutRequest{Table: []byte("t"), Key: k, Value: []byte("v")}); err != nil {
			return vt.Failf(prop+"/table-put-error", 0, "put of a %d byte key: %v", len(k), err)
		}
		return nil
	}
	for _, k := range c.Keys {
		uniq[string(k)] = true
		if f := put(k); f != nil {
			return f
		}
	}
	sorted := make([]string, 0, len(uniq))
	for k := range uniq {
		sorted = append(sorted, k)
	}
	sort.Strings(sorted)
	longBound := false
	for i, b := range c.Bounds {
		wild := bytes.Equal(b.End, []byte{0})
		var want []string
		for _, k := range sorted {
			if k >= string(b.Low) && (wild || k < string(b.End)) {
				want = append(want, k)
			}
		}
		if len(b.End) > 1024 {
			longBound = true
		}
		what := fmt.Sprintf("[%q~%dB, %q~%dB)", clip(b.Low), len(b.Low), clip(b.End), len(b.End))
		if b.Del {
			resp, err := tab.Delete(ctx, &regattapb.DeleteRangeRequest{Table: []byte("t"), Key: b.Low, RangeEnd: b.End, Count: true, PrevKv: true})
			if err != nil {
				if (len(b.End) > 1024 || len(b.Low) > 1024) && errors.Is(err, serrors.ErrKeyLengthExceeded) {
					o.Label("over-long-bound-refused")
					continue
				}
				return vt.Failf(prop+"/table-delete-error", i, "delete %s: %v", what, err)
			}
			var got []string
			for _, kv := range resp.PrevKvs {
				got = append(got, string(kv.Key))
			}
			if resp.Deleted != int64(len(want)) || fmt.Sprint(got) != fmt.Sprint(want) {
				return vt.Failf(prop+"/table-range-delete-bound", i, "delete %s through the table layer removed %d keys %q, the user keys in that range are %d: %q", what, resp.Deleted, shortStr(got), len(want), shortStr(want))
			}
			for _, k := range want {
				if f := put([]byte(k)); f != nil {
					return f
				}
			}
			continue
		}
		resp, err := tab.Range(ctx, &regattapb.RangeRequest{Table: []byte("t"), Key: b.Low, RangeEnd: b.End, KeysOnly: true, Linearizable: true})
		if err != nil {
			if (len(b.End) > 1024 || len(b.Low) > 1024) && errors.Is(err, serrors.ErrKeyLengthExceeded) {
				o.Label("over-long-bound-refused")
				continue
			}
			return vt.Failf(prop+"/table-read-error", i, "read %s: %v", what, err)
		}
		var got []string
		for _, kv := range resp.Kvs {
			got = append(got, string(kv.Key))
		}
		if fmt.Sprint(got) != fmt.Sprint(want) {
			return vt.Failf(prop+"/table-range-read-bound", i, "read %s through the table layer returned %d keys %q, the user keys in that range are %d: %q", what, len(got), shortStr(got), len(want), shortStr(want))
		}
	}
	maxLen := 0
	for _, k := range c.Keys {
		maxLen = max(maxLen, len(k))
	}
	if longBound {
		o.Label("bound-longer-than-a-key-may-be")
	}
	if maxLen >= 1019 {
		o.Label("len>=1019")
	}
	o.NonTrivial = longBound || maxLen >= 1019
	o.Describe = func() string { return fmt.Sprintf("keys %q, %d bounds", shortAll(c.Keys), len(c.Bounds)) }
	return nil
}

func TestC12Table(t *testing.T)        { vt.Check(t, prop, genTableCase, runTableCase) }
func TestC12TableReplay(t *testing.T)  { vt.Replay(t, prop, runTableCase) }
func TestC12TableRegress(t *testing.T) { vt.Regress(t, prop, "testdata", runTableCase) }
