//go:build verif

// C10 — revisions follow commit order; linearizable reads see all acknowledged writes.
package c10

import (
	"bytes"
	"context"
	"errors"
	"fmt"
	"sort"
	"sync"
	"sync/atomic"
	"testing"
	"time"

	"github.com/jamf/regatta/regattapb"
	"github.com/jamf/regatta/regattaserver"
	serrors "github.com/jamf/regatta/storage/errors"
	"github.com/jamf/regatta/storage/table"
	"github.com/jamf/regatta/storage/table/fsm"
	"github.com/lni/dragonboat/v4"
	"pgregory.net/rapid"

	"verifharness/internal/enginefx"
	"verifharness/internal/gen"
	"verifharness/internal/model"
	"verifharness/internal/simraft"
	"verifharness/internal/tlog"
	"verifharness/internal/vt"
)

const prop = "C10"

// ---- domain A: deterministic replicas with controlled lag ------------------------------------------

type Op struct {
	Client int    `json:"client"` // which replica the client talks to
	Kind   string `json:"kind"`   // put | del | txn | range | rotxn | catchup
	Req    []byte `json:"req,omitempty"`
	// range: linearizable flag; catchup: number of entries the replica applies
	Linearizable bool `json:"linearizable,omitempty"`
	N            int  `json:"n,omitempty"`
	EmptyEnd     bool `json:"empty_end,omitempty"`
	// Busy: the consensus read of this operation fails with a transient raft error (read-index queue full); the read must then
	// fail or still be correct, never fall back to a possibly stale local answer
	Busy bool `json:"busy,omitempty"`
}

type Case struct {
	Replicas int   `json:"replicas"`
	Batch    []int `json:"batch"` // grouping of pending entries into Update calls, cycled
	Ops      []Op  `json:"ops"`
}

func genCase(t *rapid.T) Case {
	pool := gen.NewPool(t, 2, 5, 1024)
	c := Case{Replicas: rapid.IntRange(2, 3).Draw(t, "replicas")}
	c.Batch = rapid.SliceOfN(rapid.IntRange(1, 4), 1, 5).Draw(t, "batch")
	n := rapid.IntRange(2, 30).Draw(t, "n")
	for i := 0; i < n; i++ {
		op := Op{Client: rapid.IntRange(0, c.Replicas-1).Draw(t, "client")}
		k := rapid.IntRange(0, 19).Draw(t, "kind")
		switch {
		case k <= 4:
			op.Kind = "put"
			r := &regattapb.PutRequest{Table: []byte("t"), Key: pool.Key(t, "k"), Value: gen.Value(t, "v"), PrevKv: rapid.Bool().Draw(t, "prev")}
			op.Req, _ = r.MarshalVT()
		case k <= 6:
			op.Kind = "del"
			r := &regattapb.DeleteRangeRequest{Table: []byte("t"), Key: pool.Key(t, "k"), PrevKv: rapid.Bool().Draw(t, "prev"), Count: rapid.Bool().Draw(t, "count")}
			if rapid.Bool().Draw(t, "isrange") {
				r.RangeEnd = pool.RangeEnd(t, "del", false)
			}
			op.Req, _ = r.MarshalVT()
		case k <= 10:
			op.Kind = "txn"
			x := pool.Txn(t, "txn", false)
			switch rapid.IntRange(0, 4).Draw(t, "emptyclass") {
			case 0:
				x.Success, x.Failure = nil, nil // both branches empty
			case 1:
				x.Success = nil // taken branch possibly empty
			case 2:
				x.Failure = nil
			}
			if len(x.Success) == 0 && len(x.Failure) == 0 {
				// a transaction without any operation is "read-only" for the table layer; give it one write on the other branch half of the time
				if rapid.Bool().Draw(t, "makewrite") {
					x.Failure = []*regattapb.RequestOp{{Request: &regattapb.RequestOp_RequestPut{RequestPut: pool.PutOp(t, "w")}}}
				}
			}
			r := &regattapb.TxnRequest{Table: []byte("t"), Compare: x.Compare, Success: x.Success, Failure: x.Failure}
			op.Req, _ = r.MarshalVT()
		case k <= 14:
			op.Kind = "range"
			q := pool.RangeReq(t, "r")
			r := &regattapb.RangeRequest{Table: []byte("t"), Key: q.Key, RangeEnd: q.RangeEnd, Limit: q.Limit, KeysOnly: q.KeysOnly, CountOnly: q.CountOnly, Linearizable: rapid.Bool().Draw(t, "lin")}
			op.Linearizable = r.Linearizable
			op.EmptyEnd = q.RangeEnd != nil && len(q.RangeEnd) == 0
			op.Busy = r.Linearizable && rapid.IntRange(0, 4).Draw(t, "busy") == 0
			op.Req, _ = r.MarshalVT()
		case k <= 16:
			op.Kind = "rotxn"
			x := pool.Txn(t, "rotxn", true)
			r := &regattapb.TxnRequest{Table: []byte("t"), Compare: x.Compare, Success: x.Success, Failure: x.Failure}
			op.Busy = rapid.IntRange(0, 4).Draw(t, "busy") == 0
			op.Req, _ = r.MarshalVT()
		default:
			op.Kind = "catchup"
			op.N = rapid.IntRange(1, 6).Draw(t, "n")
		}
		c.Ops = append(c.Ops, op)
	}
	return c
}

// toCommand mirrors what the table layer proposes for a mutation (the model is applied to it).
func putCmd(r *regattapb.PutRequest) *regattapb.Command {
	return &regattapb.Command{Type: regattapb.Command_PUT, Table: r.Table, Kv: &regattapb.KeyValue{Key: r.Key, Value: r.Value}, PrevKvs: r.PrevKv}
}

func delCmd(r *regattapb.DeleteRangeRequest) *regattapb.Command {
	return &regattapb.Command{Type: regattapb.Command_DELETE, Table: r.Table, Kv: &regattapb.KeyValue{Key: r.Key}, RangeEnd: r.RangeEnd, PrevKvs: r.PrevKv, Count: r.Count}
}

func run(c Case, o *vt.Obs) *vt.Failure {
	cl, err := simraft.New(c.Replicas, fsm.RecoveryTypeSnapshot)
	if err != nil {
		return vt.Failf(prop+"/open-error", 0, "%v", err)
	}
	defer cl.Close()
	bi := 0
	cl.Batch = func(int) int { bi++; return c.Batch[bi%len(c.Batch)] }
	tabs := make([]table.ActiveTable, c.Replicas)
	for i := range tabs {
		tabs[i] = table.Table{Name: "t", ClusterID: 10001}.AsActive(simraft.Handle{C: cl, Replica: i})
	}
	m := model.New()
	states := []*model.Map{m.Clone()} // states[i] = model after i log entries
	ctx := context.Background()
	lastRev := uint64(0)
	laggingRead, emptyTxn := false, false
	busyReads := 0
	for i, op := range c.Ops {
		t := tabs[op.Client]
		switch op.Kind {
		case "put":
			r := &regattapb.PutRequest{}
			_ = r.UnmarshalVT(op.Req)
			resp, err := t.Put(ctx, r)
			if err != nil {
				return vt.Failf(prop+"/write-error", i, "put: %v", err)
			}
			idx := cl.Commit()
			want := m.Apply(putCmd(r), idx)
			states = append(states, m.Clone())
			if f := checkRev(i, "put", resp.Header, idx, &lastRev); f != nil {
				return f
			}
			if cerr := model.CheckOp(want.Ops[0], &regattapb.ResponseOp{Response: &regattapb.ResponseOp_ResponsePut{ResponsePut: &regattapb.ResponseOp_Put{PrevKv: resp.PrevKv}}}); cerr != nil {
				return vt.Failf(prop+"/response-not-explained-by-revision-order", i, "put at revision %d: %v", idx, cerr)
			}
		case "del":
			r := &regattapb.DeleteRangeRequest{}
			_ = r.UnmarshalVT(op.Req)
			resp, err := t.Delete(ctx, r)
			if err != nil {
				return vt.Failf(prop+"/write-error", i, "delete: %v", err)
			}
			idx := cl.Commit()
			want := m.Apply(delCmd(r), idx)
			states = append(states, m.Clone())
			if f := checkRev(i, "delete range", resp.Header, idx, &lastRev); f != nil {
				return f
			}
			if cerr := model.CheckOp(want.Ops[0], &regattapb.ResponseOp{Response: &regattapb.ResponseOp_ResponseDeleteRange{ResponseDeleteRange: &regattapb.ResponseOp_DeleteRange{Deleted: resp.Deleted, PrevKvs: resp.PrevKvs}}}); cerr != nil {
				return vt.Failf(prop+"/response-not-explained-by-revision-order", i, "delete at revision %d: %v", idx, cerr)
			}
		case "txn", "rotxn":
			r := &regattapb.TxnRequest{}
			_ = r.UnmarshalVT(op.Req)
			before := cl.Commit()
			lag := before - cl.Applied[op.Client]
			if op.Busy && r.IsReadonly() {
				cl.FailSyncRead = dragonboat.ErrSystemBusy
				busyReads++
			}
			resp, err := t.Txn(ctx, r)
			cl.FailSyncRead = nil
			if err != nil {
				if op.Busy && r.IsReadonly() {
					continue // failing cleanly is fine
				}
				return vt.Failf(prop+"/write-error", i, "txn: %v", err)
			}
			if r.IsReadonly() {
				// read-only transactions never enter the log and must reflect everything acknowledged so far
				if cl.Commit() != before {
					return vt.Failf(prop+"/readonly-txn-logged", i, "a read-only transaction was appended to the log")
				}
				ok, ops := states[before].ReadTxn(r)
				if resp.Succeeded != ok {
					return vt.Failf(prop+"/readonly-txn-stale", i, "read-only txn via replica %d (lag %d): succeeded=%v, model at commit index %d says %v", op.Client, lag, resp.Succeeded, before, ok)
				}
				if cerr := model.CheckOps(ops, resp.Responses); cerr != nil {
					return vt.Failf(prop+"/readonly-txn-stale", i, "read-only txn via replica %d (lag %d) does not reflect all %d acknowledged writes: %v", op.Client, lag, before, cerr)
				}
				if lag > 0 {
					laggingRead = true
				}
				continue
			}
			idx := cl.Commit()
			want := m.Apply(&regattapb.Command{Type: regattapb.Command_TXN, Table: r.Table, Txn: &regattapb.Txn{Compare: r.Compare, Success: r.Success, Failure: r.Failure}}, idx)
			states = append(states, m.Clone())
			if len(want.Ops) == 0 {
				emptyTxn = true
			}
			if f := checkRev(i, fmt.Sprintf("txn (executed branch has %d operations)", len(want.Ops)), resp.Header, idx, &lastRev); f != nil {
				return f
			}
			if resp.Succeeded != (want.Value == 1) {
				return vt.Failf(prop+"/response-not-explained-by-revision-order", i, "txn at revision %d: succeeded=%v, model %v", idx, resp.Succeeded, want.Value == 1)
			}
			if cerr := model.CheckOps(want.Ops, resp.Responses); cerr != nil {
				return vt.Failf(prop+"/response-not-explained-by-revision-order", i, "txn at revision %d: %v", idx, cerr)
			}
		case "range":
			r := &regattapb.RangeRequest{}
			_ = r.UnmarshalVT(op.Req)
			if op.EmptyEnd {
				r.RangeEnd = []byte{}
			}
			commit := cl.Commit()
			applied := cl.Applied[op.Client]
			if op.Busy && r.Linearizable {
				cl.FailSyncRead = dragonboat.ErrSystemBusy
				busyReads++
			}
			resp, err := t.Range(ctx, r)
			cl.FailSyncRead = nil
			if err != nil {
				if op.Busy && r.Linearizable {
					continue // failing cleanly is fine
				}
				if len(r.RangeEnd) > 1024 && errors.Is(err, serrors.ErrKeyLengthExceeded) {
					// the read API refuses bounds longer than a key may be (the delete API accepts them); refusing is not a C10 matter
					o.Label("read-with-over-long-bound-refused")
					continue
				}
				return vt.Failf(prop+"/read-error", i, "range: %v", err)
			}
			at := applied
			if r.Linearizable {
				at = commit
			}
			want := states[at].Read(&regattapb.RequestOp_Range{Key: r.Key, RangeEnd: r.RangeEnd, Limit: r.Limit, KeysOnly: r.KeysOnly, CountOnly: r.CountOnly})
			got := &regattapb.ResponseOp_Range{Kvs: resp.Kvs, Count: resp.Count, More: resp.More}
			if cerr := model.CheckRangeResponse(want, got, false); cerr != nil {
				if r.Linearizable {
					return vt.Failf(prop+"/linearizable-read-stale", i, "linearizable range %s via replica %d (applied %d, commit %d) does not reflect all acknowledged writes: %v", tlog.FmtRange(&regattapb.RequestOp_Range{Key: r.Key, RangeEnd: r.RangeEnd}), op.Client, applied, commit, cerr)
				}
				return vt.Failf(prop+"/serializable-read-not-a-prefix", i, "serializable range via replica %d (applied %d): the answer is not the state after the applied prefix: %v", op.Client, applied, cerr)
			}
			// the streamed variant of the same read (KV.IterateRange -> ActiveTable.Iterator) obeys the same rule
			if r.RangeEnd != nil && !op.Busy {
				seq, err := t.Iterator(ctx, r)
				if err != nil {
					return vt.Failf(prop+"/read-error", i, "iterator: %v", err)
				}
				var chunks []*regattapb.ResponseOp_Range
				seq(func(x *regattapb.ResponseOp_Range) bool { chunks = append(chunks, x); return true })
				merged, merr := tlog.MergeChunks(chunks)
				if merr != nil {
					return vt.Failf(prop+"/read-error", i, "iterator: %v", merr)
				}
				at2 := cl.Applied[op.Client] // a linearizable read has brought the replica up to date meanwhile
				if r.Linearizable {
					at2 = commit
				}
				want2 := states[at2].Read(&regattapb.RequestOp_Range{Key: r.Key, RangeEnd: r.RangeEnd, Limit: r.Limit, KeysOnly: r.KeysOnly, CountOnly: r.CountOnly})
				if cerr := model.CheckRangeResponse(want2, merged, false); cerr != nil {
					if r.Linearizable {
						return vt.Failf(prop+"/linearizable-read-stale", i, "linearizable STREAMED range via replica %d (commit %d) does not reflect all acknowledged writes: %v", op.Client, commit, cerr)
					}
					return vt.Failf(prop+"/serializable-read-not-a-prefix", i, "serializable streamed range via replica %d (applied %d): %v", op.Client, at2, cerr)
				}
			}
			if commit > applied {
				laggingRead = true
			}
		case "catchup":
			if _, err := cl.CatchUp(op.Client, cl.Applied[op.Client]+uint64(op.N)); err != nil {
				return vt.Failf(prop+"/apply-error", i, "%v", err)
			}
		}
	}
	if laggingRead {
		o.Label("read-via-lagging-replica")
	}
	if emptyTxn {
		o.Label("txn-with-empty-executed-branch")
	}
	if busyReads > 0 {
		o.Label("consensus-read-fails-transiently")
	}
	o.NonTrivial = laggingRead || emptyTxn
	o.Describe = func() string { return describe(c) }
	return nil
}

func checkRev(step int, what string, h *regattapb.ResponseHeader, idx uint64, last *uint64) *vt.Failure {
	if h == nil || h.Revision == 0 {
		return vt.Failf(prop+"/revision-zero", step, "acknowledged %s reports revision 0 (its log position is %d)", what, idx)
	}
	if h.Revision != idx {
		return vt.Failf(prop+"/revision-not-log-position", step, "acknowledged %s reports revision %d, its log position is %d", what, h.Revision, idx)
	}
	if h.Revision <= *last {
		return vt.Failf(prop+"/revision-not-increasing", step, "revision %d after %d", h.Revision, *last)
	}
	*last = h.Revision
	return nil
}

func describe(c Case) string {
	s := fmt.Sprintf("%d replicas, batch pattern %v\n", c.Replicas, c.Batch)
	for i, op := range c.Ops {
		s += fmt.Sprintf("#%d client@replica%d %s", i, op.Client, op.Kind)
		switch op.Kind {
		case "put":
			r := &regattapb.PutRequest{}
			_ = r.UnmarshalVT(op.Req)
			s += fmt.Sprintf(" %q=%q prev=%v", r.Key, clip(r.Value), r.PrevKv)
		case "del":
			r := &regattapb.DeleteRangeRequest{}
			_ = r.UnmarshalVT(op.Req)
			s += fmt.Sprintf(" %q..%q", r.Key, r.RangeEnd)
		case "txn", "rotxn":
			r := &regattapb.TxnRequest{}
			_ = r.UnmarshalVT(op.Req)
			s += " " + tlog.DescCmd(&regattapb.Command{Type: regattapb.Command_TXN, Txn: &regattapb.Txn{Compare: r.Compare, Success: r.Success, Failure: r.Failure}})
		case "range":
			r := &regattapb.RangeRequest{}
			_ = r.UnmarshalVT(op.Req)
			s += fmt.Sprintf(" %q..%q linearizable=%v", r.Key, r.RangeEnd, r.Linearizable)
		case "catchup":
			s += fmt.Sprintf(" +%d", op.N)
		}
		s += "\n"
	}
	return s
}

func clip(b []byte) []byte {
	if len(b) > 16 {
		return b[:16]
	}
	return b
}

func TestC10(t *testing.T)        { vt.Check(t, prop, genCase, run) }
func TestC10Replay(t *testing.T)  { vt.Replay(t, prop, run) }
func TestC10Regress(t *testing.T) { vt.Regress(t, prop, "testdata", run) }

// ---- domain B: real engine, real concurrency ---------------------------------------------------------

type ConcCase struct {
	Clients int     `json:"clients"`
	Ops     [][]int `json:"ops"` // per client: operation kinds (0 put 1 delete-range 2 txn(increment) 3 txn(empty branch) 4 linearizable read 5 serializable read 6 read-only txn)
	// Cluster test only - one replica of the table is HELD BACK: every apply call of that node's table state machine takes StallUs
	// microseconds longer (the hook sleeps on that node's apply path), so the node applies acknowledged writes late while it keeps
	// taking part in consensus.  Stall: 0 nobody, 1-3 that node, 4 the node that leads the table's raft group.
	Stall   int `json:"stall,omitempty"`
	StallUs int `json:"stall_us,omitempty"`
	// API: the clients talk to their node's KV API handlers (one regattaserver.KVServer per node, shared by the node's clients, as the gRPC
	// server shares it between connections) instead of calling the engine directly (seeded change C10-K: identical linearizable reads that
	// are in flight together share one read - the later one may have started after a write the shared read does not reflect)
	API bool `json:"api,omitempty"`
}

// kvAPI: what the clients of the concurrent histories call - the engine itself or the API handler in front of it
type kvAPI interface {
	Put(context.Context, *regattapb.PutRequest) (*regattapb.PutResponse, error)
	DeleteRange(context.Context, *regattapb.DeleteRangeRequest) (*regattapb.DeleteRangeResponse, error)
	Txn(context.Context, *regattapb.TxnRequest) (*regattapb.TxnResponse, error)
	Range(context.Context, *regattapb.RangeRequest) (*regattapb.RangeResponse, error)
}

type engineAPI struct{ e regattaserver.KVService }

func (a engineAPI) Put(ctx context.Context, r *regattapb.PutRequest) (*regattapb.PutResponse, error) {
	return a.e.Put(ctx, r)
}
func (a engineAPI) DeleteRange(ctx context.Context, r *regattapb.DeleteRangeRequest) (*regattapb.DeleteRangeResponse, error) {
	return a.e.Delete(ctx, r)
}
func (a engineAPI) Txn(ctx context.Context, r *regattapb.TxnRequest) (*regattapb.TxnResponse, error) {
	return a.e.Txn(ctx, r)
}
func (a engineAPI) Range(ctx context.Context, r *regattapb.RangeRequest) (*regattapb.RangeResponse, error) {
	return a.e.Range(ctx, r)
}

func genConc(t *rapid.T) ConcCase {
	c := ConcCase{Clients: rapid.IntRange(2, 6).Draw(t, "clients")}
	for i := 0; i < c.Clients; i++ {
		c.Ops = append(c.Ops, rapid.SliceOfN(rapid.IntRange(0, 6), 3, 15).Draw(t, "ops"))
	}
	c.API = rapid.Bool().Draw(t, "api")
	return c
}

func genConcCluster(t *rapid.T) ConcCase {
	c := genConc(t)
	if rapid.Bool().Draw(t, "stalled") {
		c.Stall = rapid.SampledFrom([]int{1, 2, 3, 4, 4, 4}).Draw(t, "stall")
		c.StallUs = rapid.SampledFrom([]int{500, 2000, 6000}).Draw(t, "stallus")
	}
	return c
}

type stallSpec struct {
	table string
	node  int
	d     time.Duration
	hits  atomic.Int64
}

var clStall atomic.Pointer[stallSpec]

var (
	engOnce sync.Once
	eng     *enginefx.Fixture
	engErr  error
	concNo  atomic.Int64
)

type event struct {
	client     int
	kind       int
	start, end int64 // logical stamps
	rev        uint64
	key        []byte
	val        []byte      // put / txn written value
	seen       [][2]string // reads: observed pairs
	succeeded  bool
}

func runConc(c ConcCase, o *vt.Obs) *vt.Failure {
	engOnce.Do(func() { eng, engErr = enginefx.Start(enginefx.Opts{MaxInMemLogSize: 6 * 1024 * 1024}) })
	if engErr != nil {
		vt.Inconclusive("C10 engine fixture: " + engErr.Error())
		return nil
	}
	return runConcOn(c, o, []*enginefx.Fixture{eng})
}

var (
	clOnce sync.Once
	clFx   []*enginefx.Fixture
	clErr  error
)

// runCluster: the same concurrent histories on a REAL 3-node cluster (real raft replication between three engines in one process):
// client i talks to node i mod 3, so writes acknowledged by one node are read - linearizably or not - through replicas that apply them
// a little later.
func runCluster(c ConcCase, o *vt.Obs) *vt.Failure {
	clOnce.Do(func() {
		clFx, clErr = enginefx.StartCluster(3, enginefx.Opts{MaxInMemLogSize: 6 * 1024 * 1024, AppliedNode: func(node int, table string, rev uint64) {
			if sp := clStall.Load(); sp != nil && sp.node == node && sp.table == table {
				sp.hits.Add(1)
				time.Sleep(sp.d)
			}
		}})
	})
	if clErr != nil {
		vt.Inconclusive("C10 cluster fixture: " + clErr.Error())
		return nil
	}
	defer clStall.Store(nil)
	return runConcOn(c, o, clFx)
}

func runConcOn(c ConcCase, o *vt.Obs, nodes []*enginefx.Fixture) *vt.Failure {
	name := fmt.Sprintf("t%d", concNo.Add(1))
	if _, err := enginefx.ClusterCreateTable(nodes, name, 60*time.Second); err != nil {
		vt.Inconclusive("C10 create table: " + err.Error())
		return nil
	}
	defer enginefx.ClusterDropTable(nodes, name)
	var stall *stallSpec
	if c.Stall > 0 && len(nodes) > 1 {
		node := c.Stall - 1
		if c.Stall == 4 {
			node = -1
			if tb, err := nodes[0].E.GetTable(name); err == nil {
				if id, _, ok, err := nodes[0].E.NodeHost.GetLeaderID(tb.ClusterID); err == nil && ok && id >= 1 && int(id) <= len(nodes) {
					node = int(id) - 1
				}
			}
		}
		if node >= 0 && node < len(nodes) {
			stall = &stallSpec{table: name, node: node, d: time.Duration(c.StallUs) * time.Microsecond}
			clStall.Store(stall)
			if c.Stall == 4 {
				o.Label("cluster-leader-replica-held-back")
			} else {
				o.Label("cluster-one-replica-held-back")
			}
		}
	}
	var clock atomic.Int64
	var mu sync.Mutex
	var events []event
	var firstErr error
	var wg sync.WaitGroup
	keys := [][]byte{[]byte("k0"), []byte("k1"), []byte("k2")}
	apis := make([]kvAPI, len(nodes))
	for i, n := range nodes {
		if c.API {
			apis[i] = &regattaserver.KVServer{Storage: n.E}
		} else {
			apis[i] = engineAPI{n.E}
		}
	}
	if c.API {
		o.Label("clients-call-the-kv-api-handlers")
	}
	for ci := 0; ci < c.Clients; ci++ {
		wg.Add(1)
		go func(ci int) {
			defer wg.Done()
			eng := apis[ci%len(nodes)]
			for oi, kind := range c.Ops[ci] {
				ctx, cancel := context.WithTimeout(context.Background(), 20*time.Second)
				ev := event{client: ci, kind: kind, key: keys[(ci+oi)%len(keys)]}
				ev.val = []byte(fmt.Sprintf("c%d-o%d", ci, oi))
				ev.start = clock.Add(1)
				var err error
				switch kind {
				case 0:
					var r *regattapb.PutResponse
					r, err = eng.Put(ctx, &regattapb.PutRequest{Table: []byte(name), Key: ev.key, Value: ev.val})
					if err == nil {
						ev.rev = r.Header.Revision
					}
				case 1:
					var r *regattapb.DeleteRangeResponse
					r, err = eng.DeleteRange(ctx, &regattapb.DeleteRangeRequest{Table: []byte(name), Key: ev.key})
					if err == nil {
						ev.rev = r.Header.Revision
					}
				case 2, 3:
					req := &regattapb.TxnRequest{Table: []byte(name),
						Compare: []*regattapb.Compare{{Key: ev.key, Result: regattapb.Compare_NOT_EQUAL, TargetUnion: &regattapb.Compare_Value{Value: []byte("never")}}}}
					put := []*regattapb.RequestOp{{Request: &regattapb.RequestOp_RequestPut{RequestPut: &regattapb.RequestOp_Put{Key: ev.key, Value: ev.val}}}}
					if kind == 2 {
						req.Success, req.Failure = put, put
					} else {
						req.Success = nil // executed branch is empty whenever the key exists
						req.Failure = put
					}
					var r *regattapb.TxnResponse
					r, err = eng.Txn(ctx, req)
					if err == nil {
						ev.rev = r.Header.Revision
						ev.succeeded = r.Succeeded
					}
				case 4, 5:
					var r *regattapb.RangeResponse
					r, err = eng.Range(ctx, &regattapb.RangeRequest{Table: []byte(name), Key: []byte("k"), RangeEnd: []byte("l"), Linearizable: kind == 4})
					if err == nil {
						for _, kv := range r.Kvs {
							ev.seen = append(ev.seen, [2]string{string(kv.Key), string(kv.Value)})
						}
					}
				case 6:
					var r *regattapb.TxnResponse
					r, err = eng.Txn(ctx, &regattapb.TxnRequest{Table: []byte(name), Success: []*regattapb.RequestOp{{Request: &regattapb.RequestOp_RequestRange{RequestRange: &regattapb.RequestOp_Range{Key: []byte("k"), RangeEnd: []byte("l")}}}}})
					if err == nil {
						for _, kv := range r.Responses[0].GetResponseRange().Kvs {
							ev.seen = append(ev.seen, [2]string{string(kv.Key), string(kv.Value)})
						}
					}
				}
				ev.end = clock.Add(1)
				cancel()
				mu.Lock()
				if err != nil && firstErr == nil {
					firstErr = fmt.Errorf("client %d op %d kind %d: %w", ci, oi, kind, err)
				}
				events = append(events, ev)
				mu.Unlock()
				if err != nil {
					return
				}
			}
		}(ci)
	}
	wg.Wait()
	if firstErr != nil {
		return vt.Failf(prop+"/engine-error", 0, "%v", firstErr)
	}
	// mutations: unique non-zero revisions, consistent with real time (a finished before b started => rev(a) < rev(b))
	var muts []event
	for _, e := range events {
		if e.kind <= 3 {
			if e.rev == 0 {
				return vt.Failf(prop+"/revision-zero", 0, "acknowledged mutation (client %d kind %d key %q) reports revision 0", e.client, e.kind, e.key)
			}
			muts = append(muts, e)
		}
	}
	sort.Slice(muts, func(i, j int) bool { return muts[i].rev < muts[j].rev })
	for i := 1; i < len(muts); i++ {
		if muts[i].rev == muts[i-1].rev {
			return vt.Failf(prop+"/revision-not-unique", 0, "two acknowledged mutations report revision %d", muts[i].rev)
		}
	}
	for _, a := range muts {
		for _, b := range muts {
			if a.end < b.start && a.rev > b.rev {
				return vt.Failf(prop+"/revision-order-vs-real-time", 0, "mutation with revision %d finished before the mutation with revision %d started", a.rev, b.rev)
			}
		}
	}
	// replay in revision order; states[j] = after j mutations
	state := map[string]string{}
	snap := func() map[string]string {
		cp := map[string]string{}
		for k, v := range state {
			cp[k] = v
		}
		return cp
	}
	states := []map[string]string{snap()}
	for _, e := range muts {
		switch e.kind {
		case 0, 2:
			state[string(e.key)] = string(e.val)
		case 1:
			delete(state, string(e.key))
		case 3:
			// success branch (empty) is taken iff the key exists (its value is never "never")
			_, exists := state[string(e.key)]
			if e.succeeded != exists {
				return vt.Failf(prop+"/response-not-explained-by-revision-order", 0, "txn with revision %d: succeeded=%v but replaying writes in revision order the key %q exists=%v", e.rev, e.succeeded, e.key, exists)
			}
			if !exists {
				state[string(e.key)] = string(e.val)
			}
		}
		states = append(states, snap())
	}
	match := func(seen [][2]string, st map[string]string) bool {
		if len(seen) != len(st) {
			return false
		}
		for _, p := range seen {
			if v, ok := st[p[0]]; !ok || v != p[1] {
				return false
			}
		}
		return true
	}
	overlap := 0
	for _, e := range events {
		if e.kind < 4 {
			continue
		}
		// lower bound for linearizable reads / read-only txns: every mutation acknowledged before the read started
		lo := 0
		if e.kind != 5 {
			for j, mu := range muts {
				if mu.end < e.start {
					lo = j + 1
				}
			}
		}
		// upper bound: mutations that started before the read ended
		hi := 0
		for j, mu := range muts {
			if mu.start < e.end {
				hi = j + 1
			}
		}
		if hi > lo {
			overlap++
		}
		ok := false
		for j := lo; j <= hi && j < len(states); j++ {
			if match(e.seen, states[j]) {
				ok = true
				break
			}
		}
		if !ok {
			kind := map[int]string{4: "linearizable read", 5: "serializable read", 6: "read-only txn"}[e.kind]
			sig := "/linearizable-read-stale"
			if e.kind == 5 {
				sig = "/serializable-read-not-a-prefix"
			}
			return vt.Failf(prop+sig, 0, "%s by client %d observed %v, which is not the state after any prefix [%d..%d] of the writes in revision order", kind, e.client, e.seen, lo, hi)
		}
	}
	if len(nodes) > 1 {
		o.Label("real-multi-node-cluster")
	}
	o.LabelN("reads-overlapping-writes", overlap)
	o.NonTrivial = overlap > 0
	o.Describe = func() string { return fmt.Sprintf("%+v", c) }
	return nil
}

func TestC10Conc(t *testing.T)        { vt.Check(t, prop, genConc, runConc) }
func TestC10ConcReplay(t *testing.T)  { vt.Replay(t, prop, runConc) }
func TestC10ConcRegress(t *testing.T) { vt.Regress(t, prop, "testdata", runConc) }

func TestC10Cluster(t *testing.T)        { vt.Check(t, prop, genConcCluster, runCluster) }
func TestC10ClusterReplay(t *testing.T)  { vt.Replay(t, prop, runCluster) }
func TestC10ClusterRegress(t *testing.T) { vt.Regress(t, prop, "testdata", runCluster) }

var _ = bytes.Equal
