// C03 — replicas converge: state depends only on the log, not on how it is batched.
package c03

import (
	"bytes"
	"fmt"
	"testing"

	"github.com/jamf/regatta/storage/table/fsm"
	sm "github.com/lni/dragonboat/v4/statemachine"
	"pgregory.net/rapid"

	"verifharness/internal/fsmx"
	"verifharness/internal/gen"
	"verifharness/internal/model"
	"verifharness/internal/tlog"
	"verifharness/internal/vt"
)

const prop = "C03"

// Cut = one Update call of N consecutive entries, followed by an optional event.
type Cut struct {
	N        int    `json:"n"`
	Event    string `json:"event,omitempty"` // "" | reopen | sync | snap (save a snapshot, recover it into a fresh replica which takes over)
	RecvType int    `json:"recv_type,omitempty"`
	// Late: the snapshot is prepared after this cut but saved only after the saver has applied the NEXT cut as well;
	// the receiver recovers (at the prepare index) and re-applies that cut itself.
	Late bool `json:"late,omitempty"`
}

type Partition struct {
	Type int   `json:"type"` // snapshot format of the first replica
	Cuts []Cut `json:"cuts"`
}

type Case struct {
	Cmds [][]byte  `json:"cmds"`
	A    Partition `json:"a"`
	B    Partition `json:"b"`
}

func genPartition(t *rapid.T, n int, label string) Partition {
	p := Partition{Type: rapid.IntRange(0, 1).Draw(t, label+".type")}
	left := n
	for left > 0 {
		k := rapid.IntRange(1, min(left, 7)).Draw(t, label+".n")
		c := Cut{N: k}
		switch rapid.IntRange(0, 9).Draw(t, label+".event") {
		case 0:
			c.Event = "reopen"
		case 1:
			c.Event = "sync"
		case 2, 3:
			c.Event = "snap"
			c.RecvType = rapid.IntRange(0, 1).Draw(t, label+".recv")
			c.Late = rapid.Bool().Draw(t, label+".late")
		}
		p.Cuts = append(p.Cuts, c)
		left -= k
	}
	return p
}

func genCase(t *rapid.T) Case {
	pool := gen.NewPool(t, 2, 7, 1024)
	maxN := 40
	if vt.Thorough() {
		maxN = 90
	}
	n := rapid.IntRange(2, maxN).Draw(t, "log.n")
	c := Case{}
	for i := 0; i < n; i++ {
		cmd := pool.Command(t, "cmd", gen.CmdOpts{LeaderIndex: true})
		b, _ := cmd.MarshalVT()
		c.Cmds = append(c.Cmds, b)
	}
	c.A = genPartition(t, n, "A")
	c.B = genPartition(t, n, "B")
	return c
}

type outcome struct {
	results []sm.Result
	content []model.Pair
	local   uint64
	leader  uint64
	hash    uint64
	snaps   int
	late    int
	mixed   bool // some batch held an entry with a leader index next to one without
}

func runPartition(c Case, p Partition, name string, m *model.Map) (*outcome, *vt.Failure) {
	out := &outcome{}
	r := fsmx.Create(fsmx.NewFS(), fsm.SnapshotRecoveryType(p.Type), 1)
	if _, err := r.Open(); err != nil {
		return nil, vt.Failf(prop+"/open-error", 0, "%s: %v", name, err)
	}
	defer func() { _ = r.Close() }()
	next := 0
	for ci, cut := range p.Cuts {
		cmds := c.Cmds[next : next+cut.N]
		var has, hasNot bool
		for _, b := range cmds {
			cmd, _ := tlog.DecodeCmd(b)
			if cmd.LeaderIndex != nil {
				has = true
			} else {
				hasNot = true
			}
		}
		if has && hasNot {
			out.mixed = true
		}
		res, err := r.Apply(fsmx.MkEntries(uint64(next+1), cmds))
		if err != nil {
			return nil, vt.Failf(prop+"/apply-error", ci, "%s: Update: %v", name, err)
		}
		for i := range res {
			out.results = append(out.results, res[i].Result)
			if m != nil { // the first partition is also compared with the model, entry by entry
				cmd, _ := tlog.DecodeCmd(cmds[i])
				idx := uint64(next + 1 + i)
				want := m.Apply(cmd, idx)
				if cerr := tlog.CheckEntryResult(want, idx, res[i].Result); cerr != nil {
					return nil, vt.Failf(prop+"/result-vs-model:"+cmd.Type.String(), ci, "%s: entry %d: %v", name, idx, cerr)
				}
			}
		}
		next += cut.N
		switch cut.Event {
		case "reopen":
			idx, err := r.Reopen()
			if err != nil {
				return nil, vt.Failf(prop+"/reopen-error", ci, "%s: %v", name, err)
			}
			if idx != uint64(next) {
				return nil, vt.Failf(prop+"/reopen-index", ci, "%s: Open returned %d after %d applied entries", name, idx, next)
			}
		case "sync":
			if err := r.SM.Sync(); err != nil {
				return nil, vt.Failf(prop+"/sync-error", ci, "%s: %v", name, err)
			}
		case "snap":
			ctx, err := r.Prepare()
			if err != nil {
				return nil, vt.Failf(prop+"/snapshot-error", ci, "%s: prepare: %v", name, err)
			}
			if cut.Late && ci+1 < len(p.Cuts) {
				// the saver keeps applying while the snapshot is pending; none of this may leak into the snapshot
				nc := p.Cuts[ci+1]
				if _, err := r.Apply(fsmx.MkEntries(uint64(next+1), c.Cmds[next:next+nc.N])); err != nil {
					return nil, vt.Failf(prop+"/apply-error", ci, "%s: Update between prepare and save: %v", name, err)
				}
				out.late++
				if cut.RecvType == 1 { // half of the late snapshots also see a flush before they are saved (dragonboat: prepare, Sync, save)
					if err := r.SM.Sync(); err != nil {
						return nil, vt.Failf(prop+"/sync-error", ci, "%s: %v", name, err)
					}
				}
			}
			data, err := r.Save(ctx, nil)
			if err != nil {
				return nil, vt.Failf(prop+"/snapshot-error", ci, "%s: save: %v", name, err)
			}
			nr := fsmx.Create(fsmx.NewFS(), fsm.SnapshotRecoveryType(cut.RecvType), 2)
			if _, err := nr.Open(); err != nil {
				return nil, vt.Failf(prop+"/open-error", ci, "%s: receiver open: %v", name, err)
			}
			if err := nr.Recover(data, nil); err != nil {
				_ = nr.Close()
				return nil, vt.Failf(prop+"/snapshot-error", ci, "%s: recover: %v", name, err)
			}
			_ = r.Close()
			r = nr
			out.snaps++
			if li, err := r.LocalIndex(); err != nil || li != uint64(next) {
				return nil, vt.Failf(prop+"/snapshot-not-at-prepare-index", ci, "%s: replica recovered from a snapshot prepared at index %d reports applied index %d (%v)", name, next, li, err)
			}
		}
	}
	all, err := r.All()
	if err != nil {
		return nil, vt.Failf(prop+"/scan-error", len(p.Cuts), "%s: %v", name, err)
	}
	for _, kv := range all {
		out.content = append(out.content, model.Pair{K: kv.Key, V: kv.Value})
	}
	if out.local, err = r.LocalIndex(); err != nil {
		return nil, vt.Failf(prop+"/index-lookup-error", len(p.Cuts), "%s: %v", name, err)
	}
	if out.leader, err = r.LeaderIndex(); err != nil {
		return nil, vt.Failf(prop+"/index-lookup-error", len(p.Cuts), "%s: %v", name, err)
	}
	if out.hash, err = r.SM.GetHash(); err != nil {
		return nil, vt.Failf(prop+"/hash-error", len(p.Cuts), "%s: %v", name, err)
	}
	return out, nil
}

func samePairs(a, b []model.Pair) error {
	if len(a) != len(b) {
		return fmt.Errorf("%d pairs vs %d pairs", len(a), len(b))
	}
	for i := range a {
		if !bytes.Equal(a[i].K, b[i].K) || !bytes.Equal(a[i].V, b[i].V) {
			return fmt.Errorf("pair %d: %q=%q vs %q=%q", i, a[i].K, a[i].V, b[i].K, b[i].V)
		}
	}
	return nil
}

func run(c Case, o *vt.Obs) *vt.Failure {
	m := model.New()
	a, f := runPartition(c, c.A, "replica A", m)
	if f != nil {
		return f
	}
	b, f := runPartition(c, c.B, "replica B", nil)
	if f != nil {
		return f
	}
	// differential: A vs B
	for i := range a.results {
		if a.results[i].Value != b.results[i].Value || !bytes.Equal(a.results[i].Data, b.results[i].Data) {
			return vt.Failf(prop+"/result-differs", i, "entry %d: replica A result (%d,%x) replica B result (%d,%x)", i+1, a.results[i].Value, a.results[i].Data, b.results[i].Value, b.results[i].Data)
		}
	}
	if err := samePairs(a.content, b.content); err != nil {
		return vt.Failf(prop+"/content-differs", len(c.Cmds), "replica A vs B: %v", err)
	}
	if a.local != b.local {
		return vt.Failf(prop+"/local-index", len(c.Cmds), "applied index: A=%d B=%d", a.local, b.local)
	}
	if a.leader != b.leader {
		return vt.Failf(prop+"/leader-index", len(c.Cmds), "leader index: A=%d B=%d (model %d)", a.leader, b.leader, m.LeaderIndex)
	}
	if a.hash != b.hash {
		return vt.Failf(prop+"/hash-differs", len(c.Cmds), "store hash: A=%x B=%x although visible content and indices agree", a.hash, b.hash)
	}
	// vs model
	if err := samePairs(a.content, m.Pairs); err != nil {
		return vt.Failf(prop+"/content-vs-model", len(c.Cmds), "replica vs model: %v", err)
	}
	if a.local != m.Index {
		return vt.Failf(prop+"/local-index", len(c.Cmds), "applied index %d, model %d", a.local, m.Index)
	}
	if a.leader != m.LeaderIndex {
		return vt.Failf(prop+"/leader-index", len(c.Cmds), "leader index %d, model %d (= leader_index of the last entry that carried one)", a.leader, m.LeaderIndex)
	}
	differ := len(c.A.Cuts) != len(c.B.Cuts)
	if !differ {
		for i := range c.A.Cuts {
			if c.A.Cuts[i].N != c.B.Cuts[i].N {
				differ = true
			}
		}
	}
	if differ {
		o.Label("partitions-differ")
	}
	if a.mixed || b.mixed {
		o.Label("batch-mixes-leader-index-presence")
	}
	if a.snaps+b.snaps > 0 {
		o.Label("snapshot-transfer")
	}
	if a.late+b.late > 0 {
		o.Label("writes-between-prepare-and-save")
	}
	if c.A.Type != c.B.Type {
		o.Label("replicas-use-different-snapshot-formats")
	}
	o.NonTrivial = differ && (a.mixed || b.mixed) && a.snaps+b.snaps > 0
	o.Describe = func() string {
		var steps []tlog.Step
		steps = append(steps, tlog.Step{Op: "apply", Cmds: c.Cmds})
		return fmt.Sprintf("log of %d entries; partition A %+v; partition B %+v\n%s", len(c.Cmds), c.A, c.B, tlog.Describe(steps))
	}
	return nil
}

func TestC03(t *testing.T)        { vt.Check(t, prop, genCase, run) }
func TestC03Replay(t *testing.T)  { vt.Replay(t, prop, run) }
func TestC03Regress(t *testing.T) { vt.Regress(t, prop, "testdata", run) }
