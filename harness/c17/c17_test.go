// C17 — protected endpoints reject callers lacking the right token or certificate.
package c17

import (
	"context"
	"fmt"
	"io"
	"os"
	"sort"
	"strings"
	"sync"
	"testing"
	"time"

	"github.com/jamf/regatta/regattapb"
	"google.golang.org/grpc/codes"
	"google.golang.org/grpc/metadata"
	"google.golang.org/grpc/status"
	"pgregory.net/rapid"

	"verifharness/internal/binfx"
	"verifharness/internal/vt"
)

const prop = "C17"

// long tokens: comparisons that look only at a bounded prefix / a hash of a prefix must not pass
const (
	tablesToken = "Tbl-s3cret.token-0123456789abcdefghijklmnopqrstuvwxyzABCDEFGHIJKLMNOPQRSTUVWXYZ-0123456789abcdefghijklmnopqrstuvwxyz.END"
	maintToken  = "Mnt-s3cret.token-zyxwvutsrqponmlkjihgfedcba9876543210-ZYXWVUTSRQPONMLKJIHGFEDCBA.END"
)

// ---- domain A: bearer tokens against the real wiring ---------------------------------------------------

type Call struct {
	Proc   int    `json:"proc"`   // index into the process configurations
	Method string `json:"method"` // TablesCreate | TablesDelete | TablesList | Backup | Restore | Reset | KVRange | ClusterStatus
	// Header: the literal value of the authorization metadata entry ("" with NoHeader = no entry at all)
	Header   string `json:"header"`
	NoHeader bool   `json:"no_header"`
	Variant  string `json:"variant"` // how Header was derived (for classification)
}

type Case struct {
	Calls []Call `json:"calls"`
}

type procCfg struct {
	role          string
	tables, maint string // configured tokens ("" = none)
}

// tokens made of the characters configuration layers like to interpret (environment references, printf verbs, templates, escapes,
// quotes): a token is an opaque string, the one configured is the one that opens the door (seeded change C17-J runs the configured
// token through os.ExpandEnv: "$ecret..." is then no token at all, "Xy$7kQ" becomes another one)
const (
	tablesTokenMeta = `Tbl$7kQ-%41%s-${HOME}-$USER-{{.Tok}}-\n-~!#&*()[]<>?.END`
	maintTokenMeta  = `$ecretMnt%20-$$-${X:-y}-` + "`id`" + `-'q'-"d".END`
)

var procCfgs = []procCfg{
	{"leader", tablesToken, ""},
	{"leader", "", maintToken},
	{"leader", tablesTokenMeta, maintTokenMeta},
	{"leader", "", ""},
	{"follower", tablesToken, maintToken},
	{"follower", "", ""},
}

func flipCase(s string) string {
	for i, r := range s {
		if r >= 'a' && r <= 'z' {
			return s[:i] + strings.ToUpper(string(r)) + s[i+1:]
		}
		if r >= 'A' && r <= 'Z' {
			return s[:i] + strings.ToLower(string(r)) + s[i+1:]
		}
	}
	return s
}

func genCall(t *rapid.T) Call {
	c := Call{Proc: rapid.IntRange(0, len(procCfgs)-1).Draw(t, "proc")}
	c.Method = rapid.SampledFrom([]string{"TablesCreate", "TablesDelete", "TablesList", "Backup", "Restore", "Reset", "KVRange", "ClusterStatus"}).Draw(t, "method")
	// the token the method's service is configured with (or the other one, to build near misses even for unprotected services)
	right := tablesToken
	if c.Method == "Backup" || c.Method == "Restore" || c.Method == "Reset" {
		right = maintToken
	}
	scheme := rapid.SampledFrom([]string{"Bearer", "bearer", "BEARER", "bEaReR"}).Draw(t, "scheme")
	c.Variant = rapid.SampledFrom([]string{"right", "right", "right", "none", "empty-token", "prefix", "suffix", "extended", "case-flip", "leading-space", "trailing-space", "other-services-token", "wrong-scheme", "no-space", "random", "last-char", "long-prefix", "middle-char"}).Draw(t, "variant")
	switch c.Variant {
	case "right":
		c.Header = scheme + " " + right
	case "none":
		c.NoHeader = true
	case "empty-token":
		c.Header = scheme + " "
	case "prefix":
		c.Header = scheme + " " + right[:rapid.IntRange(1, len(right)-1).Draw(t, "cut")]
	case "suffix":
		c.Header = scheme + " " + right[rapid.IntRange(1, len(right)-1).Draw(t, "cut"):]
	case "extended":
		c.Header = scheme + " " + right + rapid.SampledFrom([]string{"x", " ", "0", "."}).Draw(t, "ext")
	case "case-flip":
		c.Header = scheme + " " + flipCase(right)
	case "last-char":
		c.Header = scheme + " " + right[:len(right)-1] + "X"
	case "long-prefix":
		c.Header = scheme + " " + right[:len(right)-rapid.IntRange(1, 12).Draw(t, "drop")]
	case "middle-char":
		i := rapid.IntRange(1, len(right)-2).Draw(t, "pos")
		c.Header = scheme + " " + right[:i] + "#" + right[i+1:]
	case "leading-space":
		c.Header = scheme + "  " + right
	case "trailing-space":
		c.Header = scheme + " " + right + " "
	case "other-services-token":
		other := maintToken
		if right == maintToken {
			other = tablesToken
		}
		c.Header = scheme + " " + other
	case "wrong-scheme":
		c.Header = rapid.SampledFrom([]string{"Basic", "Token", "Bearer2", "Bear"}).Draw(t, "ws") + " " + right
	case "no-space":
		c.Header = scheme + right
	default:
		c.Header = scheme + " " + rapid.StringMatching(`[A-Za-z0-9.-]{1,20}`).Draw(t, "rnd")
	}
	return c
}

func genCase(t *rapid.T) Case {
	n := rapid.IntRange(3, 20).Draw(t, "n")
	c := Case{}
	for i := 0; i < n; i++ {
		c.Calls = append(c.Calls, genCall(t))
	}
	return c
}

var (
	fxOnce    sync.Once
	procs     []*binfx.Proc
	fxErr     error
	fxRefused string // the fixture's own first call with the configured token was refused as Unauthenticated
)

func fixture() error {
	fxOnce.Do(func() {
		procs = make([]*binfx.Proc, len(procCfgs))
		var wg sync.WaitGroup
		var mu sync.Mutex
		// leaders first (in parallel), then the followers (each replicating from the leader with the same token configuration)
		start := func(i int, leaderRepl string) {
			defer wg.Done()
			p, err := binfx.Start(binfx.Opts{Role: procCfgs[i].role, TablesToken: procCfgs[i].tables, MaintenanceToken: procCfgs[i].maint, LeaderRepl: leaderRepl})
			mu.Lock()
			defer mu.Unlock()
			if err != nil && fxErr == nil {
				fxErr = err
			}
			procs[i] = p
		}
		for i, c := range procCfgs {
			if c.role == "leader" {
				wg.Add(1)
				go start(i, "")
			}
		}
		wg.Wait()
		if fxErr != nil {
			return
		}
		// every leader gets a table "base" (created with the right token)
		for i, c := range procCfgs {
			if c.role != "leader" {
				continue
			}
			ctx := metadata.AppendToOutgoingContext(context.Background(), "authorization", "Bearer "+c.tables)
			ctx, cancel := context.WithTimeout(ctx, 10*time.Second)
			_, err := regattapb.NewTablesClient(procs[i].Conn).Create(ctx, &regattapb.CreateTableRequest{Name: "base"})
			cancel()
			if status.Code(err) == codes.Unauthenticated {
				// the very first call of the fixture already is a judged one: the configured token, presented exactly, must open the door
				fxRefused = fmt.Sprintf("Tables.Create on process %d (leader started with --tables.token=%q) with authorization %q was refused: %v", i, c.tables, "Bearer "+c.tables, err)
				fxErr = fmt.Errorf("%s", fxRefused)
				return
			}
			if err != nil {
				fxErr = fmt.Errorf("create base table on proc %d: %w", i, err)
				return
			}
			if fxErr = procs[i].WaitTable("base", 20*time.Second); fxErr != nil {
				return
			}
		}
		for i, c := range procCfgs {
			if c.role == "follower" {
				wg.Add(1)
				leaderIdx := 2
				if c.tables == "" {
					leaderIdx = 3
				}
				go start(i, procs[leaderIdx].Repl)
			}
		}
		wg.Wait()
		if fxErr != nil {
			return
		}
		for i, c := range procCfgs {
			if c.role == "follower" {
				if fxErr = procs[i].WaitTable("base", 30*time.Second); fxErr != nil {
					return
				}
			}
		}
	})
	return fxErr
}

func TestMain(m *testing.M) {
	code := m.Run()
	for _, p := range append(append([]*binfx.Proc{}, procs...), wirePs...) {
		if p != nil {
			p.Kill()
		}
	}
	os.Exit(code)
}

// expectedAccept: would a service configured with `configured` let this call through?
func expectedAccept(configured string, c Call) bool {
	if configured == "" {
		return true // no token configured: nothing is checked
	}
	if c.NoHeader {
		return false
	}
	scheme, tok, found := strings.Cut(c.Header, " ")
	return found && strings.EqualFold(scheme, "bearer") && tok == configured
}

func tablesOf(p *binfx.Proc, cfg procCfg) ([]string, error) {
	ctx := metadata.AppendToOutgoingContext(context.Background(), "authorization", "Bearer "+cfg.tables)
	ctx, cancel := context.WithTimeout(ctx, 10*time.Second)
	defer cancel()
	r, err := regattapb.NewTablesClient(p.Conn).List(ctx, &regattapb.ListTablesRequest{})
	if err != nil {
		return nil, err
	}
	var out []string
	for _, t := range r.Tables {
		out = append(out, t.Name)
	}
	sort.Strings(out)
	return out, nil
}

func invoke(p *binfx.Proc, c Call, name string) (codes.Code, error) {
	ctx := context.Background()
	if !c.NoHeader {
		ctx = metadata.AppendToOutgoingContext(ctx, "authorization", c.Header)
	}
	ctx, cancel := context.WithTimeout(ctx, 20*time.Second)
	defer cancel()
	switch c.Method {
	case "TablesCreate":
		_, err := regattapb.NewTablesClient(p.Conn).Create(ctx, &regattapb.CreateTableRequest{Name: name})
		return status.Code(err), err
	case "TablesDelete":
		_, err := regattapb.NewTablesClient(p.Conn).Delete(ctx, &regattapb.DeleteTableRequest{Name: name})
		return status.Code(err), err
	case "TablesList":
		_, err := regattapb.NewTablesClient(p.Conn).List(ctx, &regattapb.ListTablesRequest{})
		return status.Code(err), err
	case "Backup":
		st, err := regattapb.NewMaintenanceClient(p.Conn).Backup(ctx, &regattapb.BackupRequest{Table: []byte("base")})
		if err != nil {
			return status.Code(err), err
		}
		for {
			_, err := st.Recv()
			if err == io.EOF {
				return codes.OK, nil
			}
			if err != nil {
				return status.Code(err), err
			}
		}
	case "Restore":
		st, err := regattapb.NewMaintenanceClient(p.Conn).Restore(ctx)
		if err != nil {
			return status.Code(err), err
		}
		// a restore of an empty stream into a scratch table name; with a rejected credential nothing may happen
		_ = st.Send(&regattapb.RestoreMessage{Data: &regattapb.RestoreMessage_Info{Info: &regattapb.RestoreInfo{Table: []byte(name)}}})
		_, err = st.CloseAndRecv()
		return status.Code(err), err
	case "Reset":
		_, err := regattapb.NewMaintenanceClient(p.Conn).Reset(ctx, &regattapb.ResetRequest{Table: []byte("base")})
		return status.Code(err), err
	case "KVRange":
		_, err := regattapb.NewKVClient(p.Conn).Range(ctx, &regattapb.RangeRequest{Table: []byte("base"), Key: []byte("k")})
		return status.Code(err), err
	default:
		_, err := regattapb.NewClusterClient(p.Conn).Status(ctx, &regattapb.StatusRequest{})
		return status.Code(err), err
	}
}

var scratchNo int
var scratchMu sync.Mutex

func run(c Case, o *vt.Obs) *vt.Failure {
	if err := fixture(); err != nil {
		if fxRefused != "" {
			return vt.Failf(prop+"/valid-credential-rejected", 0, "%s", fxRefused)
		}
		vt.Inconclusive("C17 fixture: " + err.Error())
		return nil
	}
	nearMiss := false
	for i, call := range c.Calls {
		p, cfg := procs[call.Proc], procCfgs[call.Proc]
		if p.KilledFromOutside() {
			vt.Inconclusive(fmt.Sprintf("C17 process %d (%s) was killed from outside (SIGKILL)", call.Proc, cfg.role))
			return nil
		}
		if !p.Alive() {
			return vt.Failf(prop+"/process-terminated", i, "process %d (%s) terminated: %s", call.Proc, cfg.role, p.LogTail(2000))
		}
		configured := ""
		switch call.Method {
		case "TablesCreate", "TablesDelete", "TablesList":
			configured = cfg.tables
		case "Backup", "Restore", "Reset":
			configured = cfg.maint
		}
		scratchMu.Lock()
		scratchNo++
		name := fmt.Sprintf("scratch%d", scratchNo)
		scratchMu.Unlock()
		accept := expectedAccept(configured, call)
		var before []string
		var err error
		if !accept {
			if before, err = tablesOf(p, cfg); err != nil {
				vt.Inconclusive("C17 list tables: " + err.Error())
				return nil
			}
		}
		code, cerr := invoke(p, call, name)
		if accept {
			if code == codes.Unauthenticated {
				return vt.Failf(prop+"/valid-credential-rejected", i, "%s on process %d (%s, tables token %q, maintenance token %q) with authorization %q: %v", call.Method, call.Proc, cfg.role, cfg.tables, cfg.maint, call.Header, cerr)
			}
			// clean up what an accepted call may have created
			if call.Method == "TablesCreate" || call.Method == "Restore" {
				ctx := metadata.AppendToOutgoingContext(context.Background(), "authorization", "Bearer "+cfg.tables)
				ctx, cancel := context.WithTimeout(ctx, 10*time.Second)
				_, _ = regattapb.NewTablesClient(p.Conn).Delete(ctx, &regattapb.DeleteTableRequest{Name: name})
				cancel()
			}
			continue
		}
		if call.Variant != "none" && call.Variant != "random" && call.Variant != "wrong-scheme" {
			nearMiss = true
		}
		if code != codes.Unauthenticated {
			return vt.Failf(prop+"/bad-credential-accepted:"+call.Variant, i, "%s on process %d (%s, token %q configured for its service) with authorization %q (no header: %v) was not refused as Unauthenticated: status %s (%v)", call.Method, call.Proc, cfg.role, configured, call.Header, call.NoHeader, code, cerr)
		}
		after, err := tablesOf(p, cfg)
		if err != nil {
			vt.Inconclusive("C17 list tables: " + err.Error())
			return nil
		}
		if fmt.Sprint(before) != fmt.Sprint(after) && cfg.role == "follower" {
			// a follower's table set FOLLOWS its leader's, asynchronously: a table that an earlier accepted call created and removed on the
			// leader appears and disappears on the follower a little later - possibly right across this refused call.  (Seen in a thorough
			// run: reported as "refused call had effect" - a false alarm.)  Judge once the follower has caught up: it must then show
			// exactly the leader's tables, and the refused call's own table name must not be among them.
			leaderIdx := 2
			if cfg.tables == "" {
				leaderIdx = 3
			}
			deadline := time.Now().Add(20 * time.Second)
			for {
				lt, lerr := tablesOf(procs[leaderIdx], procCfgs[leaderIdx])
				ft, ferr := tablesOf(p, cfg)
				if lerr == nil && ferr == nil && fmt.Sprint(lt) == fmt.Sprint(ft) {
					after, before = ft, ft
					for _, n := range ft {
						if n == name {
							return vt.Failf(prop+"/refused-call-had-effect", i, "%s refused as Unauthenticated on the follower, yet table %q exists afterwards", call.Method, name)
						}
					}
					break
				}
				if time.Now().After(deadline) {
					o.Label("follower-table-set-did-not-settle(skipped)")
					after = before
					break
				}
				time.Sleep(50 * time.Millisecond)
			}
		}
		if fmt.Sprint(before) != fmt.Sprint(after) {
			return vt.Failf(prop+"/refused-call-had-effect", i, "%s refused as Unauthenticated changed the table set from %v to %v", call.Method, before, after)
		}
	}
	if nearMiss {
		o.Label("near-miss-credential")
	}
	o.NonTrivial = nearMiss
	o.Describe = func() string { return fmt.Sprintf("%+v", c.Calls) }
	return nil
}

func TestC17(t *testing.T)        { vt.Check(t, prop, genCase, run) }
func TestC17Replay(t *testing.T)  { vt.Replay(t, prop, run) }
func TestC17Regress(t *testing.T) { vt.Regress(t, prop, "testdata", run) }
