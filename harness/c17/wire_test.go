package c17

// TestC17Wire: the certificate half of C17 on the REAL wiring - `regatta leader` processes started with https:// API and replication
// endpoints and the --api.* / --replication.* certificate flags (cmd/common.go createAPIServer, cmd/leader.go createReplicationServer:
// flag -> security.TLSInfo -> ServerConfig -> grpc.Creds).  Every case dials one endpoint with a freshly minted client certificate
// (same generator as TestC17TLS) and performs one RPC; the endpoint must serve it iff the reference predicate accepts the certificate.

import (
	"context"
	"crypto/tls"
	"fmt"
	"strings"
	"sync"
	"testing"
	"time"

	"github.com/jamf/regatta/regattapb"
	"google.golang.org/grpc"
	"google.golang.org/grpc/codes"
	"google.golang.org/grpc/credentials"
	"google.golang.org/grpc/credentials/insecure"
	"google.golang.org/grpc/status"
	"pgregory.net/rapid"

	"verifharness/internal/binfx"
	"verifharness/internal/vt"
)

type wireEndpoint struct {
	proc            int
	repl            bool // replication endpoint (leader) instead of the client API
	allowedCN       string
	allowedHostname string
}

// process configurations: [api name rule, replication name rule]
type wireProc struct {
	apiCN, apiHost   string
	replCN, replHost string
	clientCertAuth   bool
	scheme           string // https (default) | unixs: TLS over a unix domain socket
}

var wireProcs = []wireProc{
	{apiCN: goodCN, replHost: "node7.regatta.internal"},
	{apiHost: "10.1.2.3", replCN: goodCN},
	{clientCertAuth: true}, // trusted CA only on both endpoints
	{apiCN: goodCN, replCN: goodCN, scheme: "unixs"},
}

var wireEndpoints = []wireEndpoint{
	{proc: 0, allowedCN: goodCN},
	{proc: 0, repl: true, allowedHostname: "node7.regatta.internal"},
	{proc: 1, allowedHostname: "10.1.2.3"},
	{proc: 1, repl: true, allowedCN: goodCN},
	{proc: 2},
	{proc: 2, repl: true},
	{proc: 3, allowedCN: goodCN},
	{proc: 3, repl: true, allowedCN: goodCN},
}

type WireCase struct {
	Endpoint int      `json:"endpoint"`
	Cert     CertSpec `json:"cert"`
	// PrevPlus1 > 0: the client (one TLS session cache, one server name - all endpoints share the server certificate) first connects to
	// endpoint PrevPlus1-1 with the same certificate and only then to Endpoint; what an endpoint decided must not carry over to another
	PrevPlus1 int `json:"prev_plus1,omitempty"`
	// Plain: the client does not speak TLS at all (no handshake, hence no certificate): never to be served by a TLS endpoint
	Plain bool `json:"plain,omitempty"`
}

func genWire(t *rapid.T) WireCase {
	c := WireCase{Endpoint: rapid.IntRange(0, len(wireEndpoints)-1).Draw(t, "endpoint")}
	ep := wireEndpoints[c.Endpoint]
	s := CertSpec{
		Issuer:    rapid.SampledFrom([]string{"trusted", "trusted", "trusted", "rogue", "self", "trusted-via-intermediate", "rogue-via-intermediate", "none"}).Draw(t, "issuer"),
		Validity:  rapid.SampledFrom([]string{"valid", "valid", "valid", "valid", "expired", "not-yet-valid"}).Draw(t, "validity"),
		EKU:       rapid.SampledFrom([]string{"client", "client", "client", "both", "server-only", "none"}).Draw(t, "eku"),
		SendChain: rapid.Bool().Draw(t, "chain"),
	}
	s.CN = mutateName(t, goodCN, "cn")
	if ep.allowedHostname != "" {
		switch rapid.IntRange(0, 6).Draw(t, "san") {
		case 0, 1:
			if ep.allowedHostname == "10.1.2.3" {
				s.IPs = []string{ep.allowedHostname}
			} else {
				s.DNS = []string{ep.allowedHostname}
			}
		case 2:
			s.DNS = []string{"*.regatta.internal"}
		case 3:
			s.DNS = []string{mutateName(t, ep.allowedHostname, "sanmut")}
		case 4:
			s.IPs = []string{"10.1.2.4"}
		case 5:
			s.DNS = []string{"other.example.org", ep.allowedHostname}
		default:
			s.CN = ep.allowedHostname
		}
	}
	c.Cert = s
	c.Plain = rapid.IntRange(0, 9).Draw(t, "plain") == 0
	if rapid.IntRange(0, 2).Draw(t, "hasprev") == 0 {
		c.PrevPlus1 = 1 + rapid.IntRange(0, len(wireEndpoints)-1).Draw(t, "prev")
	}
	return c
}

var (
	wireOnce sync.Once
	wirePs   []*binfx.Proc
	wireErr  error
)

// plaintextClient: marker for a client that does not speak TLS.
var plaintextClient = &tls.Certificate{}

func wireCall(p *pki, proc *binfx.Proc, repl bool, cert *tls.Certificate, d time.Duration) error {
	return wireCallS(p, proc, repl, cert, d, nil)
}

func wireCallS(p *pki, proc *binfx.Proc, repl bool, cert *tls.Certificate, d time.Duration, cache tls.ClientSessionCache) error {
	ccfg := &tls.Config{InsecureSkipVerify: true, NextProtos: []string{"h2"}}
	if cache != nil {
		ccfg.ClientSessionCache, ccfg.ServerName = cache, "server"
	}
	if cert != nil {
		ccfg.GetClientCertificate = func(*tls.CertificateRequestInfo) (*tls.Certificate, error) { return cert, nil }
	}
	addr := proc.API
	if repl {
		addr = proc.Repl
	}
	target := "passthrough:///" + addr
	if strings.HasPrefix(addr, "unix://") {
		target = addr
	}
	creds := credentials.NewTLS(ccfg)
	if cert == plaintextClient {
		creds = insecure.NewCredentials()
	}
	conn, err := grpc.NewClient(target, grpc.WithTransportCredentials(creds))
	if err != nil {
		return err
	}
	defer conn.Close()
	ctx, cancel := context.WithTimeout(context.Background(), d)
	defer cancel()
	if repl {
		_, err = regattapb.NewMetadataClient(conn).Get(ctx, &regattapb.MetadataRequest{})
	} else {
		_, err = regattapb.NewClusterClient(conn).Status(ctx, &regattapb.StatusRequest{})
	}
	return err
}

func wireFixture() error {
	wireOnce.Do(func() {
		p, err := getPKI()
		if err != nil {
			wireErr = err
			return
		}
		wirePs = make([]*binfx.Proc, len(wireProcs))
		// readiness: a certificate that satisfies every rule (trusted CA, right CN, every allowed name as SAN) is served on both endpoints
		good, _, err := p.mint(CertSpec{Issuer: "trusted", CN: goodCN, DNS: []string{"node7.regatta.internal"}, IPs: []string{"10.1.2.3"}, Validity: "valid", EKU: "client"})
		if err != nil {
			wireErr = err
			return
		}
		startOne := func(i int, wp wireProc) (*binfx.Proc, error) {
			extra := []string{
				"--api.cert-filename=" + p.serverCertFile, "--api.key-filename=" + p.serverKey, "--api.ca-filename=" + p.caFile,
				"--replication.cert-filename=" + p.serverCertFile, "--replication.key-filename=" + p.serverKey, "--replication.ca-filename=" + p.caFile,
			}
			if wp.apiCN != "" {
				extra = append(extra, "--api.allowed-cn="+wp.apiCN)
			}
			if wp.apiHost != "" {
				extra = append(extra, "--api.allowed-hostname="+wp.apiHost)
			}
			// the replication endpoint's name rules have no command-line flag; they are read from the configuration file
			cfgYAML := ""
			if wp.replCN != "" {
				cfgYAML = "replication:\n  allowed-cn: \"" + wp.replCN + "\"\n"
			}
			if wp.replHost != "" {
				cfgYAML = "replication:\n  allowed-hostname: \"" + wp.replHost + "\"\n"
			}
			if wp.clientCertAuth {
				extra = append(extra, "--api.client-cert-auth=true", "--replication.client-cert-auth=true")
			}
			scheme := "https"
			if wp.scheme != "" {
				scheme = wp.scheme
			}
			proc, err := binfx.Start(binfx.Opts{Role: "leader", APIScheme: scheme, ReplScheme: scheme, Extra: extra, ConfigYAML: cfgYAML})
			if err != nil {
				return nil, err
			}
			for _, repl := range []bool{false, true} {
				deadline := time.Now().Add(30 * time.Second)
				for {
					if !proc.Alive() {
						return nil, fmt.Errorf("tls process %d exited during start: %v\n%s", i, proc.ExitErr(), proc.LogTail(2000))
					}
					err := wireCall(p, proc, repl, good, 2*time.Second)
					if err == nil {
						break
					}
					// readiness must not depend on what is being judged: an endpoint that answers a plaintext client is up as well
					// (the cases decide what that means)
					if wireCall(p, proc, repl, plaintextClient, 2*time.Second) == nil {
						break
					}
					if time.Now().After(deadline) {
						proc.Kill()
						return nil, fmt.Errorf("tls process %d (replication endpoint=%v) not ready: %v\n%s", i, repl, err, proc.LogTail(2000))
					}
					time.Sleep(30 * time.Millisecond)
				}
			}
			return proc, nil
		}
		var wg sync.WaitGroup
		var mu sync.Mutex
		for i, wp := range wireProcs {
			wg.Add(1)
			go func(i int, wp wireProc) {
				defer wg.Done()
				var proc *binfx.Proc
				var err error
				// a process that exits while starting has most likely lost one of its freshly picked ports to another process: again
				for attempt := 0; attempt < 4; attempt++ {
					if proc, err = startOne(i, wp); err == nil {
						break
					}
				}
				mu.Lock()
				defer mu.Unlock()
				if err != nil && wireErr == nil {
					wireErr = err
				}
				wirePs[i] = proc
			}(i, wp)
		}
		wg.Wait()
	})
	return wireErr
}

func runWire(c WireCase, o *vt.Obs) *vt.Failure {
	if err := wireFixture(); err != nil {
		vt.Inconclusive("C17 tls processes: " + err.Error())
		return nil
	}
	p, _ := getPKI()
	if c.Endpoint < 0 || c.Endpoint >= len(wireEndpoints) {
		return nil
	}
	ep := wireEndpoints[c.Endpoint]
	proc := wirePs[ep.proc]
	cert, chain, err := p.mint(c.Cert)
	if err != nil {
		vt.Inconclusive("C17 mint: " + err.Error())
		return nil
	}
	want, why := p.shouldAccept(TLSCase{AllowedCN: ep.allowedCN, AllowedHostname: ep.allowedHostname}, chain)
	if c.Plain {
		cert, want, why = plaintextClient, false, "does not speak TLS at all (plaintext HTTP/2), so it presents no certificate"
		o.Label("wire-plaintext-client")
	}
	if wireProcs[ep.proc].scheme == "unixs" {
		o.Label("wire-unixs-endpoint")
	}
	var cache tls.ClientSessionCache
	if c.PrevPlus1 > 0 && c.PrevPlus1 <= len(wireEndpoints) {
		cache = tls.NewLRUClientSessionCache(8)
		pe := wireEndpoints[c.PrevPlus1-1]
		if perr := wireCallS(p, wirePs[pe.proc], pe.repl, cert, 20*time.Second, cache); perr == nil {
			o.Label("wire-earlier-connection-to-another-endpoint-was-served")
			why += " (the same client had just been served by endpoint " + fmt.Sprint(c.PrevPlus1-1) + " and kept its TLS session cache)"
		}
	}
	rerr := wireCallS(p, proc, ep.repl, cert, 20*time.Second, cache)
	if !proc.Alive() {
		if proc.KilledFromOutside() {
			vt.Inconclusive("C17 tls process killed from outside")
			return nil
		}
		return vt.Failf(prop+"/process-died", 0, "the server process ended after a TLS connection attempt: %v\n%s", proc.ExitErr(), proc.LogTail(1500))
	}
	got := rerr == nil
	if got != want {
		kind := "API"
		if ep.repl {
			kind = "replication"
		}
		if got {
			return vt.Failf(prop+"/certificate-wrongly-accepted", 0, "%s endpoint of a leader started with allowed-cn=%q allowed-hostname=%q served a client whose certificate must be refused: %s\ncertificate: %+v", kind, ep.allowedCN, ep.allowedHostname, why, c.Cert)
		}
		// a refusal of a good certificate could also be a slow machine (deadline): retry once before judging
		if rerr2 := wireCall(p, proc, ep.repl, cert, 60*time.Second); rerr2 != nil {
			if status.Code(rerr2) == codes.DeadlineExceeded || status.Code(rerr2) == codes.Canceled {
				// a refused handshake is reported at once (Unavailable); an expired deadline is a machine that did not get to answer
				vt.Inconclusive(fmt.Sprintf("C17 wire: no answer within 60 s: %v", rerr2))
				return nil
			}
			return vt.Failf(prop+"/certificate-wrongly-refused", 0, "%s endpoint (allowed-cn=%q allowed-hostname=%q) refused (%v) a client certificate that %s\ncertificate: %+v", kind, ep.allowedCN, ep.allowedHostname, rerr2, why, c.Cert)
		}
	}
	near := !want && (c.Cert.Issuer == "trusted" || c.Cert.Issuer == "trusted-via-intermediate") && c.Cert.Validity == "valid" && (c.Cert.EKU == "client" || c.Cert.EKU == "both")
	near = near || (!want && c.Cert.Issuer == "rogue" && c.Cert.CN == goodCN && c.Cert.Validity == "valid")
	if near {
		o.Label("wire-near-miss-certificate")
	}
	if ep.repl {
		o.Label("wire-replication-endpoint")
	} else {
		o.Label("wire-api-endpoint")
	}
	if want {
		o.Label("wire-accepted")
	}
	o.NonTrivial = near
	o.Describe = func() string {
		return fmt.Sprintf("endpoint %d (proc %d repl=%v cn=%q host=%q) cert %+v -> accept=%v (%s)", c.Endpoint, ep.proc, ep.repl, ep.allowedCN, ep.allowedHostname, c.Cert, want, why)
	}
	return nil
}

func TestC17Wire(t *testing.T)        { vt.Check(t, prop, genWire, runWire) }
func TestC17WireReplay(t *testing.T)  { vt.Replay(t, prop, runWire) }
func TestC17WireRegress(t *testing.T) { vt.Regress(t, prop, "testdata", runWire) }
