package c17

import (
	"crypto/ecdsa"
	"crypto/elliptic"
	"crypto/rand"
	"crypto/tls"
	"crypto/x509"
	"crypto/x509/pkix"
	"encoding/pem"
	"errors"
	"fmt"
	"io"
	"math/big"
	"net"
	"os"
	"path/filepath"
	"sync"
	"testing"
	"time"

	"github.com/jamf/regatta/security"
	"pgregory.net/rapid"

	"verifharness/internal/binfx"
	"verifharness/internal/vt"
)

// ---- domain B: client certificates against security.TLSInfo.ServerConfig() -----------------------------

type CertSpec struct {
	Issuer    string   `json:"issuer"`     // trusted | rogue (another CA with the SAME subject name) | self | trusted-via-intermediate | rogue-via-intermediate | server-pki (the CA that issued the SERVER's certificate, another PKI than the trusted client CA) | none (no client certificate)
	CN        string   `json:"cn"`         // subject common name
	DNS       []string `json:"dns"`        // SAN DNS names
	IPs       []string `json:"ips"`        // SAN IP addresses
	Validity  string   `json:"validity"`   // valid | expired | not-yet-valid
	EKU       string   `json:"eku"`        // client | server-only | both | none(any)
	SendChain bool     `json:"send_chain"` // present the intermediate along with the leaf
}

type TLSCase struct {
	AllowedCN       string   `json:"allowed_cn"`
	AllowedHostname string   `json:"allowed_hostname"`
	ClientCertAuth  bool     `json:"client_cert_auth"`
	Cert            CertSpec `json:"cert"`
	// FullChain: the server's certificate file is a full-chain file from a PKI of its own - leaf, issuing intermediate and root -
	// instead of a lone leaf signed by the client CA.  What is bundled there identifies the SERVER; it is no trust anchor for clients.
	FullChain bool `json:"full_chain,omitempty"`
}

const goodCN = "replica.regatta.internal"

func mutateName(t *rapid.T, good string, label string) string {
	switch rapid.IntRange(0, 8).Draw(t, label) {
	case 0, 1, 2:
		return good
	case 3:
		return good[:len(good)-1]
	case 4:
		return good + "x"
	case 5:
		return "x" + good
	case 6:
		return flipCase(good)
	case 7:
		return ""
	default:
		return "other.example.org"
	}
}

func genTLS(t *rapid.T) TLSCase {
	c := TLSCase{ClientCertAuth: rapid.Bool().Draw(t, "cca")}
	switch rapid.IntRange(0, 3).Draw(t, "mode") {
	case 0:
		c.AllowedCN = goodCN
	case 1:
		c.AllowedHostname = rapid.SampledFrom([]string{goodCN, "10.1.2.3", "node7.regatta.internal"}).Draw(t, "ah")
	case 2:
		// trusted CA only
	default:
		c.AllowedCN = goodCN
	}
	s := CertSpec{
		Issuer:    rapid.SampledFrom([]string{"trusted", "trusted", "trusted", "rogue", "self", "trusted-via-intermediate", "rogue-via-intermediate", "none"}).Draw(t, "issuer"),
		Validity:  rapid.SampledFrom([]string{"valid", "valid", "valid", "valid", "expired", "not-yet-valid"}).Draw(t, "validity"),
		EKU:       rapid.SampledFrom([]string{"client", "client", "client", "both", "server-only", "none"}).Draw(t, "eku"),
		SendChain: rapid.Bool().Draw(t, "chain"),
	}
	s.CN = mutateName(t, goodCN, "cn")
	if c.AllowedHostname != "" {
		// SAN variants relative to the allowed hostname
		switch rapid.IntRange(0, 6).Draw(t, "san") {
		case 0, 1:
			if net.ParseIP(c.AllowedHostname) != nil {
				s.IPs = []string{c.AllowedHostname}
			} else {
				s.DNS = []string{c.AllowedHostname}
			}
		case 2:
			s.DNS = []string{"*.regatta.internal"}
		case 3:
			s.DNS = []string{mutateName(t, c.AllowedHostname, "sanmut")}
		case 4:
			s.IPs = []string{"10.1.2.4"}
		case 5:
			s.DNS = []string{"other.example.org", c.AllowedHostname}
		default:
			// no SAN at all: the common name alone must not make the certificate valid for a hostname
			s.CN = c.AllowedHostname
		}
	}
	c.Cert = s
	c.FullChain = rapid.IntRange(0, 2).Draw(t, "fullchain") == 0
	if c.FullChain && rapid.Bool().Draw(t, "serverpki") {
		c.Cert.Issuer = "server-pki"
	}
	return c
}

type pki struct {
	dir                        string
	trustedCA, rogueCA         *x509.Certificate
	trustedKey, rogueKey       *ecdsa.PrivateKey
	trustedInt, rogueInt       *x509.Certificate
	trustedIntKey, rogueIntKey *ecdsa.PrivateKey
	serverCertFile, serverKey  string
	caFile                     string
	// the server's own PKI (full-chain deployment)
	srvRoot, srvInt        *x509.Certificate
	srvRootKey, srvIntKey  *ecdsa.PrivateKey
	fullChainFile, fullKey string
	serial                 int64
	mu                     sync.Mutex
}

var (
	pkiOnce sync.Once
	thePKI  *pki
	pkiErr  error
)

func (p *pki) nextSerial() *big.Int {
	p.mu.Lock()
	defer p.mu.Unlock()
	p.serial++
	return big.NewInt(p.serial)
}

func (p *pki) makeCA(cn string, parent *x509.Certificate, parentKey *ecdsa.PrivateKey) (*x509.Certificate, *ecdsa.PrivateKey, error) {
	key, err := ecdsa.GenerateKey(elliptic.P256(), rand.Reader)
	if err != nil {
		return nil, nil, err
	}
	tmpl := &x509.Certificate{
		SerialNumber: p.nextSerial(), Subject: pkix.Name{CommonName: cn, Organization: []string{"verif"}},
		NotBefore: time.Now().Add(-time.Hour), NotAfter: time.Now().Add(240 * time.Hour),
		IsCA: true, BasicConstraintsValid: true, KeyUsage: x509.KeyUsageCertSign | x509.KeyUsageDigitalSignature,
	}
	signer, signerKey := tmpl, key
	if parent != nil {
		signer, signerKey = parent, parentKey
	}
	der, err := x509.CreateCertificate(rand.Reader, tmpl, signer, &key.PublicKey, signerKey)
	if err != nil {
		return nil, nil, err
	}
	c, err := x509.ParseCertificate(der)
	return c, key, err
}

func writePEM(path, typ string, der []byte) error {
	return os.WriteFile(path, pem.EncodeToMemory(&pem.Block{Type: typ, Bytes: der}), 0o600)
}

func getPKI() (*pki, error) {
	pkiOnce.Do(func() {
		p := &pki{}
		p.dir, pkiErr = os.MkdirTemp(binfx.Scratch(), "c17-pki-")
		if pkiErr != nil {
			return
		}
		// the rogue CA carries the same subject as the trusted one
		if p.trustedCA, p.trustedKey, pkiErr = p.makeCA("Regatta Test CA", nil, nil); pkiErr != nil {
			return
		}
		if p.rogueCA, p.rogueKey, pkiErr = p.makeCA("Regatta Test CA", nil, nil); pkiErr != nil {
			return
		}
		if p.trustedInt, p.trustedIntKey, pkiErr = p.makeCA("Regatta Intermediate", p.trustedCA, p.trustedKey); pkiErr != nil {
			return
		}
		if p.rogueInt, p.rogueIntKey, pkiErr = p.makeCA("Regatta Intermediate", p.rogueCA, p.rogueKey); pkiErr != nil {
			return
		}
		p.caFile = filepath.Join(p.dir, "ca.crt")
		if pkiErr = writePEM(p.caFile, "CERTIFICATE", p.trustedCA.Raw); pkiErr != nil {
			return
		}
		// server certificate
		skey, _ := ecdsa.GenerateKey(elliptic.P256(), rand.Reader)
		tmpl := &x509.Certificate{SerialNumber: p.nextSerial(), Subject: pkix.Name{CommonName: "server"}, DNSNames: []string{"server"},
			NotBefore: time.Now().Add(-time.Hour), NotAfter: time.Now().Add(240 * time.Hour), ExtKeyUsage: []x509.ExtKeyUsage{x509.ExtKeyUsageServerAuth}, KeyUsage: x509.KeyUsageDigitalSignature}
		der, err := x509.CreateCertificate(rand.Reader, tmpl, p.trustedCA, &skey.PublicKey, p.trustedKey)
		if err != nil {
			pkiErr = err
			return
		}
		p.serverCertFile, p.serverKey = filepath.Join(p.dir, "server.crt"), filepath.Join(p.dir, "server.key")
		if pkiErr = writePEM(p.serverCertFile, "CERTIFICATE", der); pkiErr != nil {
			return
		}
		kder, _ := x509.MarshalECPrivateKey(skey)
		if pkiErr = writePEM(p.serverKey, "EC PRIVATE KEY", kder); pkiErr != nil {
			return
		}
		// a second server identity from a PKI of its own, deployed as a full-chain file
		if p.srvRoot, p.srvRootKey, pkiErr = p.makeCA("Server PKI Root", nil, nil); pkiErr != nil {
			return
		}
		if p.srvInt, p.srvIntKey, pkiErr = p.makeCA("Server PKI Issuing CA", p.srvRoot, p.srvRootKey); pkiErr != nil {
			return
		}
		fkey, _ := ecdsa.GenerateKey(elliptic.P256(), rand.Reader)
		ftmpl := &x509.Certificate{SerialNumber: p.nextSerial(), Subject: pkix.Name{CommonName: "server"}, DNSNames: []string{"server"},
			NotBefore: time.Now().Add(-time.Hour), NotAfter: time.Now().Add(240 * time.Hour), ExtKeyUsage: []x509.ExtKeyUsage{x509.ExtKeyUsageServerAuth}, KeyUsage: x509.KeyUsageDigitalSignature}
		fder, err := x509.CreateCertificate(rand.Reader, ftmpl, p.srvInt, &fkey.PublicKey, p.srvIntKey)
		if err != nil {
			pkiErr = err
			return
		}
		p.fullChainFile, p.fullKey = filepath.Join(p.dir, "fullchain.crt"), filepath.Join(p.dir, "fullchain.key")
		var chainPEM []byte
		for _, der := range [][]byte{fder, p.srvInt.Raw, p.srvRoot.Raw} {
			chainPEM = append(chainPEM, pem.EncodeToMemory(&pem.Block{Type: "CERTIFICATE", Bytes: der})...)
		}
		if pkiErr = os.WriteFile(p.fullChainFile, chainPEM, 0o600); pkiErr != nil {
			return
		}
		fk, _ := x509.MarshalECPrivateKey(fkey)
		if pkiErr = writePEM(p.fullKey, "EC PRIVATE KEY", fk); pkiErr != nil {
			return
		}
		thePKI = p
	})
	return thePKI, pkiErr
}

// mint creates the client certificate described by the spec; returns the tls.Certificate to present and the parsed chain.
func (p *pki) mint(s CertSpec) (*tls.Certificate, []*x509.Certificate, error) {
	if s.Issuer == "none" {
		return nil, nil, nil
	}
	key, err := ecdsa.GenerateKey(elliptic.P256(), rand.Reader)
	if err != nil {
		return nil, nil, err
	}
	tmpl := &x509.Certificate{SerialNumber: p.nextSerial(), Subject: pkix.Name{CommonName: s.CN}, DNSNames: s.DNS, KeyUsage: x509.KeyUsageDigitalSignature}
	for _, ip := range s.IPs {
		tmpl.IPAddresses = append(tmpl.IPAddresses, net.ParseIP(ip))
	}
	switch s.Validity {
	case "expired":
		tmpl.NotBefore, tmpl.NotAfter = time.Now().Add(-48*time.Hour), time.Now().Add(-24*time.Hour)
	case "not-yet-valid":
		tmpl.NotBefore, tmpl.NotAfter = time.Now().Add(24*time.Hour), time.Now().Add(48*time.Hour)
	default:
		tmpl.NotBefore, tmpl.NotAfter = time.Now().Add(-time.Hour), time.Now().Add(24*time.Hour)
	}
	switch s.EKU {
	case "client":
		tmpl.ExtKeyUsage = []x509.ExtKeyUsage{x509.ExtKeyUsageClientAuth}
	case "both":
		tmpl.ExtKeyUsage = []x509.ExtKeyUsage{x509.ExtKeyUsageClientAuth, x509.ExtKeyUsageServerAuth}
	case "server-only":
		tmpl.ExtKeyUsage = []x509.ExtKeyUsage{x509.ExtKeyUsageServerAuth}
	}
	var signer *x509.Certificate
	var signerKey *ecdsa.PrivateKey
	var inter *x509.Certificate
	switch s.Issuer {
	case "trusted":
		signer, signerKey = p.trustedCA, p.trustedKey
	case "rogue":
		signer, signerKey = p.rogueCA, p.rogueKey
	case "trusted-via-intermediate":
		signer, signerKey, inter = p.trustedInt, p.trustedIntKey, p.trustedInt
	case "rogue-via-intermediate":
		signer, signerKey, inter = p.rogueInt, p.rogueIntKey, p.rogueInt
	case "server-pki":
		signer, signerKey, inter = p.srvInt, p.srvIntKey, p.srvInt
	default: // self signed
		signer, signerKey = tmpl, key
	}
	der, err := x509.CreateCertificate(rand.Reader, tmpl, signer, &key.PublicKey, signerKey)
	if err != nil {
		return nil, nil, err
	}
	leaf, err := x509.ParseCertificate(der)
	if err != nil {
		return nil, nil, err
	}
	tc := &tls.Certificate{Certificate: [][]byte{der}, PrivateKey: key, Leaf: leaf}
	chain := []*x509.Certificate{leaf}
	if inter != nil && s.SendChain {
		tc.Certificate = append(tc.Certificate, inter.Raw)
		chain = append(chain, inter)
	}
	return tc, chain, nil
}

// reference: should the server accept?
func (p *pki) shouldAccept(c TLSCase, chain []*x509.Certificate) (bool, string) {
	if len(chain) == 0 {
		return false, "no client certificate"
	}
	roots := x509.NewCertPool()
	roots.AddCert(p.trustedCA)
	inters := x509.NewCertPool()
	for _, ic := range chain[1:] {
		inters.AddCert(ic)
	}
	if _, err := chain[0].Verify(x509.VerifyOptions{Roots: roots, Intermediates: inters, KeyUsages: []x509.ExtKeyUsage{x509.ExtKeyUsageClientAuth}, CurrentTime: time.Now()}); err != nil {
		return false, "does not chain to the trusted CA for client authentication: " + err.Error()
	}
	if c.AllowedCN != "" && chain[0].Subject.CommonName != c.AllowedCN {
		return false, fmt.Sprintf("common name %q is not exactly %q", chain[0].Subject.CommonName, c.AllowedCN)
	}
	if c.AllowedHostname != "" {
		if err := chain[0].VerifyHostname(c.AllowedHostname); err != nil {
			return false, "not valid for the allowed hostname: " + err.Error()
		}
	}
	return true, "chains to the trusted CA and matches the allowed name"
}

// transportFailure: the handshake error says nothing about the certificate - the pipe was closed under the server (its peer gave up: a
// client whose own 10 s deadline expired closes its end) or a deadline expired.  A refusal is a TLS-level error (alert, verification error).
func transportFailure(err error) bool {
	var ne net.Error
	if errors.As(err, &ne) && ne.Timeout() {
		return true
	}
	return errors.Is(err, io.ErrClosedPipe) || errors.Is(err, os.ErrDeadlineExceeded) || errors.Is(err, io.EOF) || errors.Is(err, io.ErrUnexpectedEOF)
}

func runTLS(c TLSCase, o *vt.Obs) *vt.Failure {
	p, err := getPKI()
	if err != nil {
		vt.Inconclusive("C17 pki: " + err.Error())
		return nil
	}
	ti := security.TLSInfo{CertFile: p.serverCertFile, KeyFile: p.serverKey, TrustedCAFile: p.caFile, ClientCertAuth: c.ClientCertAuth, AllowedCN: c.AllowedCN, AllowedHostname: c.AllowedHostname}
	if c.FullChain {
		ti.CertFile, ti.KeyFile = p.fullChainFile, p.fullKey
		o.Label("server-certificate-file-is-a-full-chain-of-another-pki")
	}
	cfg, err := ti.ServerConfig()
	if err != nil {
		return vt.Failf(prop+"/server-config-error", 0, "ServerConfig for %+v: %v", c, err)
	}
	clientCert, chain, err := p.mint(c.Cert)
	if err != nil {
		vt.Inconclusive("C17 mint: " + err.Error())
		return nil
	}
	want, why := p.shouldAccept(c, chain)
	sc, cc := net.Pipe()
	defer sc.Close()
	defer cc.Close()
	_ = sc.SetDeadline(time.Now().Add(10 * time.Second))
	_ = cc.SetDeadline(time.Now().Add(10 * time.Second))
	ccfg := &tls.Config{InsecureSkipVerify: true, NextProtos: []string{"h2"}}
	if clientCert != nil {
		ccfg.GetClientCertificate = func(*tls.CertificateRequestInfo) (*tls.Certificate, error) { return clientCert, nil }
	}
	done := make(chan struct{})
	go func() {
		defer close(done)
		tc := tls.Client(cc, ccfg)
		if err := tc.Handshake(); err == nil {
			buf := make([]byte, 1)
			_, _ = tc.Read(buf) // surfaces the server's alert under TLS 1.3
		}
		_ = cc.Close()
	}()
	srv := tls.Server(sc, cfg)
	herr := srv.Handshake()
	_ = sc.Close()
	<-done
	got := herr == nil
	if herr != nil && transportFailure(herr) {
		// the in-memory connection itself failed (deadline of a saturated machine, the peer gone): not the server's verdict on the certificate
		vt.Inconclusive(fmt.Sprintf("C17 handshake over the in-memory pipe failed without a verdict: %v", herr))
		return nil
	}
	if got != want {
		if got {
			return vt.Failf(prop+"/certificate-wrongly-accepted", 0, "server (allowed CN %q, allowed hostname %q, client-cert-auth %v) accepted a client certificate that must be refused: %s\ncertificate: %+v", c.AllowedCN, c.AllowedHostname, c.ClientCertAuth, why, c.Cert)
		}
		return vt.Failf(prop+"/certificate-wrongly-refused", 0, "server (allowed CN %q, allowed hostname %q) refused (%v) a client certificate that %s\ncertificate: %+v", c.AllowedCN, c.AllowedHostname, herr, why, c.Cert)
	}
	// near miss: everything right except one aspect
	near := !want && (c.Cert.Issuer == "trusted" || c.Cert.Issuer == "trusted-via-intermediate") && c.Cert.Validity == "valid" && (c.Cert.EKU == "client" || c.Cert.EKU == "both")
	near = near || (!want && c.Cert.Issuer == "rogue" && c.Cert.CN == goodCN && c.Cert.Validity == "valid")
	near = near || (!want && c.Cert.Issuer == "server-pki" && c.Cert.Validity == "valid")
	if near {
		o.Label("near-miss-certificate")
	}
	if want {
		o.Label("accepted")
	} else {
		o.Label("refused")
	}
	o.NonTrivial = near
	o.Describe = func() string { return fmt.Sprintf("%+v -> accept=%v (%s)", c, want, why) }
	return nil
}

func TestC17TLS(t *testing.T)        { vt.Check(t, prop, genTLS, runTLS) }
func TestC17TLSReplay(t *testing.T)  { vt.Replay(t, prop, runTLS) }
func TestC17TLSRegress(t *testing.T) { vt.Regress(t, prop, "testdata", runTLS) }
