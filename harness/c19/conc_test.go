package c19

// TestC19Conc: the same update multisets delivered to ONE view by several goroutines at once - in a node the local raft events
// (Cluster.Notify), memberlist push/pull (MergeRemoteState) and the join/leave/update callbacks all write the view concurrently while
// every response header reads it.  Each generated update is spread over a few hundred shard ids so that one merge takes long enough for
// deliveries to overlap.  Oracle (timing-free): whatever the interleaving, after all deliveries every shard's record equals the model
// (highest term with a leader, highest config-change index) - a lost update shows as a record that misses one of them - and a reader
// goroutine never sees a shard's term decrease.  Scheduling decides only how often deliveries really overlap.

import (
	"fmt"
	"sync"
	"sync/atomic"
	"testing"

	"github.com/jamf/regatta/storage/cluster"
	"github.com/lni/dragonboat/v4"
	"pgregory.net/rapid"

	"verifharness/internal/vt"
)

type ConcCase struct {
	Case
	Spread int          `json:"spread"` // every update is applied to this many shard ids
	Orders [][]Delivery `json:"orders"` // one delivery schedule per writer goroutine (each delivers every update at least once)
}

func genConcCase(t *rapid.T) ConcCase {
	c := ConcCase{Case: genCase(t), Spread: rapid.SampledFrom([]int{50, 300, 1000}).Draw(t, "spread")}
	n := rapid.IntRange(2, 4).Draw(t, "writers")
	for i := 0; i < n; i++ {
		c.Orders = append(c.Orders, genOrder(t, len(c.Updates), fmt.Sprintf("W%d", i)))
	}
	return c
}

func runConcCase(c ConcCase, o *vt.Obs) *vt.Failure {
	want := map[uint64]final{}
	for _, u := range c.Updates {
		f := want[u.Shard]
		if u.Leader != 0 && (f.Leader == 0 || u.Term > f.Term) {
			f.Leader, f.Term = u.Leader, u.Term
		}
		if u.CCI > f.CCI {
			f.CCI, f.Replicas = u.CCI, u.Replicas
		}
		want[u.Shard] = f
	}
	sid := func(shard uint64, j int) uint64 { return shard*10000 + uint64(j) }
	for round := 0; round < 6; round++ {
		main := cluster.NewVerifView(nil)
		var wg sync.WaitGroup
		var stop atomic.Bool
		var readerFail atomic.Pointer[vt.Failure]
		// reader: terms never decrease
		var rwg sync.WaitGroup
		rwg.Add(1)
		go func() {
			defer rwg.Done()
			last := map[uint64]uint64{}
			for !stop.Load() {
				for s := range want {
					for _, j := range []int{0, c.Spread / 2, c.Spread - 1} {
						id := sid(s, j)
						v := main.ShardInfo(id)
						if v.Term < last[id] {
							readerFail.Store(vt.Failf(prop+"/term-regressed", round, "concurrent deliveries: a reader saw shard %d at term %d and then at term %d", id, last[id], v.Term))
							return
						}
						last[id] = v.Term
					}
				}
			}
		}()
		start := make(chan struct{})
		for _, order := range c.Orders {
			wg.Add(1)
			go func(order []Delivery) {
				defer wg.Done()
				<-start
				for _, d := range order {
					var batch []dragonboat.ShardView
					for _, i := range d.Updates {
						u := c.Updates[i]
						for j := 0; j < c.Spread; j++ {
							v := toView(u)
							v.ShardID = sid(u.Shard, j)
							batch = append(batch, v)
						}
					}
					if d.Via {
						mid := cluster.NewVerifView(nil)
						mid.Update(batch)
						main.MergeRemoteState(mid.LocalState(false), false)
					} else {
						main.Update(batch)
					}
				}
			}(order)
		}
		close(start)
		wg.Wait()
		stop.Store(true)
		rwg.Wait()
		if f := readerFail.Load(); f != nil {
			return f
		}
		for s, w := range want {
			for j := 0; j < c.Spread; j++ {
				got := main.ShardInfo(sid(s, j))
				if got.LeaderID != w.Leader || got.Term != w.Term {
					return vt.Failf(prop+"/leader-not-max-term", round, "%d writers delivering the same updates concurrently: shard %d retains leader %d term %d, the highest term announced with a leader is %d (leader %d) - an update was lost", len(c.Orders), sid(s, j), got.LeaderID, got.Term, w.Term, w.Leader)
				}
				if got.ConfigChangeIndex != w.CCI || !sameReplicas(got.Replicas, w.Replicas) {
					return vt.Failf(prop+"/membership-not-max-cci", round, "%d writers delivering the same updates concurrently: shard %d membership cci %d, the highest announced is %d - an update was lost", len(c.Orders), sid(s, j), got.ConfigChangeIndex, w.CCI)
				}
			}
		}
	}
	o.NonTrivial = len(c.Updates) >= 3
	o.LabelN("writers", len(c.Orders))
	o.Describe = func() string { return fmt.Sprintf("spread %d, %d writers, updates %+v", c.Spread, len(c.Orders), c.Updates) }
	return nil
}

func TestC19Conc(t *testing.T)        { vt.Check(t, prop, genConcCase, runConcCase) }
func TestC19ConcReplay(t *testing.T)  { vt.Replay(t, prop, runConcCase) }
func TestC19ConcRegress(t *testing.T) { vt.Regress(t, prop, "testdata", runConcCase) }
