// C19 — the gossiped shard view converges and never regresses to an older leader.
package c19

import (
	"fmt"
	"reflect"
	"testing"

	"github.com/jamf/regatta/storage/cluster"
	"github.com/lni/dragonboat/v4"
	"pgregory.net/rapid"

	"verifharness/internal/vt"
)

const prop = "C19"

// Update is one shard update as a node would gossip it.
type Update struct {
	Shard    uint64            `json:"shard"`
	Term     uint64            `json:"term"`
	Leader   uint64            `json:"leader"` // 0 = no leader known
	CCI      uint64            `json:"cci"`
	Replicas map[uint64]string `json:"replicas"`
}

// Delivery delivers the updates with the given indices (repeats allowed), either directly or
// through an intermediate node's view whose LocalState is then merged (JSON round trip).
type Delivery struct {
	Via     bool  `json:"via"`
	Updates []int `json:"updates"`
}

type Case struct {
	Updates []Update   `json:"updates"`
	OrderA  []Delivery `json:"order_a"`
	OrderB  []Delivery `json:"order_b"`
}

func genCase(t *rapid.T) Case {
	c := Case{Updates: genUpdates(t)}
	c.OrderA = genOrder(t, len(c.Updates), "A")
	c.OrderB = genOrder(t, len(c.Updates), "B")
	return c
}

// genUpdates samples updates from a consistent world per shard: term -> at most one leader, config-change index -> one membership.
func genUpdates(t *rapid.T) []Update {
	nShards := rapid.IntRange(1, 3).Draw(t, "shards")
	var out []Update
	for s := 1; s <= nShards; s++ {
		nTerms := rapid.IntRange(1, 6).Draw(t, "terms")
		leaders := make([]uint64, nTerms+1)
		for term := 1; term <= nTerms; term++ {
			leaders[term] = uint64(rapid.IntRange(0, 3).Draw(t, "leaderOfTerm")) // 0: nobody won that term
		}
		nCCI := rapid.IntRange(1, 4).Draw(t, "ccis")
		members := make([]map[uint64]string, nCCI+1)
		for i := 1; i <= nCCI; i++ {
			m := map[uint64]string{}
			for r := 1; r <= 3; r++ {
				if rapid.Bool().Draw(t, "member") {
					m[uint64(r)] = fmt.Sprintf("addr-%d-%d", r, i)
				}
			}
			members[i] = m
		}
		nUpd := rapid.IntRange(1, 8).Draw(t, "updates")
		for u := 0; u < nUpd; u++ {
			term := rapid.IntRange(1, nTerms).Draw(t, "term")
			cci := rapid.IntRange(1, nCCI).Draw(t, "cci")
			leader := leaders[term]
			if rapid.IntRange(0, 3).Draw(t, "leaderUnknown") == 0 {
				leader = 0 // this node has not learnt the leader of the term (yet)
			}
			out = append(out, Update{Shard: uint64(10000 + s), Term: uint64(term), Leader: leader, CCI: uint64(cci), Replicas: members[cci]})
		}
	}
	return out
}

// genOrder draws a delivery schedule that delivers every update at least once (plus repeats).
func genOrder(t *rapid.T, n int, label string) []Delivery {
	perm := rapid.Permutation(seq(n)).Draw(t, label+".perm")
	extra := rapid.SliceOfN(rapid.IntRange(0, n-1), 0, n).Draw(t, label+".dups")
	all := append(perm, extra...)
	if len(extra) > 0 && rapid.Bool().Draw(t, label+".shuffleDups") {
		all = rapid.Permutation(all).Draw(t, label+".perm2")
	}
	var out []Delivery
	for len(all) > 0 {
		k := rapid.IntRange(1, min(4, len(all))).Draw(t, label+".batch")
		out = append(out, Delivery{Via: rapid.IntRange(0, 2).Draw(t, label+".via") == 0, Updates: all[:k]})
		all = all[k:]
	}
	return out
}

func seq(n int) []int {
	s := make([]int, n)
	for i := range s {
		s[i] = i
	}
	return s
}

func toView(u Update) dragonboat.ShardView {
	return dragonboat.ShardView{ShardID: u.Shard, Replicas: u.Replicas, ConfigChangeIndex: u.CCI, LeaderID: u.Leader, Term: u.Term}
}

type final struct {
	Leader, Term, CCI uint64
	Replicas          map[uint64]string
}

// deliver feeds the schedule into a fresh view and checks monotonicity after every delivery.
func deliver(c Case, order []Delivery, name string) (map[uint64]final, *vt.Failure) {
	main := cluster.NewVerifView(nil)
	shards := map[uint64]bool{}
	for _, u := range c.Updates {
		shards[u.Shard] = true
	}
	prev := map[uint64]dragonboat.ShardView{}
	for di, d := range order {
		var batch []dragonboat.ShardView
		for _, i := range d.Updates {
			batch = append(batch, toView(c.Updates[i]))
		}
		if d.Via {
			mid := cluster.NewVerifView(nil)
			mid.Update(batch)
			main.MergeRemoteState(mid.LocalState(false), false)
		} else {
			main.Update(batch)
		}
		for s := range shards {
			now := main.ShardInfo(s)
			p := prev[s]
			if p.LeaderID != 0 {
				if now.Term < p.Term {
					return nil, vt.Failf(prop+"/term-regressed", di, "%s: shard %d leader term went from %d to %d", name, s, p.Term, now.Term)
				}
				if now.LeaderID == 0 {
					return nil, vt.Failf(prop+"/leader-erased", di, "%s: shard %d known leader %d (term %d) replaced by 'no leader'", name, s, p.LeaderID, p.Term)
				}
				if now.Term == p.Term && now.LeaderID != p.LeaderID {
					return nil, vt.Failf(prop+"/leader-changed-within-term", di, "%s: shard %d leader of term %d changed %d -> %d", name, s, p.Term, p.LeaderID, now.LeaderID)
				}
			}
			if now.ConfigChangeIndex < p.ConfigChangeIndex {
				return nil, vt.Failf(prop+"/membership-regressed", di, "%s: shard %d config change index went from %d to %d", name, s, p.ConfigChangeIndex, now.ConfigChangeIndex)
			}
			prev[s] = now
		}
	}
	out := map[uint64]final{}
	for s := range shards {
		v := main.ShardInfo(s)
		out[s] = final{Leader: v.LeaderID, Term: v.Term, CCI: v.ConfigChangeIndex, Replicas: v.Replicas}
	}
	// Copy() must report the same records
	for _, v := range main.Copy() {
		f := out[v.ShardID]
		if f.Leader != v.LeaderID || f.Term != v.Term || f.CCI != v.ConfigChangeIndex {
			return nil, vt.Failf(prop+"/copy-differs", len(order), "%s: copy() of shard %d differs from shardInfo()", name, v.ShardID)
		}
	}
	return out, nil
}

func sameReplicas(a, b map[uint64]string) bool {
	if len(a) == 0 && len(b) == 0 {
		return true
	}
	return reflect.DeepEqual(a, b)
}

func run(c Case, o *vt.Obs) *vt.Failure {
	// model: max-term leader among updates that name one; max-CCI membership
	want := map[uint64]final{}
	terms := map[uint64]map[uint64]bool{}
	noLeaderAtTop := false
	for _, u := range c.Updates {
		f := want[u.Shard]
		if u.Leader != 0 && (f.Leader == 0 || u.Term > f.Term) {
			f.Leader, f.Term = u.Leader, u.Term
		}
		if u.CCI > f.CCI {
			f.CCI, f.Replicas = u.CCI, u.Replicas
		}
		want[u.Shard] = f
		if terms[u.Shard] == nil {
			terms[u.Shard] = map[uint64]bool{}
		}
		terms[u.Shard][u.Term] = true
	}
	for _, u := range c.Updates {
		if u.Leader == 0 && u.Term >= want[u.Shard].Term && want[u.Shard].Leader != 0 {
			noLeaderAtTop = true
		}
	}
	a, f := deliver(c, c.OrderA, "order A")
	if f != nil {
		return f
	}
	b, f := deliver(c, c.OrderB, "order B")
	if f != nil {
		return f
	}
	for s, w := range want {
		for name, got := range map[string]final{"order A": a[s], "order B": b[s]} {
			if got.Leader != w.Leader || got.Term != w.Term {
				return vt.Failf(prop+"/leader-not-max-term", 0, "%s: shard %d retains leader %d term %d, model (highest term with a leader) %d term %d", name, s, got.Leader, got.Term, w.Leader, w.Term)
			}
			if got.CCI != w.CCI || !sameReplicas(got.Replicas, w.Replicas) {
				return vt.Failf(prop+"/membership-not-max-cci", 0, "%s: shard %d membership cci %d %v, model cci %d %v", name, s, got.CCI, got.Replicas, w.CCI, w.Replicas)
			}
		}
	}
	maxTerms := 0
	for _, ts := range terms {
		maxTerms = max(maxTerms, len(ts))
	}
	if maxTerms >= 3 {
		o.Label(">=3-distinct-terms")
	}
	if noLeaderAtTop {
		o.Label("no-leader-update-at-or-above-retained-term")
	}
	o.NonTrivial = maxTerms >= 3 && noLeaderAtTop
	o.Describe = func() string {
		return fmt.Sprintf("updates %+v\norder A %+v\norder B %+v", c.Updates, c.OrderA, c.OrderB)
	}
	return nil
}

func TestC19(t *testing.T)        { vt.Check(t, prop, genCase, run) }
func TestC19Replay(t *testing.T)  { vt.Replay(t, prop, run) }
func TestC19Regress(t *testing.T) { vt.Regress(t, prop, "testdata", run) }
