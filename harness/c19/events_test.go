package c19

// TestC19Events: the view of a node is written by more than gossip merges.  cluster.Cluster re-reads the node's OWN raft information on
// every raft event (Notify) and on every memberlist membership callback (NotifyJoin / NotifyLeave / NotifyUpdate), and the memberlist
// delegate merges it in LocalState before it hands the view out.  This test drives a real Cluster value (built without a memberlist by the
// verif hook) and its delegate, both on ONE view: the sampled updates reach the view directly, through another node's gossiped state, or
// as the node's own raft information that one of those events makes it read; membership events naming any node id (also the current
// leader's) are interspersed.  Same oracle as TestC19: the final view is the model's (highest term with a leader, highest
// configuration-change index) whatever the order and the channel, and along the way a known leader is never erased or replaced by an
// older term.

import (
	"encoding/json"
	"fmt"
	"testing"

	"github.com/hashicorp/memberlist"
	"github.com/jamf/regatta/storage/cluster"
	"github.com/lni/dragonboat/v4"
	"pgregory.net/rapid"

	"verifharness/internal/vt"
)

type Event struct {
	// Kind: update (view.update) | via (another node's LocalState merged) | notify | join | leave | nodeupdate | localstate
	// (the last five: the updates become the node's own raft information first, then the event makes the node read it)
	Kind    string `json:"kind"`
	Updates []int  `json:"updates,omitempty"`
	Node    uint64 `json:"node,omitempty"` // join / leave / nodeupdate: the member's node id
}

type EventsCase struct {
	Updates []Update `json:"updates"`
	OrderA  []Event  `json:"order_a"`
	OrderB  []Event  `json:"order_b"`
}

func genEvents(t *rapid.T, n int, label string) []Event {
	perm := rapid.Permutation(seq(n)).Draw(t, label+".perm")
	extra := rapid.SliceOfN(rapid.IntRange(0, n-1), 0, n).Draw(t, label+".dups")
	all := append(perm, extra...)
	var out []Event
	for len(all) > 0 {
		k := rapid.IntRange(1, min(3, len(all))).Draw(t, label+".batch")
		e := Event{Kind: rapid.SampledFrom([]string{"update", "via", "via", "notify", "notify", "join", "leave", "leave", "nodeupdate", "localstate"}).Draw(t, label+".kind"), Updates: all[:k]}
		all = all[k:]
		if e.Kind == "join" || e.Kind == "leave" || e.Kind == "nodeupdate" {
			e.Node = uint64(rapid.IntRange(1, 3).Draw(t, label+".node"))
		}
		out = append(out, e)
		// membership events that carry no new raft information
		if rapid.IntRange(0, 2).Draw(t, label+".bare") == 0 {
			out = append(out, Event{Kind: rapid.SampledFrom([]string{"leave", "leave", "join", "nodeupdate"}).Draw(t, label+".barekind"), Node: uint64(rapid.IntRange(1, 3).Draw(t, label+".barenode"))})
		}
	}
	return out
}

func genEventsCase(t *rapid.T) EventsCase {
	c := EventsCase{Updates: genUpdates(t)}
	c.OrderA = genEvents(t, len(c.Updates), "A")
	c.OrderB = genEvents(t, len(c.Updates), "B")
	return c
}

func member(id uint64) *memberlist.Node {
	meta, _ := json.Marshal(&cluster.NodeMeta{ID: fmt.Sprintf("nh-%d", id), NodeID: id, RaftAddress: fmt.Sprintf("raft-%d", id), MemberAddress: fmt.Sprintf("member-%d", id)})
	return &memberlist.Node{Name: fmt.Sprintf("node-%d", id), Meta: meta}
}

func deliverEvents(c EventsCase, order []Event, name string) (map[uint64]final, *vt.Failure) {
	local := map[uint64]dragonboat.ShardInfo{} // the node's own raft information (one record per shard it hosts)
	cl, main := cluster.NewVerifCluster(func() []dragonboat.ShardInfo {
		var out []dragonboat.ShardInfo
		for _, si := range local {
			out = append(out, si)
		}
		return out
	})
	shards := map[uint64]bool{}
	for _, u := range c.Updates {
		shards[u.Shard] = true
	}
	prev := map[uint64]dragonboat.ShardView{}
	for ei, e := range order {
		var batch []dragonboat.ShardView
		for _, i := range e.Updates {
			batch = append(batch, toView(c.Updates[i]))
		}
		switch e.Kind {
		case "update":
			main.Update(batch)
		case "via":
			mid := cluster.NewVerifView(nil)
			mid.Update(batch)
			main.MergeRemoteState(mid.LocalState(false), false)
		default:
			fire := func() {
				switch e.Kind {
				case "notify":
					cl.Notify()
				case "join":
					cl.NotifyJoin(member(e.Node))
				case "leave":
					cl.NotifyLeave(member(e.Node))
				case "nodeupdate":
					cl.NotifyUpdate(member(e.Node))
				default:
					_ = main.LocalState(false)
				}
			}
			// a node holds ONE record per shard: two pieces of information about the same shard are two successive states of its raft
			// node, each followed by the event that makes the node read it
			seen := map[uint64]bool{}
			for _, i := range e.Updates {
				u := c.Updates[i]
				if seen[u.Shard] {
					fire()
					seen = map[uint64]bool{}
				}
				seen[u.Shard] = true
				local[u.Shard] = dragonboat.ShardInfo{ShardID: u.Shard, ReplicaID: 1, Replicas: u.Replicas, ConfigChangeIndex: u.CCI, LeaderID: u.Leader, Term: u.Term}
			}
			fire()
		}
		for s := range shards {
			now := cl.ShardInfo(s)
			p := prev[s]
			what := fmt.Sprintf("%s, event %d (%s node %d)", name, ei, e.Kind, e.Node)
			if p.LeaderID != 0 {
				if now.Term < p.Term {
					return nil, vt.Failf(prop+"/term-regressed", ei, "%s: shard %d leader term went from %d to %d", what, s, p.Term, now.Term)
				}
				if now.LeaderID == 0 {
					return nil, vt.Failf(prop+"/leader-erased", ei, "%s: shard %d known leader %d (term %d) replaced by 'no leader'", what, s, p.LeaderID, p.Term)
				}
				if now.Term == p.Term && now.LeaderID != p.LeaderID {
					return nil, vt.Failf(prop+"/leader-changed-within-term", ei, "%s: shard %d leader of term %d changed %d -> %d", what, s, p.Term, p.LeaderID, now.LeaderID)
				}
			}
			if now.ConfigChangeIndex < p.ConfigChangeIndex {
				return nil, vt.Failf(prop+"/membership-regressed", ei, "%s: shard %d config change index went from %d to %d", what, s, p.ConfigChangeIndex, now.ConfigChangeIndex)
			}
			prev[s] = now
		}
	}
	out := map[uint64]final{}
	for s := range shards {
		v := cl.ShardInfo(s)
		out[s] = final{Leader: v.LeaderID, Term: v.Term, CCI: v.ConfigChangeIndex, Replicas: v.Replicas}
	}
	return out, nil
}

func runEvents(c EventsCase, o *vt.Obs) *vt.Failure {
	want := map[uint64]final{}
	for _, u := range c.Updates {
		f := want[u.Shard]
		if u.Leader != 0 && (f.Leader == 0 || u.Term > f.Term) {
			f.Leader, f.Term = u.Leader, u.Term
		}
		if u.CCI > f.CCI {
			f.CCI, f.Replicas = u.CCI, u.Replicas
		}
		want[u.Shard] = f
	}
	a, f := deliverEvents(c, c.OrderA, "order A")
	if f != nil {
		return f
	}
	b, f := deliverEvents(c, c.OrderB, "order B")
	if f != nil {
		return f
	}
	for s, w := range want {
		for _, got := range []struct {
			name string
			f    final
		}{{"order A", a[s]}, {"order B", b[s]}} {
			if got.f.Leader != w.Leader || got.f.Term != w.Term {
				return vt.Failf(prop+"/leader-not-max-term", 0, "%s: shard %d retains leader %d term %d, model (highest term with a leader) %d term %d", got.name, s, got.f.Leader, got.f.Term, w.Leader, w.Term)
			}
			if got.f.CCI != w.CCI || !sameReplicas(got.f.Replicas, w.Replicas) {
				return vt.Failf(prop+"/membership-not-max-cci", 0, "%s: shard %d membership cci %d %v, model cci %d %v", got.name, s, got.f.CCI, got.f.Replicas, w.CCI, w.Replicas)
			}
		}
	}
	// non-trivial: the member that leaves is the leader the view holds at that moment is not tracked here; use the static rule
	leaveOfALeader, localThenGossip := false, false
	leaders := map[uint64]bool{}
	for _, u := range c.Updates {
		if u.Leader != 0 {
			leaders[u.Leader] = true
		}
	}
	for _, order := range [][]Event{c.OrderA, c.OrderB} {
		sawLocal := false
		for _, e := range order {
			if e.Kind == "leave" && leaders[e.Node] {
				leaveOfALeader = true
			}
			switch e.Kind {
			case "notify", "join", "leave", "nodeupdate", "localstate":
				if len(e.Updates) > 0 {
					sawLocal = true
				}
			case "via":
				if sawLocal {
					localThenGossip = true
				}
			}
		}
	}
	if leaveOfALeader {
		o.Label("member-with-the-node-id-of-a-leader-leaves")
	}
	if localThenGossip {
		o.Label("gossip-merged-after-own-raft-information")
	}
	o.NonTrivial = leaveOfALeader && localThenGossip
	o.Describe = func() string {
		return fmt.Sprintf("updates %+v\norder A %+v\norder B %+v", c.Updates, c.OrderA, c.OrderB)
	}
	return nil
}

func TestC19Events(t *testing.T)        { vt.Check(t, prop, genEventsCase, runEvents) }
func TestC19EventsReplay(t *testing.T)  { vt.Replay(t, prop, runEvents) }
func TestC19EventsRegress(t *testing.T) { vt.Regress(t, prop, "testdata", runEvents) }
