//go:build verif

package c19

// TestC19Engine: the consequence clause of C19 on the real wiring - "the leader id and term reported in response headers never move
// backwards in term".  A real 3-node regatta cluster in one process (three storage.Engine instances: one metadata raft group, every table
// replicated on all nodes, raft + memberlist gossip over loopback).  Actions: requests to any node (their headers are recorded),
// leadership transfers of the table shard, a node restart.  Oracle: per node the term reported for the shard never decreases over the
// sequence of its responses, a reported leader is the one raft elected in that term (cross-checked with every other report of the same
// term).  Whether every node ends up reporting the shard's actual (term, leader) is observed and labelled, not asserted (see the end of
// runEngine).

import (
	"context"
	"fmt"
	"sync"
	"testing"
	"time"

	"github.com/jamf/regatta/regattapb"
	"pgregory.net/rapid"

	"verifharness/internal/enginefx"
	"verifharness/internal/vt"
)

type EAct struct {
	Kind string `json:"kind"` // put | range | transfer | restart | pause
	Node int    `json:"node"` // request: serving node; transfer: target replica; restart: node
	N    int    `json:"n,omitempty"`
}

type EngineCase struct {
	Acts []EAct `json:"acts"`
}

func genEngine(t *rapid.T) EngineCase {
	c := EngineCase{}
	n := rapid.IntRange(6, 30).Draw(t, "n")
	for i := 0; i < n; i++ {
		k := rapid.IntRange(0, 11).Draw(t, "kind")
		a := EAct{Node: rapid.IntRange(0, 2).Draw(t, "node")}
		switch {
		case k <= 3:
			a.Kind = "put"
		case k <= 7:
			a.Kind = "range"
		case k <= 9:
			a.Kind = "transfer"
		case k == 10:
			a.Kind = "pause"
			a.N = rapid.SampledFrom([]int{1, 10, 50}).Draw(t, "ms")
		default:
			a.Kind = "restart"
		}
		c.Acts = append(c.Acts, a)
	}
	return c
}

var (
	mcOnce sync.Once
	mcFx   []*enginefx.Fixture
	mcErr  error
	mcNo   int
)

type report struct {
	node   int
	term   uint64
	leader uint64
	step   int
}

func runEngine(c EngineCase, o *vt.Obs) *vt.Failure {
	mcOnce.Do(func() { mcFx, mcErr = enginefx.StartCluster(3, enginefx.Opts{}) })
	if mcErr != nil {
		vt.Inconclusive("C19 cluster fixture: " + mcErr.Error())
		return nil
	}
	mcNo++
	name := fmt.Sprintf("hdr%d", mcNo)
	shard, err := enginefx.ClusterCreateTable(mcFx, name, 60*time.Second)
	if err != nil {
		vt.Inconclusive("C19 create table: " + err.Error())
		return nil
	}
	defer enginefx.ClusterDropTable(mcFx, name)
	var reports []report
	lastTerm := map[int]uint64{}
	leaderOfTerm := map[uint64]uint64{}
	record := func(step, node int, h *regattapb.ResponseHeader) *vt.Failure {
		if h == nil {
			return nil
		}
		if h.ShardId != shard {
			return vt.Failf(prop+"/header-shard", step, "node %d answered a request for table %s (shard %d) with a header for shard %d", node+1, name, shard, h.ShardId)
		}
		if h.ReplicaId != uint64(node+1) {
			return vt.Failf(prop+"/header-replica", step, "node %d reports replica id %d", node+1, h.ReplicaId)
		}
		reports = append(reports, report{node, h.RaftTerm, h.RaftLeaderId, step})
		if h.RaftTerm < lastTerm[node] {
			return vt.Failf(prop+"/header-term-regressed", step, "node %d reported term %d for shard %d and now reports term %d (leader %d)", node+1, lastTerm[node], shard, h.RaftTerm, h.RaftLeaderId)
		}
		lastTerm[node] = h.RaftTerm
		if h.RaftLeaderId != 0 {
			if l, ok := leaderOfTerm[h.RaftTerm]; ok && l != h.RaftLeaderId {
				return vt.Failf(prop+"/two-leaders-in-one-term", step, "term %d of shard %d was reported with leader %d and with leader %d", h.RaftTerm, shard, l, h.RaftLeaderId)
			}
			leaderOfTerm[h.RaftTerm] = h.RaftLeaderId
		}
		return nil
	}
	transfers, restarts := 0, 0
	for i, a := range c.Acts {
		f := mcFx[a.Node]
		switch a.Kind {
		case "put":
			ctx, cancel := context.WithTimeout(context.Background(), 10*time.Second)
			r, err := f.E.Put(ctx, &regattapb.PutRequest{Table: []byte(name), Key: []byte("k"), Value: []byte(fmt.Sprint(i))})
			cancel()
			if err == nil {
				if fl := record(i, a.Node, r.Header); fl != nil {
					return fl
				}
			}
		case "range":
			ctx, cancel := context.WithTimeout(context.Background(), 10*time.Second)
			r, err := f.E.Range(ctx, &regattapb.RangeRequest{Table: []byte(name), Key: []byte("k"), Linearizable: i%2 == 0})
			cancel()
			if err == nil {
				if fl := record(i, a.Node, r.Header); fl != nil {
					return fl
				}
			}
		case "transfer":
			if err := f.E.NodeHost.RequestLeaderTransfer(shard, uint64(a.Node+1)); err == nil {
				transfers++
			}
			time.Sleep(20 * time.Millisecond)
		case "pause":
			time.Sleep(time.Duration(a.N) * time.Millisecond)
		case "restart":
			if err := f.Restart(); err != nil {
				vt.Inconclusive("C19 node restart: " + err.Error())
				return nil
			}
			_ = f.E.Manager.VerifReconcile()
			if err := f.WaitTablePatient(name, 30*time.Second); err != nil {
				vt.Inconclusive(fmt.Sprintf("C19 table on restarted node %d: %v", a.Node+1, err))
				return nil
			}
			delete(lastTerm, a.Node) // a restarted node rebuilds its view; raft terms only grow, which the final agreement check covers
			restarts++
		}
	}
	// quiet: once a node has looked at its own current raft information again (Cluster.Notify - what the next raft event does; regatta
	// re-reads the NodeHost's shard list on every event instead of using the event's payload, and dragonboat may deliver a leader event
	// before that list shows the new leader, so without a further event a node can lag behind its own raft state) every node's
	// headers report the shard's actual leader and term.  Leadership can still move while we look: retried, and given up silently
	// (label only) when the time budget is used up - staleness is not a statement of C19, regressions are and stay asserted.
	deadline := time.Now().Add(20 * time.Second)
	for {
		for _, f := range mcFx {
			f.E.Cluster.Notify()
		}
		leader, term, valid, lerr := mcFx[0].E.NodeHost.GetLeaderID(shard)
		agree := lerr == nil && valid
		for n, f := range mcFx {
			ctx, cancel := context.WithTimeout(context.Background(), 5*time.Second)
			r, err := f.E.Range(ctx, &regattapb.RangeRequest{Table: []byte(name), Key: []byte("k")})
			cancel()
			if err != nil {
				agree = false
				continue
			}
			if fl := record(len(c.Acts), n, r.Header); fl != nil {
				return fl
			}
			if r.Header.RaftTerm != term || r.Header.RaftLeaderId != leader {
				agree = false
			}
		}
		if agree {
			o.Label("headers-settled-on-the-actual-leader")
			break
		}
		if time.Now().After(deadline) {
			o.Label("headers-not-settled-within-budget")
			break
		}
		time.Sleep(50 * time.Millisecond)
	}
	terms := map[uint64]bool{}
	for _, r := range reports {
		terms[r.term] = true
	}
	if transfers > 0 {
		o.Label("leadership-transfer")
	}
	if restarts > 0 {
		o.Label("node-restart")
	}
	o.LabelN("header-reports", len(reports))
	o.NonTrivial = len(terms) >= 2
	o.Describe = func() string { return fmt.Sprintf("%+v; %d reports over %d terms", c.Acts, len(reports), len(terms)) }
	return nil
}

func TestC19Engine(t *testing.T)        { vt.Check(t, prop, genEngine, runEngine) }
func TestC19EngineReplay(t *testing.T)  { vt.Replay(t, prop, runEngine) }
func TestC19EngineRegress(t *testing.T) { vt.Regress(t, prop, "testdata", runEngine) }
