//go:build verif

package c19

// TestC19Engine: the consequence clause of C19 on the real wiring - "the leader id and term reported in response headers never move
// backwards in term".  A real 3-node regatta cluster in one process (three storage.Engine instances: one metadata raft group, every table
// replicated on all nodes, raft + memberlist gossip over loopback).  Actions: requests to any node (their headers are recorded),
// leadership transfers of the table shard, a node restart.  Oracle: per node the term reported for the shard never decreases over the
// sequence of its responses, a reported leader is the one raft elected in that term (cross-checked with every other report of the same
// term).  Whether every node ends up reporting the shard's actual (term, leader) is observed and labelled, not asserted (see the end of
// runEngine).

import (
	"context"
	"fmt"
	"sync"
	"testing"
	"time"

	"github.com/jamf/regatta/regattapb"
	"pgregory.net/rapid"

	"verifharness/internal/enginefx"
	"verifharness/internal/vt"
)

type EAct struct {
	Kind string `json:"kind"` // put | range | transfer | restart | pause
	Node int    `json:"node"` // request: serving node; transfer: target replica; restart: node
	N    int    `json:"n,omitempty"`
}

type EngineCase struct {
	Acts []EAct `json:"acts"`
	// Stream: the table also holds three pairs of 1.5 MiB; acts stream-open / stream-next drain a range read over them lazily
	Stream bool `json:"stream,omitempty"`
}

func genEngine(t *rapid.T) EngineCase {
	c := EngineCase{}
	n := rapid.IntRange(6, 30).Draw(t, "n")
	for i := 0; i < n; i++ {
		k := rapid.IntRange(0, 11).Draw(t, "kind")
		a := EAct{Node: rapid.IntRange(0, 2).Draw(t, "node")}
		switch {
		case k <= 3:
			a.Kind = "put"
		case k <= 7:
			a.Kind = "range"
		case k <= 9:
			a.Kind = "transfer"
		case k == 10:
			a.Kind = "pause"
			a.N = rapid.SampledFrom([]int{1, 10, 50}).Draw(t, "ms")
		default:
			a.Kind = "restart"
		}
		c.Acts = append(c.Acts, a)
	}
	if rapid.IntRange(0, 2).Draw(t, "streams") == 0 {
		// a streamed range read of several messages is opened on a node and drained one message at a time while the history goes
		// on: every message carries a header of its own, produced when the message is (seeded change C19-K: the header of a stream
		// was built once when the stream was opened - a message sent after a leader change reported the older term again)
		c.Stream = true
		for i, k := 0, rapid.IntRange(1, 3).Draw(t, "nstreams"); i < k; i++ {
			at := rapid.IntRange(0, len(c.Acts)).Draw(t, "stream.at")
			node := rapid.IntRange(0, 2).Draw(t, "stream.node")
			acts := append([]EAct(nil), c.Acts[:at]...)
			acts = append(acts, EAct{Kind: "stream-open", Node: node})
			rest := c.Acts[at:]
			for m := 0; m < 2; m++ {
				cut := rapid.IntRange(0, len(rest)).Draw(t, "stream.gap")
				acts = append(acts, rest[:cut]...)
				acts = append(acts, EAct{Kind: "transfer", Node: rapid.IntRange(0, 2).Draw(t, "stream.transfer")}, EAct{Kind: "range", Node: node}, EAct{Kind: "stream-next", Node: node})
				rest = rest[cut:]
			}
			c.Acts = append(acts, rest...)
		}
	}
	return c
}

// lazyStream drains a range stream one message at a time, each produced only when it is asked for.
type lazyStream struct {
	node int
	req  chan struct{}
	out  chan *regattapb.RangeResponse
	done chan struct{}
}

func openLazy(node int, seq func(func(*regattapb.RangeResponse) bool)) *lazyStream {
	s := &lazyStream{node: node, req: make(chan struct{}), out: make(chan *regattapb.RangeResponse), done: make(chan struct{})}
	go func() {
		defer close(s.done)
		if _, ok := <-s.req; !ok {
			return
		}
		seq(func(r *regattapb.RangeResponse) bool {
			select {
			case s.out <- r:
			case <-time.After(30 * time.Second):
				return false
			}
			_, ok := <-s.req
			return ok
		})
	}()
	return s
}

func (s *lazyStream) next() *regattapb.RangeResponse {
	select {
	case s.req <- struct{}{}:
	case <-s.done:
		return nil
	}
	select {
	case r := <-s.out:
		return r
	case <-s.done:
		return nil
	case <-time.After(30 * time.Second):
		return nil
	}
}

func (s *lazyStream) close() {
	defer func() { _ = recover() }()
	close(s.req)
}

var (
	mcOnce sync.Once
	mcFx   []*enginefx.Fixture
	mcErr  error
	mcNo   int
)

type report struct {
	node   int
	term   uint64
	leader uint64
	step   int
}

func runEngine(c EngineCase, o *vt.Obs) *vt.Failure {
	mcOnce.Do(func() { mcFx, mcErr = enginefx.StartCluster(3, enginefx.Opts{MaxInMemLogSize: 6 * 1024 * 1024}) })
	if mcErr != nil {
		vt.Inconclusive("C19 cluster fixture: " + mcErr.Error())
		return nil
	}
	mcNo++
	name := fmt.Sprintf("hdr%d", mcNo)
	shard, err := enginefx.ClusterCreateTable(mcFx, name, 60*time.Second)
	if err != nil {
		vt.Inconclusive("C19 create table: " + err.Error())
		return nil
	}
	defer enginefx.ClusterDropTable(mcFx, name)
	var reports []report
	lastTerm := map[int]uint64{}
	leaderOfTerm := map[uint64]uint64{}
	record := func(step, node int, h *regattapb.ResponseHeader) *vt.Failure {
		if h == nil {
			return nil
		}
		if h.ShardId != shard {
			return vt.Failf(prop+"/header-shard", step, "node %d answered a request for table %s (shard %d) with a header for shard %d", node+1, name, shard, h.ShardId)
		}
		if h.ReplicaId != uint64(node+1) {
			return vt.Failf(prop+"/header-replica", step, "node %d reports replica id %d", node+1, h.ReplicaId)
		}
		reports = append(reports, report{node, h.RaftTerm, h.RaftLeaderId, step})
		if h.RaftTerm < lastTerm[node] {
			return vt.Failf(prop+"/header-term-regressed", step, "node %d reported term %d for shard %d and now reports term %d (leader %d)", node+1, lastTerm[node], shard, h.RaftTerm, h.RaftLeaderId)
		}
		lastTerm[node] = h.RaftTerm
		if h.RaftLeaderId != 0 {
			if l, ok := leaderOfTerm[h.RaftTerm]; ok && l != h.RaftLeaderId {
				return vt.Failf(prop+"/two-leaders-in-one-term", step, "term %d of shard %d was reported with leader %d and with leader %d", h.RaftTerm, shard, l, h.RaftLeaderId)
			}
			leaderOfTerm[h.RaftTerm] = h.RaftLeaderId
		}
		return nil
	}
	transfers, restarts, streamed := 0, 0, 0
	if c.Stream {
		// three pairs of 1.5 MiB: a range read over them takes at least two messages
		big := make([]byte, 1536*1024)
		for i := range big {
			big[i] = byte(i*31 + 7)
		}
		for i := 0; i < 3; i++ {
			ctx, cancel := context.WithTimeout(context.Background(), 30*time.Second)
			_, err := mcFx[0].E.Put(ctx, &regattapb.PutRequest{Table: []byte(name), Key: []byte(fmt.Sprintf("s%d", i)), Value: big})
			cancel()
			if err != nil {
				vt.Inconclusive("C19 loading the streamed pairs: " + err.Error())
				return nil
			}
		}
	}
	var stream *lazyStream
	defer func() {
		if stream != nil {
			stream.close()
		}
	}()
	for i, a := range c.Acts {
		f := mcFx[a.Node]
		switch a.Kind {
		case "stream-open":
			if stream != nil {
				stream.close()
				stream = nil
			}
			ctx, cancel := context.WithTimeout(context.Background(), 60*time.Second)
			defer cancel()
			seq, err := f.E.IterateRange(ctx, &regattapb.RangeRequest{Table: []byte(name), Key: []byte("s"), RangeEnd: []byte("t")})
			if err != nil {
				continue
			}
			stream = openLazy(a.Node, seq)
			if r := stream.next(); r != nil {
				if fl := record(i, a.Node, r.Header); fl != nil {
					return fl
				}
			}
		case "stream-next":
			if stream == nil || stream.node != a.Node {
				continue
			}
			if r := stream.next(); r != nil {
				streamed++
				if fl := record(i, a.Node, r.Header); fl != nil {
					fl.Msg += " [a message of a streamed range read opened earlier on that node]"
					return fl
				}
			}
		case "put":
			ctx, cancel := context.WithTimeout(context.Background(), 10*time.Second)
			r, err := f.E.Put(ctx, &regattapb.PutRequest{Table: []byte(name), Key: []byte("k"), Value: []byte(fmt.Sprint(i))})
			cancel()
			if err == nil {
				if fl := record(i, a.Node, r.Header); fl != nil {
					return fl
				}
			}
		case "range":
			ctx, cancel := context.WithTimeout(context.Background(), 10*time.Second)
			r, err := f.E.Range(ctx, &regattapb.RangeRequest{Table: []byte(name), Key: []byte("k"), Linearizable: i%2 == 0})
			cancel()
			if err == nil {
				if fl := record(i, a.Node, r.Header); fl != nil {
					return fl
				}
			}
		case "transfer":
			if err := f.E.NodeHost.RequestLeaderTransfer(shard, uint64(a.Node+1)); err == nil {
				transfers++
			}
			time.Sleep(20 * time.Millisecond)
		case "pause":
			time.Sleep(time.Duration(a.N) * time.Millisecond)
		case "restart":
			if stream != nil && stream.node == a.Node {
				stream.close()
				stream = nil
			}
			if err := f.Restart(); err != nil {
				vt.Inconclusive("C19 node restart: " + err.Error())
				return nil
			}
			_ = f.E.Manager.VerifReconcile()
			if err := f.WaitTablePatient(name, 30*time.Second); err != nil {
				vt.Inconclusive(fmt.Sprintf("C19 table on restarted node %d: %v", a.Node+1, err))
				return nil
			}
			delete(lastTerm, a.Node) // a restarted node rebuilds its view; raft terms only grow, which the final agreement check covers
			restarts++
		}
	}
	// quiet: once a node has looked at its own current raft information again (Cluster.Notify - what the next raft event does; regatta
	// re-reads the NodeHost's shard list on every event instead of using the event's payload, and dragonboat may deliver a leader event
	// before that list shows the new leader, so without a further event a node can lag behind its own raft state) every node's
	// headers report the shard's actual leader and term.  Leadership can still move while we look: retried, and given up silently
	// (label only) when the time budget is used up - staleness is not a statement of C19, regressions are and stay asserted.
	deadline := time.Now().Add(20 * time.Second)
	for {
		for _, f := range mcFx {
			f.E.Cluster.Notify()
		}
		leader, term, valid, lerr := mcFx[0].E.NodeHost.GetLeaderID(shard)
		agree := lerr == nil && valid
		for n, f := range mcFx {
			ctx, cancel := context.WithTimeout(context.Background(), 5*time.Second)
			r, err := f.E.Range(ctx, &regattapb.RangeRequest{Table: []byte(name), Key: []byte("k")})
			cancel()
			if err != nil {
				agree = false
				continue
			}
			if fl := record(len(c.Acts), n, r.Header); fl != nil {
				return fl
			}
			if r.Header.RaftTerm != term || r.Header.RaftLeaderId != leader {
				agree = false
			}
		}
		if agree {
			o.Label("headers-settled-on-the-actual-leader")
			break
		}
		if time.Now().After(deadline) {
			o.Label("headers-not-settled-within-budget")
			break
		}
		time.Sleep(50 * time.Millisecond)
	}
	terms := map[uint64]bool{}
	for _, r := range reports {
		terms[r.term] = true
	}
	if transfers > 0 {
		o.Label("leadership-transfer")
	}
	if streamed > 0 {
		o.Label("headers-of-later-messages-of-a-streamed-read")
	}
	if restarts > 0 {
		o.Label("node-restart")
	}
	o.LabelN("header-reports", len(reports))
	o.NonTrivial = len(terms) >= 2
	o.Describe = func() string { return fmt.Sprintf("%+v; %d reports over %d terms", c.Acts, len(reports), len(terms)) }
	return nil
}

func TestC19Engine(t *testing.T)        { vt.Check(t, prop, genEngine, runEngine) }
func TestC19EngineReplay(t *testing.T)  { vt.Replay(t, prop, runEngine) }
func TestC19EngineRegress(t *testing.T) { vt.Regress(t, prop, "testdata", runEngine) }
