// C18 — wire codecs and stream framing are lossless for every message and chunking.
package c18

import (
	"bytes"
	"context"
	"fmt"
	"io"
	"os"
	"slices"
	"sort"
	"strings"
	"sync"
	"testing"

	"github.com/jamf/regatta/regattapb"
	_ "github.com/jamf/regatta/regattaserver" // registers the codec and the compressors exactly as the server does
	"github.com/jamf/regatta/replication/snapshot"
	"google.golang.org/grpc/encoding"
	"google.golang.org/grpc/metadata"
	"google.golang.org/protobuf/proto"
	"google.golang.org/protobuf/reflect/protoreflect"
	"google.golang.org/protobuf/reflect/protoregistry"
	"pgregory.net/rapid"

	"verifharness/internal/vt"
)

const prop = "C18"

// ---- generic random message generation over the protobuf descriptors ---------------------------------

var apiTypes = func() []protoreflect.MessageType {
	var out []protoreflect.MessageType
	protoregistry.GlobalTypes.RangeMessages(func(mt protoreflect.MessageType) bool {
		n := string(mt.Descriptor().FullName())
		for _, p := range []string{"regatta.v1.", "mvcc.v1.", "replication.v1.", "maintenance.v1."} {
			if strings.HasPrefix(n, p) && !mt.Descriptor().IsMapEntry() {
				out = append(out, mt)
			}
		}
		return true
	})
	sort.Slice(out, func(i, j int) bool { return out[i].Descriptor().FullName() < out[j].Descriptor().FullName() })
	return out
}()

func genBytes(t *rapid.T, label string) []byte {
	switch rapid.IntRange(0, 9).Draw(t, label+".bclass") {
	case 0:
		return []byte{}
	case 1:
		return []byte{0}
	case 2:
		n := rapid.SampledFrom([]int{127, 128, 129, 1024, 16383, 16384, 16385, 70000}).Draw(t, label+".blen") // varint length boundaries
		return bytes.Repeat([]byte{rapid.Byte().Draw(t, label+".bfill")}, n)
	default:
		return rapid.SliceOfN(rapid.Byte(), 1, 12).Draw(t, label+".b")
	}
}

func genScalar(t *rapid.T, fd protoreflect.FieldDescriptor, label string) protoreflect.Value {
	switch fd.Kind() {
	case protoreflect.BoolKind:
		return protoreflect.ValueOfBool(rapid.Bool().Draw(t, label))
	case protoreflect.EnumKind:
		vals := fd.Enum().Values()
		if rapid.IntRange(0, 6).Draw(t, label+".unknownenum") == 0 {
			return protoreflect.ValueOfEnum(protoreflect.EnumNumber(rapid.IntRange(50, 60).Draw(t, label)))
		}
		return protoreflect.ValueOfEnum(vals.Get(rapid.IntRange(0, vals.Len()-1).Draw(t, label)).Number())
	case protoreflect.Int32Kind, protoreflect.Sint32Kind, protoreflect.Sfixed32Kind:
		return protoreflect.ValueOfInt32(rapid.Int32().Draw(t, label))
	case protoreflect.Uint32Kind, protoreflect.Fixed32Kind:
		return protoreflect.ValueOfUint32(rapid.Uint32().Draw(t, label))
	case protoreflect.Int64Kind, protoreflect.Sint64Kind, protoreflect.Sfixed64Kind:
		return protoreflect.ValueOfInt64(rapid.OneOf(rapid.Int64(), rapid.SampledFrom([]int64{0, -1, 1, 127, 128, 1 << 62, -1 << 63})).Draw(t, label))
	case protoreflect.Uint64Kind, protoreflect.Fixed64Kind:
		return protoreflect.ValueOfUint64(rapid.OneOf(rapid.Uint64(), rapid.SampledFrom([]uint64{0, 1, 127, 128, 1<<64 - 1})).Draw(t, label))
	case protoreflect.FloatKind:
		return protoreflect.ValueOfFloat32(float32(rapid.IntRange(-1000, 1000).Draw(t, label)))
	case protoreflect.DoubleKind:
		return protoreflect.ValueOfFloat64(float64(rapid.IntRange(-1000, 1000).Draw(t, label)))
	case protoreflect.StringKind:
		return protoreflect.ValueOfString(rapid.StringN(0, 12, 40).Draw(t, label))
	case protoreflect.BytesKind:
		return protoreflect.ValueOfBytes(genBytes(t, label))
	}
	panic("harness: unhandled kind " + fd.Kind().String())
}

// fill populates msg with generated content: every oneof arm, present/absent optional fields, nested messages.
func fill(t *rapid.T, msg protoreflect.Message, depth int, label string) {
	md := msg.Descriptor()
	chosen := map[string]int{}
	for i := 0; i < md.Oneofs().Len(); i++ {
		oo := md.Oneofs().Get(i)
		if oo.IsSynthetic() {
			continue
		}
		chosen[string(oo.Name())] = rapid.IntRange(-1, oo.Fields().Len()-1).Draw(t, label+".oneof")
	}
	for i := 0; i < md.Fields().Len(); i++ {
		fd := md.Fields().Get(i)
		fl := fmt.Sprintf("%s.%s", label, fd.Name())
		if oo := fd.ContainingOneof(); oo != nil && !oo.IsSynthetic() {
			if chosen[string(oo.Name())] < 0 || oo.Fields().Get(chosen[string(oo.Name())]) != fd {
				continue
			}
		} else if rapid.IntRange(0, 3).Draw(t, fl+".skip") == 0 {
			continue // absent / default
		}
		isMsg := fd.Kind() == protoreflect.MessageKind || fd.Kind() == protoreflect.GroupKind
		if isMsg && depth >= 4 {
			continue
		}
		switch {
		case fd.IsMap():
			// google.protobuf.Struct style maps are not part of the hot path; keep them small
			if depth >= 2 {
				continue
			}
			n := rapid.IntRange(0, 2).Draw(t, fl+".mapn")
			mp := msg.Mutable(fd).Map()
			for j := 0; j < n; j++ {
				k := genScalar(t, fd.MapKey(), fl+".k").MapKey()
				if fd.MapValue().Kind() == protoreflect.MessageKind {
					v := mp.NewValue()
					fill(t, v.Message(), depth+1, fl+".v")
					mp.Set(k, v)
				} else {
					mp.Set(k, genScalar(t, fd.MapValue(), fl+".v"))
				}
			}
		case fd.IsList():
			n := rapid.IntRange(0, 3).Draw(t, fl+".n")
			lst := msg.Mutable(fd).List()
			for j := 0; j < n; j++ {
				if isMsg {
					v := lst.NewElement()
					fill(t, v.Message(), depth+1, fl)
					lst.Append(v)
				} else {
					lst.Append(genScalar(t, fd, fl))
				}
			}
		case isMsg:
			fill(t, msg.Mutable(fd).Message(), depth+1, fl)
		default:
			msg.Set(fd, genScalar(t, fd, fl))
		}
	}
}

// ---- part 1: codec round trip ------------------------------------------------------------------------

type CodecCase struct {
	Type  string `json:"type"`
	Wire  []byte `json:"wire"`  // canonical encoding (google protobuf) of the generated message
	Type2 string `json:"type2"` // pooled types: the message decoded into the receiver before it is recycled
	Wire2 []byte `json:"wire2"`
}

func genCodec(t *rapid.T) CodecCase {
	mt := apiTypes[rapid.IntRange(0, len(apiTypes)-1).Draw(t, "type")]
	if rapid.IntRange(0, 2).Draw(t, "favourhot") == 0 {
		// favour the hot-path types (and the two pooled ones)
		name := rapid.SampledFrom([]string{"mvcc.v1.Command", "replication.v1.SnapshotChunk", "regatta.v1.TxnRequest", "regatta.v1.TxnResponse", "replication.v1.ReplicateResponse", "regatta.v1.RangeResponse", "maintenance.v1.RestoreMessage"}).Draw(t, "hot")
		x, err := protoregistry.GlobalTypes.FindMessageByName(protoreflect.FullName(name))
		if err == nil {
			mt = x
		}
	}
	m := mt.New()
	fill(t, m, 0, "m")
	w, err := proto.MarshalOptions{Deterministic: true}.Marshal(m.Interface())
	if err != nil {
		panic(err)
	}
	c := CodecCase{Type: string(mt.Descriptor().FullName()), Wire: w}
	// previous content of a recycled receiver
	m2 := mt.New()
	fill(t, m2, 0, "prev")
	c.Type2 = c.Type
	c.Wire2, _ = proto.MarshalOptions{Deterministic: true}.Marshal(m2.Interface())
	return c
}

func newOf(name string) proto.Message {
	mt, err := protoregistry.GlobalTypes.FindMessageByName(protoreflect.FullName(name))
	if err != nil {
		panic(err)
	}
	return mt.New().Interface()
}

func runCodec(c CodecCase, o *vt.Obs) *vt.Failure {
	codec := encoding.GetCodec("proto")
	if codec == nil {
		return vt.Failf(prop+"/codec-not-registered", 0, "no codec registered under the name proto")
	}
	// the reference value, decoded by the canonical protobuf implementation
	want := newOf(c.Type)
	if err := proto.Unmarshal(c.Wire, want); err != nil {
		panic("harness: case does not decode: " + err.Error())
	}
	// encode with the registered codec
	enc, err := codec.Marshal(want)
	if err != nil {
		return vt.Failf(prop+"/marshal-error", 0, "%s: %v", c.Type, err)
	}
	// (a) decode into a fresh object
	got := newOf(c.Type)
	if err := codec.Unmarshal(enc, got); err != nil {
		return vt.Failf(prop+"/unmarshal-error", 1, "%s: %v", c.Type, err)
	}
	if !proto.Equal(want, got) {
		return vt.Failf(prop+"/codec-round-trip", 1, "%s: decode(encode(m)) != m\nwant %v\ngot  %v", c.Type, want, got)
	}
	// the registered codec's bytes are also valid for the canonical implementation (interoperability)
	chk := newOf(c.Type)
	if err := proto.Unmarshal(enc, chk); err != nil || !proto.Equal(want, chk) {
		return vt.Failf(prop+"/codec-wire-incompatible", 1, "%s: bytes produced by the registered codec do not decode to the same message with the canonical implementation (%v)", c.Type, err)
	}
	// (b) recycled objects, restricted to how regatta uses its two pools (decoding arbitrary messages into a recycled
	// Command is not something any regatta code path does, see DESIGN.md section 6)
	switch c.Type {
	case "replication.v1.SnapshotChunk":
		// the snapshot stream readers: a pooled chunk receives message after message (ReturnToVTPool / ResetVT in between)
		p := regattapb.SnapshotChunkFromVTPool()
		if err := codec.Unmarshal(append([]byte(nil), c.Wire2...), p); err != nil {
			panic("harness: previous content does not decode: " + err.Error())
		}
		p.ReturnToVTPool()
		r := regattapb.SnapshotChunkFromVTPool() // most likely the very same object
		if err := codec.Unmarshal(append([]byte(nil), enc...), r); err != nil {
			return vt.Failf(prop+"/unmarshal-error", 2, "%s (pooled receiver): %v", c.Type, err)
		}
		if !proto.Equal(want, r) {
			return vt.Failf(prop+"/recycled-receiver", 2, "%s: a receiver recycled through the pool after holding another message decodes differently\nwant %v\ngot  %v", c.Type, want, r)
		}
		r.ResetVT()
		if err := codec.Unmarshal(append([]byte(nil), c.Wire2...), r); err != nil {
			panic(err)
		}
		r.ResetVT()
		if err := codec.Unmarshal(append([]byte(nil), enc...), r); err != nil || !proto.Equal(want, r) {
			return vt.Failf(prop+"/recycled-receiver", 3, "%s: a receiver reset with ResetVT after holding another message decodes differently (%v)\nwant %v\ngot  %v", c.Type, err, want, r)
		}
		r.ReturnToVTPool()
		o.Label("pooled-receiver:SnapshotChunk")
		o.NonTrivial = true
	case "mvcc.v1.Command":
		// the two senders that build commands on pooled objects: fsm.writeCommand (table, PUT, kv) and the replication worker's
		// proposeBatch (SEQUENCE of received commands + leader index); the recycled object previously held the other shape
		wantCmd := want.(*regattapb.Command)
		prev := &regattapb.Command{}
		_ = proto.Unmarshal(c.Wire2, prev)
		build := func(dst *regattapb.Command, src *regattapb.Command, asSequence bool) {
			if asSequence {
				dst.Type = regattapb.Command_SEQUENCE
				dst.Sequence = append(dst.Sequence, src.Sequence...)
				dst.Sequence = append(dst.Sequence, src)
				li := uint64(len(src.Table))
				dst.LeaderIndex = &li
			} else {
				dst.Table = src.Table
				dst.Type = regattapb.Command_PUT
				dst.Kv = &regattapb.KeyValue{Key: src.Table, Value: src.RangeEnd}
			}
		}
		for _, firstSeq := range []bool{false, true} {
			p := regattapb.CommandFromVTPool()
			build(p, prev, firstSeq)
			if _, err := codec.Marshal(p); err != nil {
				return vt.Failf(prop+"/marshal-error", 2, "pooled command: %v", err)
			}
			p.ReturnToVTPool()
			r := regattapb.CommandFromVTPool()
			build(r, wantCmd, !firstSeq)
			encR, err := codec.Marshal(r)
			if err != nil {
				return vt.Failf(prop+"/marshal-error", 2, "pooled command: %v", err)
			}
			fresh := &regattapb.Command{}
			build(fresh, wantCmd, !firstSeq)
			dec := &regattapb.Command{}
			if err := codec.Unmarshal(append([]byte(nil), encR...), dec); err != nil || !proto.Equal(fresh, dec) {
				return vt.Failf(prop+"/recycled-sender", 2, "a command built on a recycled pooled object (the way writeCommand / proposeBatch do) encodes differently from the same command built on a fresh object (%v)\nwant %v\ngot  %v", err, fresh, dec)
			}
			r.ReturnToVTPool()
		}
		o.Label("pooled-sender:Command")
		o.NonTrivial = true
	}
	oneofSet := false
	want.ProtoReflect().Range(func(fd protoreflect.FieldDescriptor, _ protoreflect.Value) bool {
		if oo := fd.ContainingOneof(); oo != nil && !oo.IsSynthetic() {
			oneofSet = true
		}
		return true
	})
	if oneofSet {
		o.Label("oneof-set")
		o.NonTrivial = true
	}
	o.Label("type:" + c.Type)
	o.Describe = func() string { return fmt.Sprintf("%s %v", c.Type, want) }
	return nil
}

func TestC18Codec(t *testing.T)        { vt.Check(t, prop, genCodec, runCodec) }
func TestC18CodecReplay(t *testing.T)  { vt.Replay(t, prop, runCodec) }
func TestC18CodecRegress(t *testing.T) { vt.Regress(t, prop, "testdata", runCodec) }

// ---- part 2: compressors under concurrent use ------------------------------------------------------------

type Payload struct {
	Kind string `json:"kind"` // zeros | random | text | literal
	N    int    `json:"n"`
	Seed int    `json:"seed"`
	B    []byte `json:"b,omitempty"`
}

func (p Payload) Bytes() []byte {
	switch p.Kind {
	case "literal":
		return p.B
	case "zeros":
		return make([]byte, p.N)
	case "text":
		return bytes.Repeat([]byte("regatta-"), p.N/8+1)[:p.N]
	default:
		// xorshift: incompressible, reproducible without any RNG of the harness' own
		b := make([]byte, p.N)
		x := uint64(p.Seed)*2654435761 + 88172645463325252
		for i := range b {
			x ^= x << 13
			x ^= x >> 7
			x ^= x << 17
			b[i] = byte(x)
		}
		return b
	}
}

type CompCase struct {
	Name     string    `json:"name"` // gzip | snappy | zstd
	Payloads []Payload `json:"payloads"`
	Workers  int       `json:"workers"`
	Rounds   int       `json:"rounds"` // round trips per worker and payload (many rounds only with small payloads)
	// WriteChunk > 0: the payload is handed to the compressing writer in pieces of this size through ONE scratch buffer that is refilled
	// after every Write (io.Writer: "Write must not retain p") - newer gRPC versions write a message buffer by buffer and recycle the buffers
	WriteChunk int `json:"write_chunk,omitempty"`
}

func genComp(t *rapid.T) CompCase {
	c := CompCase{Name: rapid.SampledFrom([]string{"gzip", "snappy", "zstd"}).Draw(t, "name"), Workers: rapid.SampledFrom([]int{1, 4, 16, 64}).Draw(t, "workers")}
	n := rapid.IntRange(1, 6).Draw(t, "n")
	maxBig := 1 << 20
	if vt.Thorough() {
		maxBig = 8 << 20
	}
	c.Rounds = rapid.SampledFrom([]int{3, 3, 30, 400}).Draw(t, "rounds")
	if rapid.IntRange(0, 2).Draw(t, "chunked") == 0 {
		c.WriteChunk = rapid.SampledFrom([]int{7, 100, 4096, 65536, 70000}).Draw(t, "writechunk")
	}
	for i := 0; i < n; i++ {
		p := Payload{Seed: rapid.IntRange(1, 1<<20).Draw(t, "seed")}
		if c.Rounds > 3 {
			// hammering the pooled state: many quick round trips of small payloads
			p.Kind, p.N = rapid.SampledFrom([]string{"zeros", "random", "text"}).Draw(t, "kind"), rapid.IntRange(1, 2000).Draw(t, "smalln")
			c.Payloads = append(c.Payloads, p)
			continue
		}
		switch rapid.IntRange(0, 9).Draw(t, "pclass") {
		case 0:
			p.Kind, p.B = "literal", []byte{}
		case 1:
			p.Kind, p.B = "literal", rapid.SliceOfN(rapid.Byte(), 1, 64).Draw(t, "lit")
		case 2:
			p.Kind, p.N = rapid.SampledFrom([]string{"zeros", "random", "text"}).Draw(t, "kind"), rapid.IntRange(64*1024, maxBig).Draw(t, "big")
		default:
			p.Kind, p.N = rapid.SampledFrom([]string{"zeros", "random", "text"}).Draw(t, "kind"), rapid.SampledFrom([]int{1, 100, 4095, 4096, 4097, 65535, 65536, 65537, 100000}).Draw(t, "n")
		}
		c.Payloads = append(c.Payloads, p)
	}
	return c
}

func roundTrip(comp encoding.Compressor, data []byte) error { return roundTripChunked(comp, data, 0) }

func roundTripChunked(comp encoding.Compressor, data []byte, chunk int) error {
	var buf bytes.Buffer
	w, err := comp.Compress(&buf)
	if err != nil {
		return fmt.Errorf("Compress: %w", err)
	}
	if chunk > 0 {
		scratch := make([]byte, chunk)
		for rest := data; len(rest) > 0; {
			n := copy(scratch, rest)
			if wn, err := w.Write(scratch[:n]); err != nil || wn != n {
				return fmt.Errorf("write of %d bytes: n=%d err=%v", n, wn, err)
			}
			rest = rest[n:]
			for i := range scratch[:n] { // the caller owns the buffer again
				scratch[i] = 0xEE
			}
		}
	} else if _, err := w.Write(data); err != nil { // older gRPC: the whole message in one Write
		return fmt.Errorf("write: %w", err)
	}
	if err := w.Close(); err != nil {
		return fmt.Errorf("close: %w", err)
	}
	r, err := comp.Decompress(bytes.NewReader(buf.Bytes()))
	if err != nil {
		return fmt.Errorf("Decompress: %w", err)
	}
	out, err := io.ReadAll(r) // one read-to-EOF, as gRPC drains it
	if err != nil {
		return fmt.Errorf("read: %w", err)
	}
	if !bytes.Equal(out, data) {
		return fmt.Errorf("payload of %d bytes came back as %d bytes (first difference at %d)", len(data), len(out), firstDiff(out, data))
	}
	return nil
}

func firstDiff(a, b []byte) int {
	for i := 0; i < len(a) && i < len(b); i++ {
		if a[i] != b[i] {
			return i
		}
	}
	return min(len(a), len(b))
}

func runComp(c CompCase, o *vt.Obs) *vt.Failure {
	comp := encoding.GetCompressor(c.Name)
	if comp == nil {
		return vt.Failf(prop+"/compressor-not-registered", 0, "%s", c.Name)
	}
	datas := make([][]byte, len(c.Payloads))
	for i, p := range c.Payloads {
		datas[i] = p.Bytes()
	}
	var wg sync.WaitGroup
	var mu sync.Mutex
	var fail *vt.Failure
	for wkr := 0; wkr < c.Workers; wkr++ {
		wg.Add(1)
		go func(wkr int) {
			defer wg.Done()
			for round := 0; round < max(c.Rounds, 1); round++ {
				for i := range datas {
					idx := (i + wkr) % len(datas)
					if err := roundTripChunked(comp, datas[idx], c.WriteChunk); err != nil {
						mu.Lock()
						if fail == nil {
							fail = vt.Failf(prop+"/compressor-round-trip:"+c.Name, idx, "%s, %d concurrent users, payload %d (%s, %d bytes): %v", c.Name, c.Workers, idx, c.Payloads[idx].Kind, len(datas[idx]), err)
						}
						mu.Unlock()
						return
					}
				}
			}
		}(wkr)
	}
	wg.Wait()
	if fail != nil {
		return fail
	}
	o.Label("compressor:" + c.Name)
	if c.WriteChunk > 0 {
		o.Label("payload-written-in-pieces-through-a-reused-buffer")
	}
	if c.Workers > 1 {
		o.Label("concurrent-users")
	}
	o.LabelN("round-trips:"+c.Name, c.Workers*max(c.Rounds, 1)*len(c.Payloads))
	o.NonTrivial = c.Workers > 1 && len(c.Payloads) >= 2
	o.Describe = func() string { return fmt.Sprintf("%s workers=%d payloads=%+v", c.Name, c.Workers, c.Payloads) }
	return nil
}

func TestC18Comp(t *testing.T)        { vt.Check(t, prop, genComp, runComp) }
func TestC18CompReplay(t *testing.T)  { vt.Replay(t, prop, runComp) }
func TestC18CompRegress(t *testing.T) { vt.Regress(t, prop, "testdata", runComp) }

// ---- part 3: snapshot file + chunk stream framing ----------------------------------------------------------

type FrameCase struct {
	Msgs   []Payload `json:"msgs"`   // the command byte strings written to the snapshot file (non-empty)
	Chunks []int     `json:"chunks"` // read sizes handed to snapshot.Writer, cycled (chunk boundaries)
	// ViaWrite: the raw file is handed to Writer.Write in pieces of the given sizes (0 = a zero-length write) instead of Writer.ReadFrom
	ViaWrite bool `json:"via_write,omitempty"`
}

// blockSize is the amount of uncompressed data the snapshot file's buffered snappy writer puts into one block when it is fed
// with writes smaller than a block (measured: 65528); a reader never returns data across a block boundary in one Read.
const blockSize = 65528

func genFrame(t *rapid.T) FrameCase {
	c := FrameCase{}
	n := rapid.IntRange(0, 12).Draw(t, "n")
	// aligned cases keep every record below one block, so that block boundaries sit at multiples of blockSize and records can be
	// aimed at them
	aligned := rapid.Bool().Draw(t, "aligned")
	off := 0 // uncompressed offset in the snapshot file: every record is an 8-byte length prefix + payload
	for i := 0; i < n; i++ {
		p := Payload{Seed: rapid.IntRange(1, 1<<20).Draw(t, "seed")}
		cls := rapid.IntRange(0, 9).Draw(t, "class")
		switch {
		case cls == 0 && !aligned:
			p.Kind, p.N = "random", rapid.IntRange(100000, 1<<20).Draw(t, "big")
		case cls == 1:
			p.Kind, p.N = "zeros", rapid.IntRange(1, 60000).Draw(t, "zeros")
		case cls <= 5 && aligned:
			// the NEXT record's length prefix starts 1-7 bytes before a block boundary (k=0: exactly on it, k=8: ends on it)
			k := rapid.IntRange(0, 8).Draw(t, "straddle")
			target := ((off+8)/blockSize+1)*blockSize - k
			p.Kind, p.N = rapid.SampledFrom([]string{"random", "text"}).Draw(t, "kind"), target-(off+8)
			if p.N <= 0 {
				p.N += blockSize
			}
		default:
			p.Kind, p.N = rapid.SampledFrom([]string{"random", "text"}).Draw(t, "kind"), rapid.IntRange(1, 300).Draw(t, "small")
		}
		off += 8 + p.N
		c.Msgs = append(c.Msgs, p)
	}
	c.Chunks = rapid.SliceOfN(rapid.SampledFrom([]int{1, 2, 3, 7, 8, 9, 15, 16, 17, 100, 4096, 65536, 1 << 20}), 1, 6).Draw(t, "chunks")
	if rapid.IntRange(0, 2).Draw(t, "viaWrite") == 0 {
		// shipped through Writer.Write (what the snapshot server's buffered/compressing writers call), zero-length writes included
		c.ViaWrite = true
		c.Chunks = rapid.SliceOfN(rapid.SampledFrom([]int{0, 0, 1, 3, 8, 9, 100, 4096, 65536, 1 << 20}), 1, 6).Draw(t, "wchunks")
		if !slices.ContainsFunc(c.Chunks, func(x int) bool { return x > 0 }) {
			c.Chunks = append(c.Chunks, 4096)
		}
	}
	return c
}

// cycledReader hands out the underlying bytes in reads of the given sizes.
type cycledReader struct {
	r     io.Reader
	sizes []int
	i     int
}

func (c *cycledReader) Read(p []byte) (int, error) {
	n := c.sizes[c.i%len(c.sizes)]
	c.i++
	if n > len(p) {
		n = len(p)
	}
	return c.r.Read(p[:n])
}

// chunkPipe emulates the gRPC stream between snapshot.Writer (server side) and snapshot.Reader (client side):
// every chunk is marshalled by the registered codec and unmarshalled into the receiver the reader passes in.
type chunkPipe struct {
	codec  encoding.Codec
	frames [][]byte
	pos    int
	sizes  []int
}

func (p *chunkPipe) Send(m *regattapb.SnapshotChunk) error {
	b, err := p.codec.Marshal(m)
	if err != nil {
		return err
	}
	p.frames = append(p.frames, append([]byte(nil), b...))
	p.sizes = append(p.sizes, len(m.Data))
	return nil
}
func (p *chunkPipe) SetHeader(metadata.MD) error  { return nil }
func (p *chunkPipe) SendHeader(metadata.MD) error { return nil }
func (p *chunkPipe) SetTrailer(metadata.MD)       {}
func (p *chunkPipe) Context() context.Context     { return context.Background() }
func (p *chunkPipe) SendMsg(any) error            { return nil }
func (p *chunkPipe) RecvMsg(m any) error {
	if p.pos >= len(p.frames) {
		return io.EOF
	}
	f := p.frames[p.pos]
	p.pos++
	return p.codec.Unmarshal(f, m)
}
func (p *chunkPipe) Recv() (*regattapb.SnapshotChunk, error) {
	c := &regattapb.SnapshotChunk{}
	if err := p.RecvMsg(c); err != nil {
		return nil, err
	}
	return c, nil
}
func (p *chunkPipe) Header() (metadata.MD, error) { return nil, nil }
func (p *chunkPipe) Trailer() metadata.MD         { return nil }
func (p *chunkPipe) CloseSend() error             { return nil }

func runFrame(c FrameCase, o *vt.Obs) *vt.Failure {
	msgs := make([][]byte, len(c.Msgs))
	for i, m := range c.Msgs {
		msgs[i] = m.Bytes()
	}
	// 1. write the messages to a snapshot file
	sf, err := snapshot.NewTemp()
	if err != nil {
		vt.Inconclusive("C18 temp file: " + err.Error())
		return nil
	}
	defer func() { _ = sf.Close(); _ = os.Remove(sf.Path()) }()
	for i, m := range msgs {
		if n, err := sf.Write(m); err != nil || n != len(m) {
			return vt.Failf(prop+"/snapshot-file-write", i, "Write of %d bytes: n=%d err=%v", len(m), n, err)
		}
	}
	if err := sf.Sync(); err != nil {
		return vt.Failf(prop+"/snapshot-file-write", len(msgs), "Sync: %v", err)
	}
	if _, err := sf.Seek(0, io.SeekStart); err != nil {
		return vt.Failf(prop+"/snapshot-file-write", len(msgs), "Seek: %v", err)
	}
	// 2. ship the raw file as a chunk stream with generated chunk boundaries
	pipe := &chunkPipe{codec: encoding.GetCodec("proto")}
	if c.ViaWrite {
		w := &snapshot.Writer{Sender: pipe}
		raw, err := io.ReadAll(sf.File)
		if err != nil {
			return vt.Failf(prop+"/snapshot-file-read", 0, "%v", err)
		}
		empties := 0
		for i := 0; len(raw) > 0; i++ {
			n := min(c.Chunks[i%len(c.Chunks)], len(raw))
			if n == 0 {
				empties++
			}
			if wn, err := w.Write(raw[:n]); err != nil || wn != n {
				return vt.Failf(prop+"/chunk-writer", i, "Write of %d bytes: n=%d err=%v", n, wn, err)
			}
			raw = raw[n:]
		}
		if empties > 0 {
			o.Label("zero-length-chunk-in-stream")
		}
	} else if _, err := io.Copy(&snapshot.Writer{Sender: pipe}, &cycledReader{r: sf.File, sizes: c.Chunks}); err != nil {
		return vt.Failf(prop+"/chunk-writer", 0, "%v", err)
	}
	// 3. receive it the way the replication worker does and store it
	dst, err := os.CreateTemp(os.TempDir(), "c18-recv-*.bin")
	if err != nil {
		vt.Inconclusive("C18 temp file: " + err.Error())
		return nil
	}
	defer os.Remove(dst.Name())
	if _, err := io.Copy(dst, snapshot.Reader{Stream: pipe}); err != nil {
		return vt.Failf(prop+"/chunk-reader", 0, "%v", err)
	}
	_ = dst.Close()
	// 4. read it back message by message
	rf, err := snapshot.OpenFile(dst.Name())
	if err != nil {
		return vt.Failf(prop+"/snapshot-file-read", 0, "%v", err)
	}
	defer rf.Close()
	buf := make([]byte, 4*1024*1024)
	for i, want := range msgs {
		n, err := rf.Read(buf)
		if err != nil {
			return vt.Failf(prop+"/framing-lost-message", i, "message %d of %d: %v (chunk sizes %v)", i, len(msgs), err, c.Chunks)
		}
		if !bytes.Equal(buf[:n], want) {
			return vt.Failf(prop+"/framing-boundary-or-content", i, "message %d: read %d bytes, written %d bytes, first difference at %d (chunk sizes %v)", i, n, len(want), firstDiff(buf[:n], want), c.Chunks)
		}
	}
	if n, err := rf.Read(buf); err != io.EOF {
		return vt.Failf(prop+"/framing-extra-message", len(msgs), "after the last message: n=%d err=%v, want EOF", n, err)
	}
	small := false
	for _, s := range c.Chunks {
		if s < 8 {
			small = true
		}
	}
	if small && len(msgs) >= 2 {
		o.Label("chunk-boundary-inside-a-length-prefix")
		o.NonTrivial = true
	}
	offs := 0
	for _, m := range msgs[:max(0, len(msgs)-1)] {
		offs += 8 + len(m)
		if r := offs % blockSize; r > blockSize-8 {
			o.Label("length-prefix-straddles-a-64KiB-block-boundary")
			o.NonTrivial = true
		}
	}
	o.LabelN("chunks-shipped", len(pipe.frames))
	o.Describe = func() string {
		return fmt.Sprintf("%d messages %+v, chunk read sizes %v", len(c.Msgs), c.Msgs, c.Chunks)
	}
	return nil
}

func TestC18Frame(t *testing.T)        { vt.Check(t, prop, genFrame, runFrame) }
func TestC18FrameReplay(t *testing.T)  { vt.Replay(t, prop, runFrame) }
func TestC18FrameRegress(t *testing.T) { vt.Regress(t, prop, "testdata", runFrame) }

// ---- native fuzz target: arbitrary bytes through the registered codec ----------------------------------------

func FuzzC18(f *testing.F) {
	for _, name := range []string{"mvcc.v1.Command", "regatta.v1.TxnRequest", "replication.v1.SnapshotChunk"} {
		_ = name
	}
	cmd := &regattapb.Command{Table: []byte("t"), Type: regattapb.Command_PUT, Kv: &regattapb.KeyValue{Key: []byte("k"), Value: []byte("v")}}
	b, _ := cmd.MarshalVT()
	f.Add(uint8(0), b)
	txn := &regattapb.TxnRequest{Table: []byte("t"), Success: []*regattapb.RequestOp{{Request: &regattapb.RequestOp_RequestPut{RequestPut: &regattapb.RequestOp_Put{Key: []byte("k")}}}}}
	b2, _ := txn.MarshalVT()
	f.Add(uint8(1), b2)
	f.Add(uint8(2), []byte{0x0a, 0x00})
	f.Fuzz(func(t *testing.T, which uint8, data []byte) {
		mt := apiTypes[int(which)%len(apiTypes)]
		codec := encoding.GetCodec("proto")
		m := mt.New().Interface()
		if err := codec.Unmarshal(append([]byte(nil), data...), m); err != nil {
			return // rejected cleanly
		}
		ref := mt.New().Interface()
		if err := proto.Unmarshal(data, ref); err != nil {
			return // vtproto is more lenient than the canonical decoder on this input; not a round-trip statement
		}
		enc, err := codec.Marshal(m)
		if err != nil {
			t.Fatalf("VERIF-FAIL signature=C18/marshal-error %s: %v", mt.Descriptor().FullName(), err)
		}
		back := mt.New().Interface()
		if err := codec.Unmarshal(enc, back); err != nil || !proto.Equal(m, back) {
			t.Fatalf("VERIF-FAIL signature=C18/codec-round-trip %s: decode(encode(x)) != x (%v)", mt.Descriptor().FullName(), err)
		}
	})
}
