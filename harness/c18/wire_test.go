package c18

// TestC18Wire: the codec, the compressors and the snapshot framing where they are actually used - between real gRPC clients and a
// REAL `regatta leader` process (production server options, registered codec, registered compressors).
//
//   * concurrent writers: 2-12 clients put / transact pairs of one generated size class at the same moment (barrier per round),
//     each request naming its own table, key and value (all three carry the writer's id), optionally compressed with gzip / snappy /
//     zstd.  "Every API message survives encode/decode unchanged": afterwards each table holds exactly the pairs its writers sent -
//     a request whose table, key or value was exchanged with a neighbour's shows as a wrong or misplaced pair.
//   * backup / restore through the real Maintenance API with the real backup client (default client options, as `regatta backup`
//     uses them): a table with a long name and a tiny content, or with several MiB of incompressible values, is backed up, changed,
//     restored - it must hold the backed-up content again and no other table may appear ("a sequence of commands ... shipped as a chunk
//     stream is read back as the same sequence", whatever the size of the stream and of its messages).

import (
	"bytes"
	"context"
	"errors"
	"fmt"
	"io"
	"os"
	"sort"
	"sync"
	"testing"
	"time"

	"github.com/jamf/regatta/regattapb"
	"github.com/jamf/regatta/replication/backup"
	"google.golang.org/grpc"
	"google.golang.org/grpc/codes"
	"google.golang.org/grpc/credentials/insecure"
	"google.golang.org/grpc/status"
	"pgregory.net/rapid"

	"verifharness/internal/binfx"
	"verifharness/internal/replfx"
	"verifharness/internal/vt"
)

type WireCase struct {
	Mode       string `json:"mode"` // writers | backup-small | backup-big | backup-rerun (a second, smaller backup into the same directory)
	Compressor string `json:"compressor,omitempty"`
	Writers    int    `json:"writers,omitempty"`
	Rounds     int    `json:"rounds,omitempty"`
	KeySize    int    `json:"key_size,omitempty"`
	ValSize    int    `json:"val_size,omitempty"`
	Txn        bool   `json:"txn,omitempty"`      // writers send a transaction with two puts instead of a put
	Pairs      int    `json:"pairs,omitempty"`    // backup: number of pairs
	NameLen    int    `json:"name_len,omitempty"` // backup: length of the table name
	// backup: the restore is sent by a client that cuts the backup file into pieces of these sizes (round robin; 0 = an empty chunk)
	// instead of the stock client's own chunking; TrailingEmpty appends an empty chunk after the last byte
	Chunks        []int `json:"chunks,omitempty"`
	TrailingEmpty bool  `json:"trailing_empty,omitempty"`
}

// genChunks: in half of the backup cases the restore stream is cut by the harness - "whatever the chunk size and wherever chunk boundaries fall"
func genChunks(t *rapid.T, c WireCase) WireCase {
	if rapid.Bool().Draw(t, "own-chunking") {
		pool := []int{0, 1, 2, 7, 8, 9, 13, 64, 1000, 4096, 32 * 1024, 1 << 20, 3 << 20}
		if c.Mode == "backup-big" {
			pool = []int{0, 4096, 64 * 1024, 1<<20 - 1, 1 << 20, 3 << 20}
		}
		c.Chunks = rapid.SliceOfN(rapid.SampledFrom(pool), 1, 4).Draw(t, "chunks")
		if c.Mode != "backup-small" {
			// one-byte pieces of a large file are millions of messages
			big := false
			for _, n := range c.Chunks {
				big = big || n >= 4096
			}
			if !big {
				c.Chunks = append(c.Chunks, 64*1024)
			}
		}
		c.TrailingEmpty = rapid.Bool().Draw(t, "trailing-empty")
	}
	return c
}

func genWireCase(t *rapid.T) WireCase {
	switch rapid.IntRange(0, 9).Draw(t, "mode") {
	case 0, 1:
		return genChunks(t, WireCase{Mode: "backup-small", Pairs: rapid.IntRange(0, 3).Draw(t, "pairs"), NameLen: rapid.SampledFrom([]int{6, 13, 20, 31, 60}).Draw(t, "namelen"), ValSize: rapid.SampledFrom([]int{0, 1, 8, 40, 150}).Draw(t, "vsize")})
	case 3:
		// the backup directory is used again after the table shrank
		return genChunks(t, WireCase{Mode: "backup-rerun", Pairs: rapid.IntRange(3, 40).Draw(t, "pairs"), NameLen: 12, ValSize: rapid.SampledFrom([]int{8, 300, 5000}).Draw(t, "vsize")})
	case 2:
		// a snapshot file of several MiB that does not compress: full-size chunks
		return genChunks(t, WireCase{Mode: "backup-big", Pairs: rapid.IntRange(3, 5).Draw(t, "pairs"), NameLen: 12, ValSize: rapid.SampledFrom([]int{1 << 20, 2 << 20}).Draw(t, "vsize")})
	}
	c := WireCase{Mode: "writers",
		Compressor: rapid.SampledFrom([]string{"", "", "", "gzip", "snappy", "zstd"}).Draw(t, "compressor"),
		Writers:    rapid.IntRange(2, 12).Draw(t, "writers"),
		Rounds:     rapid.IntRange(1, 6).Draw(t, "rounds"),
		Txn:        rapid.IntRange(0, 3).Draw(t, "txn") == 0,
	}
	// size classes of the receive path: tiny, small, a few KiB, tens of KiB, hundreds of KiB
	switch rapid.IntRange(0, 4).Draw(t, "class") {
	case 0:
		c.KeySize, c.ValSize = 6, rapid.IntRange(0, 4).Draw(t, "v")
	case 1:
		c.KeySize, c.ValSize = rapid.IntRange(6, 40).Draw(t, "k"), rapid.IntRange(8, 150).Draw(t, "v")
	case 2:
		c.KeySize, c.ValSize = rapid.IntRange(6, 200).Draw(t, "k"), rapid.IntRange(300, 3500).Draw(t, "v")
	case 3:
		c.KeySize, c.ValSize = rapid.IntRange(6, 1000).Draw(t, "k"), rapid.IntRange(5000, 60000).Draw(t, "v")
	default:
		c.KeySize, c.ValSize = 16, rapid.IntRange(100_000, 900_000).Draw(t, "v")
		c.Writers = min(c.Writers, 6)
		c.Rounds = min(c.Rounds, 2)
	}
	return c
}

var (
	wireOnce sync.Once
	wireProc *binfx.Proc
	wireErr  error
	wireNo   int
)

func wireTables(p *binfx.Proc) ([]string, error) {
	ctx, cancel := context.WithTimeout(context.Background(), 20*time.Second)
	defer cancel()
	r, err := regattapb.NewTablesClient(p.Conn).List(ctx, &regattapb.ListTablesRequest{})
	if err != nil {
		return nil, err
	}
	var out []string
	for _, t := range r.Tables {
		out = append(out, t.Name)
	}
	sort.Strings(out)
	return out, nil
}

func wireCreate(p *binfx.Proc, name string) error {
	ctx, cancel := context.WithTimeout(context.Background(), 20*time.Second)
	defer cancel()
	if _, err := regattapb.NewTablesClient(p.Conn).Create(ctx, &regattapb.CreateTableRequest{Name: name}); err != nil {
		return err
	}
	return p.WaitTable(name, 30*time.Second)
}

func wireDrop(p *binfx.Proc, name string) {
	ctx, cancel := context.WithTimeout(context.Background(), 20*time.Second)
	defer cancel()
	_, _ = regattapb.NewTablesClient(p.Conn).Delete(ctx, &regattapb.DeleteTableRequest{Name: name})
}

// wireContent reads a whole table (streamed, so that large contents are no problem).
func wireContent(p *binfx.Proc, name string) (map[string]string, error) {
	ctx, cancel := context.WithTimeout(context.Background(), 60*time.Second)
	defer cancel()
	st, err := regattapb.NewKVClient(p.Conn).IterateRange(ctx, &regattapb.RangeRequest{Table: []byte(name), Key: []byte{0}, RangeEnd: []byte{0}, Linearizable: true})
	if err != nil {
		return nil, err
	}
	out := map[string]string{}
	for {
		m, err := st.Recv()
		if err != nil {
			if err.Error() == "EOF" {
				return out, nil
			}
			return nil, err
		}
		for _, kv := range m.Kvs {
			out[string(kv.Key)] = string(kv.Value)
		}
	}
}

func pad(prefix string, fill byte, size int) []byte {
	b := []byte(prefix)
	if len(b) >= size {
		return b
	}
	return append(b, bytes.Repeat([]byte{fill}, size-len(b))...)
}

func clipS(s string) string {
	if len(s) > 40 {
		return fmt.Sprintf("%s...(%d bytes)", s[:40], len(s))
	}
	return s
}

func diffContent(got, want map[string]string) error {
	for k, v := range want {
		g, ok := got[k]
		if !ok {
			return fmt.Errorf("pair %q is missing", clipS(k))
		}
		if g != v {
			return fmt.Errorf("key %q holds %q, sent was %q", clipS(k), clipS(g), clipS(v))
		}
	}
	for k, g := range got {
		if _, ok := want[k]; !ok {
			return fmt.Errorf("the table holds %q = %q, which nobody sent to it", clipS(k), clipS(g))
		}
	}
	return nil
}

func runWireCase(c WireCase, o *vt.Obs) *vt.Failure {
	wireOnce.Do(func() { wireProc, wireErr = binfx.Start(binfx.Opts{Role: "leader"}) })
	if wireErr != nil {
		vt.Inconclusive("C18 leader process: " + wireErr.Error())
		return nil
	}
	p := wireProc
	died := func() *vt.Failure {
		if p.Alive() {
			return nil
		}
		if p.KilledFromOutside() {
			vt.Inconclusive("C18 leader process killed from outside")
			return nil
		}
		return vt.Failf(prop+"/wire-process-died", 0, "the leader process ended: %v\n%s", p.ExitErr(), p.LogTail(1500))
	}
	wireNo++
	switch c.Mode {
	case "writers":
		tables := []string{fmt.Sprintf("wire%05d-aaaa", wireNo), fmt.Sprintf("wire%05d-bbbb", wireNo)}
		for _, tb := range tables {
			if err := wireCreate(p, tb); err != nil {
				vt.Inconclusive("C18 create table: " + err.Error())
				return nil
			}
			defer wireDrop(p, tb)
		}
		want := map[string]map[string]string{tables[0]: {}, tables[1]: {}}
		var mu sync.Mutex
		var firstErr error
		var opts []grpc.CallOption
		if c.Compressor != "" {
			opts = append(opts, grpc.UseCompressor(c.Compressor))
		}
		// every writer has a connection of its own (its requests are separate HTTP/2 transports on the server)
		conns := make([]*grpc.ClientConn, c.Writers)
		for w := range conns {
			cc, err := grpc.NewClient("passthrough:///"+p.API, grpc.WithTransportCredentials(insecure.NewCredentials()),
				grpc.WithDefaultCallOptions(grpc.MaxCallRecvMsgSize(64*1024*1024), grpc.MaxCallSendMsgSize(64*1024*1024)))
			if err != nil {
				vt.Inconclusive("C18 dial: " + err.Error())
				return nil
			}
			defer cc.Close()
			conns[w] = cc
		}
		for r := 0; r < c.Rounds; r++ {
			start := make(chan struct{})
			var wg sync.WaitGroup
			for w := 0; w < c.Writers; w++ {
				wg.Add(1)
				go func(w int) {
					defer wg.Done()
					tb := tables[w%2]
					fill := byte('A' + w)
					k1 := pad(fmt.Sprintf("k%02d-%02d-", w, r), fill, c.KeySize)
					v1 := pad(fmt.Sprintf("v%02d-%02d-", w, r), fill, c.ValSize)
					k2 := pad(fmt.Sprintf("K%02d-%02d-", w, r), fill, c.KeySize)
					v2 := pad(fmt.Sprintf("V%02d-%02d-", w, r), fill, c.ValSize)
					kv := regattapb.NewKVClient(conns[w])
					<-start
					ctx, cancel := context.WithTimeout(context.Background(), 60*time.Second)
					defer cancel()
					var err error
					if c.Txn {
						_, err = kv.Txn(ctx, &regattapb.TxnRequest{Table: []byte(tb), Success: []*regattapb.RequestOp{
							{Request: &regattapb.RequestOp_RequestPut{RequestPut: &regattapb.RequestOp_Put{Key: k1, Value: v1}}},
							{Request: &regattapb.RequestOp_RequestPut{RequestPut: &regattapb.RequestOp_Put{Key: k2, Value: v2}}},
						}}, opts...)
					} else {
						_, err = kv.Put(ctx, &regattapb.PutRequest{Table: []byte(tb), Key: k1, Value: v1}, opts...)
					}
					mu.Lock()
					defer mu.Unlock()
					if err != nil {
						if firstErr == nil {
							firstErr = fmt.Errorf("writer %d round %d (table %s): %w", w, r, tb, err)
						}
						return
					}
					want[tb][string(k1)] = string(v1)
					if c.Txn {
						want[tb][string(k2)] = string(v2)
					}
				}(w)
			}
			close(start)
			wg.Wait()
		}
		if f := died(); f != nil || !p.Alive() {
			return f
		}
		if firstErr != nil {
			return vt.Failf(prop+"/wire-request-error", 0, "a well-formed request of %d concurrent writers (key %d bytes, value %d bytes, compressor %q) was refused: %v", c.Writers, c.KeySize, c.ValSize, c.Compressor, firstErr)
		}
		for _, tb := range tables {
			got, err := wireContent(p, tb)
			if err != nil {
				return vt.Failf(prop+"/wire-read-error", 0, "%v", err)
			}
			if err := diffContent(got, want[tb]); err != nil {
				return vt.Failf(prop+"/wire-message-altered", 0, "%d concurrent writers (key %d bytes, value %d bytes, compressor %q, txn %v), table %s: %v", c.Writers, c.KeySize, c.ValSize, c.Compressor, c.Txn, tb, err)
			}
		}
		o.Label("wire-concurrent-writers")
		if c.Compressor != "" {
			o.Label("wire-compressed:" + c.Compressor)
		}
		o.NonTrivial = c.Writers >= 3
	case "backup-small", "backup-big", "backup-rerun":
		name := string(pad(fmt.Sprintf("bk%05d-", wireNo), 'n', c.NameLen))
		if err := wireCreate(p, name); err != nil {
			vt.Inconclusive("C18 create table: " + err.Error())
			return nil
		}
		defer wireDrop(p, name)
		kv := regattapb.NewKVClient(p.Conn)
		want := map[string]string{}
		for i := 0; i < c.Pairs; i++ {
			k := fmt.Sprintf("key-%02d", i)
			v := pad(fmt.Sprintf("val-%02d-", i), byte('a'+i), c.ValSize)
			if c.Mode == "backup-big" {
				// incompressible: a cheap deterministic stream
				x := uint32(2463534242 + i)
				for j := range v {
					x ^= x << 13
					x ^= x >> 17
					x ^= x << 5
					v[j] = byte(x)
				}
			}
			ctx, cancel := context.WithTimeout(context.Background(), 60*time.Second)
			_, err := kv.Put(ctx, &regattapb.PutRequest{Table: []byte(name), Key: []byte(k), Value: v})
			cancel()
			if err != nil {
				vt.Inconclusive("C18 load: " + err.Error())
				return nil
			}
			want[k] = string(v)
		}
		before, err := wireTables(p)
		if err != nil {
			vt.Inconclusive("C18 list tables: " + err.Error())
			return nil
		}
		dir, err := os.MkdirTemp(binfx.Scratch(), "c18-backup-")
		if err != nil {
			vt.Inconclusive("C18 scratch: " + err.Error())
			return nil
		}
		defer os.RemoveAll(dir)
		// the client `regatta backup` / `regatta restore` build: default call options
		// (the interceptor changes nothing on the wire: it only asks a stream that refused a Send for the status behind the bare io.EOF,
		// which the stock client returns as it is)
		diag := &streamDiag{}
		conn, err := grpc.NewClient("passthrough:///"+p.API, grpc.WithTransportCredentials(insecure.NewCredentials()), grpc.WithStreamInterceptor(diag.intercept))
		if err != nil {
			vt.Inconclusive("C18 dial: " + err.Error())
			return nil
		}
		defer conn.Close()
		b := &backup.Backup{Conn: conn, Dir: dir, Log: quietLog{}, Timeout: 2 * time.Minute}
		if _, err := b.Backup(); err != nil {
			if f := died(); f != nil || !p.Alive() {
				return f
			}
			return vt.Failf(prop+"/wire-backup-error", 0, "backup of table %q (%d pairs of %d bytes) with the stock client failed: %v", name, c.Pairs, c.ValSize, err)
		}
		if c.Mode == "backup-rerun" {
			// the table shrinks, the same directory takes the next backup: the files of the first one are replaced
			for i := 1; i < c.Pairs; i++ {
				k := fmt.Sprintf("key-%02d", i)
				ctx, cancel := context.WithTimeout(context.Background(), 60*time.Second)
				_, err := kv.DeleteRange(ctx, &regattapb.DeleteRangeRequest{Table: []byte(name), Key: []byte(k)})
				cancel()
				if err != nil {
					vt.Inconclusive("C18 shrink: " + err.Error())
					return nil
				}
				delete(want, k)
			}
			if _, err := b.Backup(); err != nil {
				if f := died(); f != nil || !p.Alive() {
					return f
				}
				return vt.Failf(prop+"/wire-backup-error", 0, "second backup of table %q into the same directory failed: %v", name, err)
			}
		}
		// change the table, then restore: the backed-up content must be back
		ctx, cancel := context.WithTimeout(context.Background(), 60*time.Second)
		_, _ = kv.DeleteRange(ctx, &regattapb.DeleteRangeRequest{Table: []byte(name), Key: []byte{0}, RangeEnd: []byte{0}})
		_, _ = kv.Put(ctx, &regattapb.PutRequest{Table: []byte(name), Key: []byte("after-backup"), Value: []byte("x")})
		cancel()
		if len(c.Chunks) > 0 {
			n, err := replfx.RestoreChunked(conn, dir, name, c.Chunks, c.TrailingEmpty, 2*time.Minute)
			if err != nil {
				if f := died(); f != nil || !p.Alive() {
					return f
				}
				switch status.Code(err) {
				case codes.DeadlineExceeded, codes.Canceled, codes.Unavailable:
					vt.Inconclusive(fmt.Sprintf("C18/wire-restore-error: restore of table %q in own pieces: %v", name, err))
					return nil
				}
				return vt.Failf(prop+"/wire-restore-error", 0, "restore of table %q, the backup file cut into pieces of %v bytes (%d chunks, trailing empty chunk %v), failed: %v\nserver log tail:\n%s", name, c.Chunks, n, c.TrailingEmpty, err, p.LogTail(1500))
			}
			o.Label("wire-restore-stream-cut-by-the-harness")
			for _, sz := range c.Chunks {
				if sz == 0 {
					o.Label("wire-restore-stream-with-empty-chunks")
					break
				}
			}
		} else if err := b.Restore(); err != nil {
			if f := died(); f != nil || !p.Alive() {
				return f
			}
			if hidden := diag.last(); errors.Is(err, io.EOF) && hidden != nil {
				// the server ended the call while the client was still sending; the status says why
				switch status.Code(hidden) {
				case codes.DeadlineExceeded, codes.Canceled, codes.Unavailable:
					vt.Inconclusive(fmt.Sprintf("C18/wire-restore-error: restore of table %q ended early by the server: %v", name, hidden))
					return nil
				}
				err = fmt.Errorf("%v (status behind it: %v)", err, hidden)
			}
			return vt.Failf(prop+"/wire-restore-error", 0, "restore of table %q with the stock client failed: %v\nserver log tail:\n%s", name, err, p.LogTail(1500))
		}
		if err := p.WaitTable(name, 60*time.Second); err != nil {
			vt.Inconclusive("C18 restored table: " + err.Error())
			return nil
		}
		got, err := wireContent(p, name)
		if err != nil {
			return vt.Failf(prop+"/wire-read-error", 0, "%v", err)
		}
		if err := diffContent(got, want); err != nil {
			return vt.Failf(prop+"/wire-restore-differs", 0, "table %q (name of %d bytes, %d pairs of %d bytes) after backup, change, restore through the real maintenance API: %v", name, len(name), c.Pairs, c.ValSize, err)
		}
		after, err := wireTables(p)
		if err == nil && fmt.Sprint(after) != fmt.Sprint(before) {
			return vt.Failf(prop+"/wire-restore-other-table", 0, "the restore changed the table list from %q to %q", before, after)
		}
		o.Label("wire-" + c.Mode)
		o.NonTrivial = c.Mode == "backup-big" || c.Mode == "backup-rerun" || c.NameLen > 12
	}
	o.Describe = func() string { return fmt.Sprintf("%+v", c) }
	return nil
}

// streamDiag remembers the status of a client stream whose Send was refused (gRPC reports io.EOF there, the status only to a receive).
type streamDiag struct {
	mu  sync.Mutex
	err error
}

func (d *streamDiag) last() error {
	d.mu.Lock()
	defer d.mu.Unlock()
	return d.err
}

func (d *streamDiag) intercept(ctx context.Context, desc *grpc.StreamDesc, cc *grpc.ClientConn, method string, streamer grpc.Streamer, opts ...grpc.CallOption) (grpc.ClientStream, error) {
	cs, err := streamer(ctx, desc, cc, method, opts...)
	if err != nil {
		return cs, err
	}
	return &diagStream{ClientStream: cs, d: d}, nil
}

type diagStream struct {
	grpc.ClientStream
	d *streamDiag
}

func (s *diagStream) SendMsg(m any) error {
	err := s.ClientStream.SendMsg(m)
	if errors.Is(err, io.EOF) {
		var resp regattapb.RestoreResponse
		if rerr := s.ClientStream.RecvMsg(&resp); rerr != nil && !errors.Is(rerr, io.EOF) {
			s.d.mu.Lock()
			s.d.err = rerr
			s.d.mu.Unlock()
		}
	}
	return err
}

type quietLog struct{}

func (quietLog) Info(args ...interface{})              {}
func (quietLog) Infof(msg string, args ...interface{}) {}

func TestC18Wire(t *testing.T)        { vt.Check(t, prop, genWireCase, runWireCase) }
func TestC18WireReplay(t *testing.T)  { vt.Replay(t, prop, runWireCase) }
func TestC18WireRegress(t *testing.T) { vt.Regress(t, prop, "testdata", runWireCase) }
