module verifharness

go 1.23

toolchain go1.23.5

require (
	github.com/cockroachdb/pebble v0.0.0-20221207173255-0f086d933dac
	github.com/hashicorp/memberlist v0.5.1
	github.com/jamf/regatta v0.0.0
	github.com/klauspost/compress v1.17.8
	github.com/lni/dragonboat/v4 v4.0.0-20231222133740-1d6e2d76cd57
	github.com/lni/vfs v0.2.1-0.20220616104132-8852fd867376
	go.uber.org/zap v1.27.0
	google.golang.org/grpc v1.63.2
	google.golang.org/protobuf v1.34.1
	pgregory.net/rapid v1.3.0
)

require (
	github.com/DataDog/zstd v1.5.5 // indirect
	github.com/HdrHistogram/hdrhistogram-go v1.1.2 // indirect
	github.com/VictoriaMetrics/metrics v1.33.1 // indirect
	github.com/armon/go-metrics v0.4.1 // indirect
	github.com/benbjohnson/clock v1.3.5 // indirect
	github.com/beorn7/perks v1.0.1 // indirect
	github.com/cenkalti/backoff/v4 v4.3.0 // indirect
	github.com/cespare/xxhash/v2 v2.2.0 // indirect
	github.com/cockroachdb/errors v1.11.1 // indirect
	github.com/cockroachdb/logtags v0.0.0-20230118201751-21c54148d20b // indirect
	github.com/cockroachdb/redact v1.1.5 // indirect
	github.com/getsentry/sentry-go v0.26.0 // indirect
	github.com/gogo/protobuf v1.3.2 // indirect
	github.com/golang/snappy v0.0.4 // indirect
	github.com/google/btree v1.1.2 // indirect
	github.com/google/uuid v1.6.0 // indirect
	github.com/hashicorp/errwrap v1.1.0 // indirect
	github.com/hashicorp/go-immutable-radix v1.3.1 // indirect
	github.com/hashicorp/go-msgpack/v2 v2.1.1 // indirect
	github.com/hashicorp/go-multierror v1.1.1 // indirect
	github.com/hashicorp/go-sockaddr v1.0.5 // indirect
	github.com/hashicorp/golang-lru v1.0.2 // indirect
	github.com/kr/pretty v0.3.1 // indirect
	github.com/kr/text v0.2.0 // indirect
	github.com/lni/goutils v1.4.0 // indirect
	github.com/miekg/dns v1.1.56 // indirect
	github.com/oxtoacart/bpool v0.0.0-20190530202638-03653db5a59c // indirect
	github.com/pierrec/lz4/v4 v4.1.18 // indirect
	github.com/pkg/errors v0.9.1 // indirect
	github.com/planetscale/vtprotobuf v0.6.0 // indirect
	github.com/prometheus/client_golang v1.19.1 // indirect
	github.com/prometheus/client_model v0.6.0 // indirect
	github.com/prometheus/common v0.53.0 // indirect
	github.com/prometheus/procfs v0.12.0 // indirect
	github.com/rogpeppe/go-internal v1.11.0 // indirect
	github.com/sean-/seed v0.0.0-20170313163322-e2103e2c3529 // indirect
	github.com/valyala/fastrand v1.1.0 // indirect
	github.com/valyala/histogram v1.2.0 // indirect
	go.uber.org/multierr v1.11.0 // indirect
	golang.org/x/exp v0.0.0-20231226003508-02704c960a9b // indirect
	golang.org/x/net v0.24.0 // indirect
	golang.org/x/sync v0.7.0 // indirect
	golang.org/x/sys v0.19.0 // indirect
	golang.org/x/text v0.14.0 // indirect
	golang.org/x/time v0.5.0 // indirect
	google.golang.org/genproto/googleapis/rpc v0.0.0-20240415180920-8c6c420018be // indirect
)

replace github.com/jamf/regatta => /repo
