"""Per-property configuration of the driver: which test functions make up a check, how many cases per tier."""

FSM_ASSUME = [
    "entries are handed to FSM.Update directly in the way dragonboat's IOnDiskStateMachine contract documents (raft itself is not in the loop)",
    "pebble on a strict in-memory vfs behaves like pebble on disk for everything but durability timing",
]


def T(name, quick, thorough=None, **kw):
    d = dict(name=name, quick=quick)
    d["thorough"] = thorough or quick
    d.update(kw)
    return d


def Q(checks, timeout=240, shards=1, **kw):
    d = dict(checks=checks, timeout=timeout, shards=shards)
    d.update(kw)
    return d


HOOK_COMMITS = ["df50802", "215f985", "cfbf92c", "4ab7d4f", "45235ce"]

NOT_APPLICABLE = {}

PROPS = {
    "C01": dict(
        pkg="c01", level="exploration",
        tests=[T("TestC01", Q(2500), Q(12000, timeout=900, shards=16, shrinktime="60s")),
               T("TestC01Large", Q(150, timeout=300, shrinktime="20s"), Q(1000, timeout=900, shards=6, shrinktime="60s"))],
        rule="rapid generates command histories (apply batches of 1-6 entries of PUT/DELETE/range DELETE/PUT_BATCH/DELETE_BATCH/TXN/SEQUENCE/DUMMY, "
             "sync, reopen, reads) over a small key pool biased to 0x00/0xFF bytes, prefixes, bookkeeping look-alikes and 1018-1024 byte keys; "
             "every result, read and the applied index is compared with an independent sorted-map model. A case is non-trivial iff its history contains "
             ">=1 range delete that removed >=1 key AND >=1 command that read (prev_kv/count/compare/range) a key written earlier in the same apply call "
             "(TestC01Large: a range delete / read whose answer exceeds the ~4 MiB internal chunk). Distinct = sha256 of the case JSON (exact command bytes).",
        assumptions=FSM_ASSUME,
        technique="stateful property-based testing (rapid) against a reference sorted-map model",
        level_text="Randomised exploration of command histories on the real table state machine, every response and read compared with an "
                   "independent model; thousands of distinct non-trivial histories per run, shrunk replay files on failure. No exhaustiveness is claimed.",
        level_note="Trusted: the reference model (internal/model), dragonboat's apply contract as emulated by the harness, pebble on MemFS.",
    ),
    "C02": dict(
        pkg="c02", level="exploration",
        tests=[T("TestC02", Q(2500), Q(12000, timeout=900, shards=12, shrinktime="60s")),
               T("TestC02Atomic", Q(1500), Q(6000, timeout=900, shards=4, shrinktime="60s")),
               T("TestC02AtomicBig", Q(16, timeout=300, shrinktime="20s"), Q(120, timeout=1200, shards=6, shrinktime="60s")),
               T("TestC02Table", Q(3000), Q(20000, timeout=900, shards=6, shrinktime="60s"))],
        rule="TestC02: rapid histories dominated by TXN commands (0-3 predicates EQUAL/GREATER/LESS/NOT_EQUAL/existence on single keys and ranges, 0-4 ops per branch mixing "
             "range reads, puts, (range) deletes on overlapping keys) placed anywhere in apply batches of 1-4 entries, plus read-only transactions through Lookup which are "
             "additionally compared with the same ops issued individually and with the same txn sent through the log (metamorphic). Non-trivial iff some txn had >=1 predicate and "
             ">=2 ops in the executed branch and touched a key written earlier in the same txn/batch. TestC02Atomic: stamp commands rewrite a key group together while 1-4 reader goroutines "
             "range-read the group; non-trivial iff readers observed >=2 distinct stamps. TestC02AtomicBig: the same with padded group values inside Update calls of > 16 MiB "
             "(filler puts place the 16 MiB mark of pending writes inside the stamp command; trailing fillers keep the call running). TestC02Table: transactions as a client issues them, through table.ActiveTable.Txn over an in-memory raft stand-in (read path vs log, command building, result decoding), "
             "shapes the table layer could special-case over-represented (no predicates, puts only, single operation, prev_kv of a key written earlier in the same transaction, empty branches, read-only); non-trivial iff such a prev_kv occurred or both branches were taken. Distinct = sha256 of the case JSON.",
        assumptions=FSM_ASSUME + ["atomic-visibility readers run on real goroutines: the oracle is timing-free, only coverage depends on scheduling"],
        technique="stateful property-based testing against a transaction model (state machine level and through the table layer) + metamorphic relations + concurrent readers, also inside oversized (> 16 MiB) apply calls",
        level_text="Randomised exploration: transaction semantics compared with an independent evaluator on thousands of histories; read-only txn path cross-checked "
                   "metamorphically; atomic visibility probed with concurrent readers. Crash atomicity is C04's job.",
        level_note="Trusted: internal/model transaction evaluator; scheduling of reader goroutines is not controlled.",
    ),
    "C03": dict(
        pkg="c03", level="exploration",
        tests=[T("TestC03", Q(1200), Q(6000, timeout=900, shards=16, shrinktime="60s"))],
        rule="rapid generates one log (2-40 entries, quick; commands of every type, each with or without leader_index) and two independent partitions of it into Update calls "
             "(1-7 entries each) interleaved with reopen / sync / snapshot-save + recover-into-a-fresh-replica events (saver and receiver format drawn independently). "
             "Oracle: per-entry results byte-identical between the two replicas, equal content, applied index, leader index and store hash, all equal to the model. "
             "Non-trivial iff the partitions differ AND some Update call mixes entries with and without leader_index AND >=1 snapshot transfer happened. Distinct = sha256 of case JSON.",
        assumptions=FSM_ASSUME + ["both replicas run in one process on separate in-memory file systems"],
        technique="differential / metamorphic property-based testing (same log, two generated schedules) plus model comparison",
        level_text="Randomised exploration of (log, partition A, partition B) triples; the implementation is compared with itself under a different batching/restart/snapshot schedule and with the model.",
        level_note="Trusted: internal/model; raft is replaced by direct Update calls that follow dragonboat's contract.",
    ),
    "C12": dict(
        pkg="c12", level="exploration",
        tests=[T("TestC12", Q(100000), Q(400000, timeout=900, shards=8)),
               T("TestC12FSM", Q(3000), Q(15000, timeout=900, shards=8)),
               T("TestC12Table", Q(3000), Q(20000, timeout=900, shards=4))],
        fuzz=[dict(target="FuzzC12", seconds=180)],
        rule="TestC12: 2-3 keys (1..1024 bytes; tiny alphabet with 0x00/0xFF, neighbours k.00/k.FF/prefix/last-byte+-1, lengths 1015-1024, bookkeeping look-alikes) checked for "
             "decode(encode(k))==k (DecodeBytes and the reader-based Decoder within its limit), order preservation on every pair, and sorting below the encoded bookkeeping keys. "
             "Non-trivial iff the case holds a strict-prefix pair, a pair differing in exactly one byte, or a key of >=1019 bytes. TestC12FSM: 1-8 such keys stored in a real FSM; wildcard "
             "read/count/delete and an extreme explicit bound must address exactly the user keys and leave applied/leader index intact (non-trivial iff a key or bound >=1019 bytes). TestC12Table: the same keys stored through table.ActiveTable "
             "(over the raft stand-in); counted range deletes and range reads whose bounds are stored keys, their successors k+0x00 (longer than a key may be for maximum-length keys), longer extensions and the wildcard "
             "must select exactly the user keys between them by plain byte comparison (a refusal of an over-long bound is accepted; non-trivial iff such a bound or a key >=1019 bytes occurred). "
             "Distinct = sha256 of case JSON. Thorough adds a native go fuzz campaign (FuzzC12) over key pairs.",
        assumptions=["the accepted key length is 1024 bytes as enforced by storage/table/table.go"],
        technique="property-based testing of algebraic laws (round trip, injectivity, monotonicity) + native coverage-guided fuzzing + cross-check through the real state machine",
        level_text="Randomised exploration of key pairs/triples against algebraic laws with 10^5 cases per quick run, biased to the boundaries (prefixes, 0x00/0xFF, 1019-1024 bytes).",
        level_note="Trusted: bytes.Compare as the definition of user-key order.",
    ),
    "C09": dict(
        pkg="c09", level="exploration",
        tests=[T("TestC09", Q(6000), Q(25000, timeout=900, shards=12, shrinktime="60s")),
               T("TestC09Large", Q(120), Q(800, timeout=900, shards=4, shrinktime="60s")),
               T("TestC09Many", Q(30, timeout=300, shrinktime="30s"), Q(250, timeout=900, shards=4, shrinktime="60s")),
               T("TestC09RPC", Q(150, timeout=300, shrinktime="30s"), Q(600, timeout=1200, shards=8, shrinktime="60s"))],
        rule="Generated table contents (0-40 pairs, some deleted again, flushed or not; TestC09Large: 2-6 pairs with values of 0.5-2 MiB incl. exactly 2 MiB so the ~4 MiB size cut "
             "triggers) and 1-8 reads each: bounds from the key mixture incl. wildcard on either side / inverted / empty-present end / single key, limit in {0, matches-2..matches+2, random}, "
             "keys_only / count_only. TestC09Many: 4.5-9 MiB made of thousands of 0.7-6 KiB pairs (several consecutive full messages, per-pair framing overhead matters). Every read runs through Lookup(Range), Lookup(IteratorRequest) consumed at once, and "
             "Lookup(IteratorRequest) consumed only after other requests were served by the same state machine; oracle: pairs == model range cut at limit, strictly ascending, count, 'more' iff pairs remain, "
             "stream concatenation == unbounded read with all-but-last chunk flagged more and every message below 4 MiB, first chunk == unary answer, keys-only/count-only agree; a fourth streamed read has deletes/puts/overwrites inside its range "
             "applied right after its first message and must still equal the state the stream started with (single point-in-time view). TestC09RPC: the same cases (small, large-value and many-pairs shapes) loaded into a table of a real storage.Engine and read through "
             "a real KVServer over loopback gRPC with a default client (4 MiB receive limit, so an oversized message surfaces as an error): KV.Range and KV.IterateRange, linearizable or serializable, optionally with writes sent after the first streamed message "
             "(server blocked in Send / between messages) - same oracle. "
             "Non-trivial iff a read has limit within +-1 of the number of matches (matches>=2) or a size cut occurred. Distinct = sha256 of case JSON.",
        assumptions=FSM_ASSUME + ["transport limit taken as gRPC's default 4 MiB maximum message size"],
        technique="property-based testing against a reference model + differential between unary and streamed read paths (state machine level and over real gRPC)",
        level_text="Randomised exploration with limits aimed at the boundary (matches-1, matches, matches+1) and values sized to trigger size-based cuts; read paths cross-checked.",
        level_note="Trusted: internal/model.Read.",
    ),
    "C19": dict(
        pkg="c19", level="exploration",
        tests=[T("TestC19", Q(50000), Q(200000, timeout=900, shards=8)),
               T("TestC19Events", Q(40000), Q(200000, timeout=900, shards=8)),
               T("TestC19Conc", Q(400, timeout=300, shrinktime="20s"), Q(3000, timeout=900, shards=4, shrinktime="60s")),
               T("TestC19Engine", Q(8, timeout=400, shards=2, shrinktime="20s"), Q(60, timeout=1800, shards=4, shrinktime="60s"))],
        rule="Per shard (1-3 shards) a consistent world is drawn (term -> at most one leader, config-change index -> one membership, as Raft guarantees) and 1-8 updates sampled from it "
             "(incl. 'leader unknown' at any term, stale terms); the multiset is delivered to the real view in two independent random orders with duplicates, split into batches of 1-4, "
             "a third of the batches routed through an intermediate view's LocalState -> JSON -> MergeRemoteState. Oracle: both final views == model (max-term leader, max-CCI membership); after every "
             "delivery the retained leader's term never decreases and is never replaced by 'no leader'. Non-trivial iff some shard saw >=3 distinct terms AND a no-leader update at or above the "
             "retained leader's term. TestC19Events: the same updates reach ONE view shared by a real cluster.Cluster value (no memberlist behind it) and its memberlist delegate through every writer of the view: "
             "direct merges, another node's gossiped state, and the node's own raft information re-read on Notify / NotifyJoin / NotifyLeave / NotifyUpdate / LocalState, with membership events naming any node id "
             "(also the retained leader's) interspersed; same oracle; non-trivial iff a member with the node id of a leader leaves AND gossip is merged after the node read own raft information. TestC19Conc: the same update multisets delivered to ONE view by 2-4 goroutines at once (each update spread over 50-1000 shard ids so that merges overlap), 6 rounds per case, plus a reader goroutine: after all deliveries every record == model (a lost update shows), the reader never sees a term decrease (timing-free oracle, scheduling decides only how often deliveries overlap). TestC19Engine (consequence clause, real wiring): a real 3-node regatta cluster in one process (three storage.Engine instances, one metadata raft group, the table replicated on all nodes, raft + memberlist gossip over loopback); "
             "6-30 actions: Put/Range on any node (response headers recorded), leadership transfers of the table shard, node restarts, pauses. Oracle: per node the term reported for the shard never decreases over its responses, shard and replica id of the header are right, one term is never reported with two leaders, "
             "whether every node ends up reporting the shard's actual (term, leader) after re-reading its own raft information is observed and labelled, not asserted (staleness is not a statement of C19). Non-trivial iff headers of >=2 terms were observed. Distinct = sha256 of case JSON.",
        assumptions=["updates come from a consistent Raft world (one leader per term, one membership per config-change index)",
                     "view accessed through the add-only verif hooks storage/cluster/export_verif.go and export_cluster_verif.go"],
        technique="property-based testing of algebraic laws (commutativity, associativity, idempotence of merge) over every writer of the view + monotonicity invariant over the delivery history; concurrent deliveries; response headers of a real 3-node cluster",
        level_text="Randomised exploration of update multisets and delivery orders against a max-term/max-CCI model, 5*10^4 cases per quick run.",
        level_note="Trusted: the consistent-world generator reflects Raft's guarantees; dragonboat reports (term, leader) pairs consistently.",
    ),
    "C13": dict(
        pkg="c13", level="exploration",
        tests=[T("TestC13", Q(30000), Q(150000, timeout=900, shards=8)),
               T("TestC13Raft", Q(3000, timeout=300), Q(20000, timeout=900, shards=4)),
               T("TestC13Cluster", Q(400, timeout=300, shrinktime="20s"), Q(3000, timeout=900, shards=4, shrinktime="60s"))],
        rule="Sequences of 1-40 operations on the real kv.LFSM: set/delete with keys from a path alphabet (/tables/a, /tables/a/lease, /tables/sys/idseq, /cleanup/N/id, queue/T/n, '', ...), "
             "UTF-8 values (JSON-looking, quotes, escapes, unicode, arbitrary rapid strings) and versions in {0, current, stale, future}; lookups get/exists/getall/getallvalues/list/listdir with the callers' "
             "glob patterns; snapshot+restore into a fresh store at any point; a second replica fed the same entries under a different grouping into Update calls. Oracle: CAS rule against a model map "
             "key->(value,version), mismatch result carries the current pair, new version == entry index > all earlier; glob answers == independent matcher for '<prefix>/*' shapes and == a fresh MapStore "
             "holding exactly the model's pairs; replicas and restored store byte-equal. Non-trivial iff some key saw both a rejected and an accepted update AND a snapshot/restore happened. "
             "TestC13Raft: the same operation generator against kv.RaftStore on a real single-node NodeHost (proposal path, result-code to ErrVersionMismatch mapping, stale reads): Set/Delete succeed iff the CAS rule allows, a mismatch returns the current pair, "
             "new versions exceed all earlier ones, Get/Exists/GetAll == model (non-trivial iff a key saw both a rejected and an accepted Set).",
        assumptions=["values are valid UTF-8 (every caller JSON-encodes them)"],
        technique="stateful property-based testing against a CAS-register-map model (path.Match as glob reference) + replica differential + snapshot round trip; the raft client on single-node and 3-node raft groups",
        level_text="Randomised exploration of update/lookup/snapshot histories on the real state machine of the metadata store.",
        level_note="Trusted: the model map; path helper semantics (List/ListDir) are compared with a fresh MapStore holding the model's pairs, not re-specified.",
    ),
    "C06": dict(
        pkg="c06", level="exploration",
        tests=[T("TestC06", Q(40000), Q(250000, timeout=900, shards=8))],
        rule="Stateful histories (1-30 steps) over a model raft log served by a fake dragonboat log reader with the real reader's contract (>=1 entry even if over maxSize, compacted/unavailable errors): "
             "append entries of every raft type (encoded regatta command, empty application, config change, metadata; 0-5000 byte payloads), advance applied, compact (+LogCompacted to the cache), "
             "query(start, maxSize in {1..4MiB}) on logreader.Simple and logreader.Cached (cache sizes 1-64, warm from earlier queries) with end = applied+1, and LogServer.Replicate(start) over both readers "
             "with a recording stream; plus a final sweep of queries from every start index. Oracle: entries == log[start..start+k-1], k>=1, byte-identical, none beyond applied, compacted => ErrLogAhead/USE_SNAPSHOT, "
             "beyond applied+1 => LEADER_BEHIND, at applied+1 => empty batch carrying applied; streamed commands dense, labelled with own index, non-application entries as DUMMY, terminated by the empty batch. "
             "Non-trivial iff a Cached query was served partly from cache and partly from the log (prepend or append path) or the first served entry alone exceeded maxSize. Distinct = sha256 of case JSON.",
        assumptions=["the fake log reader implements dragonboat's ReadonlyLogReader contract (read from internal/logdb/logreader.go)",
                     "LogCompacted reaches the cache together with the compaction (the engine forwards the event asynchronously; the window in between is not modelled)",
                     "query end is always applied+1 and applied only grows (stated in the property)"],
        technique="stateful model-based property testing + differential Simple vs Cached reader; replicate calls with generated events between their messages (leader applies, log compaction, another follower's stream)",
        level_text="Randomised exploration of log/compaction/cache histories with exact comparison against a model log.",
        level_note="Trusted: the fake reader's fidelity to dragonboat; the real dragonboat reader is exercised in C05.",
    ),
    "C04": dict(
        pkg="c04", level="fault_enumeration",
        tests=[T("TestC04", Q(45, timeout=400, shrinktime="40s"), Q(250, timeout=1500, shards=16, shrinktime="120s")),
               T("TestC04Big", Q(4, timeout=400, shrinktime="20s"), Q(12, timeout=1500, shards=8, shrinktime="60s")),
               T("TestC04Stall", Q(2, timeout=300, shards=2, shrinktime="1s"), Q(6, timeout=900, shards=8, shrinktime="10s"))],
        rule="rapid generates histories of 1-10 steps (apply batches of 1-4 entries biased to multi-key commands: batches, txns, sequences, range deletes; Sync; clean reopen; install of a snapshot "
             "produced by a donor replica that is 0-3 entries ahead, donor format drawn independently) for both recovery types. For each history a dry run counts the mutating file-system operations T "
             "(create, write, sync, rename, remove, mkdir, link incl. pebble's own), then the history is re-executed once per crash point N in 0..T (all of them; thinned evenly above 400): from operation N on "
             "syncs are ignored, after the step everything unsynced is dropped (pebble strict MemFS), the table is reopened and must report an index i >= the last completed Sync/Close, content/leader index == model "
             "after exactly entries 1..i, and re-applying i+1.. must reach the model's final state; with depth 2 a second crash is injected during the re-apply/close phase. evaluations = (history, crash point) executions. "
             "TestC04Big: one Update call that writes more than a memtable (17+ MiB of plain puts) and then runs multi-key commands reading the batch, so that pebble rotates and flushes on its own inside the call; up to 60 (quick) / 200 (thorough) evenly spread crash points. "
             "A crash point is non-trivial iff it falls inside the first Open, inside an install, or leaves a non-empty unsynced suffix to re-apply; distinct = sha256(case JSON + crash point).",
        assumptions=["fault model = the property's: file data durable up to the file's last sync, directory entries up to the directory's last sync (pebble vfs strict MemFS); torn single writes and media errors are outside it",
                     "an install (RecoverFromSnapshot) is not required to be durable by itself: until the next completed Sync either the pre-install or the installed prefix is accepted (dragonboat's contract)",
                     "pebble's background flush/compaction run on real goroutines, so operation numbers can shift slightly between executions; every number is still a legal crash point"],
        technique="property-based generation of histories + exhaustive fault (crash-point) enumeration per history under two crash models, plus a stalled-disk fault; model-based prefix oracle",
        level_text="Every file-system operation boundary of every generated history is used as a crash point (exhaustive per history), histories themselves are randomly explored.",
        level_note="Trusted: pebble's strict MemFS as the durability model; the model's prefix states.",
    ),
    "C08": dict(
        pkg="c08", level="exploration", journal_cases=True,
        tests=[T("TestC08", Q(2000, timeout=400), Q(8000, timeout=1500, shards=16, shrinktime="60s")),
               T("TestC08Big", Q(8, timeout=400, shrinktime="20s"), Q(40, timeout=1500, shards=6, shrinktime="60s")),
               T("TestC08Cluster", Q(6, timeout=400, shards=4, shrinktime="20s"), Q(40, timeout=1500, shards=8, shrinktime="60s"))],
        rule="Generated: saver history (0-6 Update calls), PrepareSnapshot, 0-3 further Update calls, SaveSnapshot; a receiver with its own unrelated history (0-4 calls, synced or not); recovery with saver and "
             "receiver formats drawn independently (snapshot/checkpoint, cross-format); one of: plain install, stop signal after k writer calls during save, stop signal after k reader calls during recover, "
             "crash at EVERY file-system operation boundary inside RecoverFromSnapshot under two fault models - power loss (everything unsynced is dropped) and process death (everything done before the operation is kept, nothing after it happens) - (crashfs, counted as separate evaluations), a lazy range sequence obtained before the install and consumed after it, "
             "reader goroutines racing with the install. Oracle: receiver content/applied index/leader index == saver's model at prepare time; continuing with the post-prepare entries reaches the saver's state, also after reopen; "
             "stopped save => ErrSnapshotStopped and saver intact; stopped install => receiver == its pre-install model, also after reopen; crash inside install => exactly the installed state or a prefix (>= last sync) "
             "of the receiver's own log; overlapping reads: old state, new state or clean error, never a panic. Non-trivial iff writes between prepare and save AND (cross-format or interrupted), or a reader spanning the swap, "
             "or a crash point inside the install. TestC08Big: the saver holds 18-40 MiB (more than the 16 MiB the sstable-stream format ships in one piece; several files for the checkpoint format) and Update calls between prepare and save overwrite the "
             "first / a middle / the last key, delete and add keys and move both indices; same oracle (non-trivial always). Distinct = sha256(case JSON [+ crash point]). TestC08Cluster: a real 3-node regatta cluster whose nodes use the snapshot formats of the process shard (mixed and uniform), tables that snapshot every 10 entries and keep 2 log entries; a node is taken down, 25-60 generated writes (puts of 0 B - 600 KB, deletes, range deletes, non-idempotent transactions) follow, the node returns and can only catch up by a snapshot streamed by the raft library from a peer; a linearizable read on it == model, after the writes stopped every node's own copy == model and all applied indices agree; non-trivial iff a node caught up with fewer apply calls than entries it missed.",
        assumptions=FSM_ASSUME + ["dragonboat documents that Lookup may run concurrently with RecoverFromSnapshot",
                                  "while KNOWN_FINDINGS lists the read-across-install finding, racing readers are not executed (counted as excluded) because they panic or hang inside pebble in schedule-dependent ways"],
        technique="property-based testing: snapshot round trip against a model, fault injection (stop signals, crash-point enumeration inside the install), deterministic overlapping readers; generated node-down / node-back histories on a real 3-node cluster with per-node snapshot formats (snapshots taken, shipped and installed by the raft library)",
        level_text="Randomised exploration of saver/receiver histories with exhaustive crash points inside each generated install.",
        level_note="Trusted: internal/model; crash model as in C04.",
    ),
    "C07": dict(
        pkg="c07", level="exploration", journal_cases=True,
        tests=[T("TestC07", Q(24, timeout=300, shards=4, shrinktime="30s"), Q(120, timeout=1500, shards=16, shrinktime="90s")),
               T("TestC07Image", Q(60, timeout=300, shrinktime="20s"), Q(600, timeout=1200, shards=6, shrinktime="60s")),
               T("TestC07Cluster", Q(20, timeout=300, shrinktime="20s"), Q(150, timeout=1200, shards=4, shrinktime="60s"))],
        rule="Each case: a leader table with 0-60 generated pairs (values empty..3 KB; thorough also 256 KiB-2 MiB), a target server started with a generated MaxInMemLogSize (0 = unlimited, 1 MiB, 6 MiB, or "
             "2*sum(first j record sizes)+slack so that the half-size batch threshold falls on record j, raised to twice the biggest record so the setting is operable), a target table with 0-5 unrelated pre-restore pairs; "
             "source = backup file (real BackupServer.Backup over gRPC + backup.Restore through the target's Maintenance service, optionally with one flipped byte) or leader snapshot stream (real SnapshotServer.Stream + "
             "worker recovery + Manager.Restore), optionally while a leader goroutine keeps writing a stamped key. Oracle: full Range of the restored table == captured model (nothing lost/altered/added, nothing of the old content), "
             "follower leader index == leader index at capture, with writers content == model at exactly the declared index, corrupted file => error and table unchanged. "
             "Non-trivial iff >=3 records AND (the batch threshold is crossed inside the stream OR the limit is 0), or an empty captured table restored over data. "
             "TestC07Image: the table dump behind both sources (fsm.SnapshotRequest) taken by 1-3 goroutines while a generated log is applied in generated Update calls (some with > 16 MiB of pending writes); "
             "every dump must equal the model after exactly the entry it declares; non-trivial iff dumps at >=2 distinct indices were judged. "
             "TestC07Cluster: 1-3 restores (a fifth of them from a stream that breaks half way) issued on drawn nodes of a real 3-node cluster while every node runs reconcile rounds (back to back, or every 30 ms); after each, on EVERY node (once it knows the new table record): linearizable read == captured content resp. the old content after a broken stream, "
             "declared leader index, a shard id above all earlier ones, writes still accepted; at the end every node's own copy == model. Distinct = sha256 of case JSON.",
        assumptions=["MaxInMemLogSize is at least twice the biggest record (dragonboat rejects larger proposals permanently)", "single-node leader and target engines, in-process, in-memory file systems, real gRPC over loopback"],
        technique="round-trip property-based testing on real engines (generated content x configuration x faults), model comparison; point-in-time oracle for table dumps taken under concurrent apply calls; restores into a real 3-node cluster",
        level_text="Randomised exploration of (content, configuration, source) triples on real engines with an exact content oracle.",
        level_note="Trusted: model map; engines are single-node.",
    ),
    "C05": dict(
        pkg="c05", level="exploration", journal_cases=True,
        tests=[T("TestC05", Q(30, timeout=400, shards=4, shrinktime="30s"), Q(100, timeout=1500, shards=16, shrinktime="90s")),
               T("TestC05Tables", Q(40, timeout=300, shrinktime="20s"), Q(200, timeout=900, shards=2, shrinktime="60s")),
               T("TestC05Live", Q(12, timeout=400, shards=4, shrinktime="30s"), Q(80, timeout=1500, shards=8, shrinktime="90s")),
               T("TestC05Handover", Q(60, timeout=400, shrinktime="30s"), Q(400, timeout=1500, shards=6, shrinktime="90s")),
               T("TestC05Cluster", Q(2, timeout=500, shrinktime="5s"), Q(6, timeout=2400, shards=6, shrinktime="60s")),
               T("TestC05Recreate", Q(25, timeout=400, shrinktime="20s"), Q(150, timeout=1500, shards=4, shrinktime="60s")),
               T("TestC05SnapshotLag", Q(1500), Q(40000, timeout=900, shards=2))],
        rule="TestC05: a real leader engine and a real follower engine (in-process, single-node clusters) wired like cmd/leader.go / cmd/follower.go with three Log servers (message-size limits 256 B, 4 KiB, 4 MiB; odd shards run "
             "the leader with the log cache on), real Snapshot/Metadata/KV services over loopback gRPC; the replication worker is built by the real factory and stepped by the harness (verif hook). Histories of 3-40 actions: leader put "
             "(values up to 3 KB) / delete / range delete / non-idempotent txn (if ctr==n then ctr:=n+1 else ctr:=0 + range delete), poll(one worker iteration against a drawn Log server, incl. snapshot recovery when the leader answers "
             "USE_SNAPSHOT), leader snapshot + log compaction keeping 0-3 entries, worker restart, follower engine restart, reads of another follower cluster through the shared log cache, bursts of 70-200 KiB writes that arrive in one message and are split into several proposals. "
             "The same comparison runs after EVERY Update call of the follower's table state machine (applied-index listener: apply path paused, stale reads). Oracle after EVERY action: read follower leader index, full content, leader index again; if unchanged, content == "
             "leader model at that index; index never decreases; with the leader quiet at most 6 polls reach the leader's latest index and content. Non-trivial iff (a snapshot-based catch-up with non-idempotent txns both before and after it) "
             "or a worker/engine restart with un-replicated entries pending. TestC05Tables: create/delete of tables on the leader, reconcileTables, follower restarts; follower table set == leader table set after each reconciliation "
             "(non-trivial iff >=1 create and >=1 delete took effect), plus worker reconciliation rounds (every follower table has a worker, also after a recovery that died after recording its recovery shard). "
             "TestC05Handover: a follower CLUSTER of three nodes (real raft between three engines); the harness decides whose stepped worker polls next (workers never overlap: a lease handed from node to node), one node can be held back (its apply calls take 5-50 ms longer); "
             "after every action, on every node, the node's copy == leader model at the index that copy records, index never backwards; non-trivial iff the polling node changed, >=2 txns, >=2 polls. "
             "TestC05Cluster: the same cluster with three STARTED replication managers (real lease competition, lease handed over by restarting the holder, long lease intervals so that lease timing is not what is tested, control ticker), samplers on every node, judged post hoc. "
             "TestC05Recreate: the leader table deleted and created again under the same name between polls and reconcile rounds (a recorded finding: the follower never notices; its two signatures are tolerated there and counted as known-finding hits, anything else is reported). "
             "TestC05Live: a started manager on a single follower node (see DESIGN 3b). Distinct = sha256 of case JSON.",
        assumptions=["proposal timeouts are not injected", "after an engine restart one reconcile round is run explicitly (production: 30 s timer)"],
        technique="stateful property-based testing on real engines with a harness-owned replication schedule (single-node follower and 3-node follower cluster with lease hand-over and a held-back node), started replication managers judged post hoc from samples, model of the leader's state per revision",
        level_text="Randomised exploration of leader histories x polling/compaction/restart schedules with an exact per-index content oracle.",
        level_note="Trusted: model; the worker loop body is re-stated in the verif hook (replication/export_verif.go Poll).",
    ),
    "C10": dict(
        pkg="c10", level="exploration", journal_cases=True,
        tests=[T("TestC10", Q(4000), Q(20000, timeout=900, shards=12, shrinktime="60s")),
               T("TestC10Conc", Q(500, timeout=300), Q(3000, timeout=1200, shards=4, shrinktime="60s")),
               T("TestC10Cluster", Q(150, timeout=300, shrinktime="20s"), Q(1000, timeout=1200, shards=4, shrinktime="60s"))],
        rule="TestC10 (deterministic): 2-3 real state-machine replicas behind an in-memory raft stand-in (shared log, per-replica lag controlled by the case, generated grouping of entries into Update calls); 2-30 operations by clients "
             "bound to replicas through the real table.ActiveTable API: put, delete(range), txn (incl. both branches empty and taken-branch-empty), range reads linearizable/serializable, read-only txn, catch-up(n). Oracle: every acknowledged "
             "mutation reports revision == its log position (non-zero, strictly increasing), responses == model replay in revision order, linearizable read / read-only txn == model at the commit index at call time even on a lagging replica, "
             "serializable read == model at the replica's applied index. Non-trivial iff a read was served by a replica with unapplied acknowledged writes or a txn with an empty executed branch occurred. "
             "TestC10Conc: 2-6 goroutines issue 3-15 operations each against one real storage.Engine; logical start/end stamps; oracle: revisions unique, non-zero, consistent with real-time order; replaying mutations in revision order explains "
             "txn outcomes; each read equals the state after some prefix between 'all writes acknowledged before it started' (linearizable, read-only txn) / 0 (serializable) and 'all writes started before it ended'. Non-trivial iff a read overlapped a write.",
        assumptions=["the raft stand-in encodes dragonboat's documented semantics: SyncPropose returns the local replica's apply result, SyncRead = ReadIndex at call time, StaleRead = local applied state",
                     "TestC10Conc uses a single-node engine (no lagging replica there)"],
        technique="stateful property-based testing with a harness-controlled replica lag (in-memory raft stand-in) + history checking of concurrent executions on a real engine and on a real 3-node cluster with a held-back replica",
        level_text="Randomised exploration of client histories x replica lag; concurrent histories on a real engine checked by an order-based history invariant.",
        level_note="Trusted: internal/simraft semantics; internal/model.",
    ),
    "C15": dict(
        pkg="c15", level="exploration",
        tests=[T("TestC15", Q(20000), Q(100000, timeout=900, shards=8)),
               T("TestC15Replicas", Q(40000), Q(250000, timeout=900, shards=8)),
               T("TestC15Exhaustive", Q(0, timeout=300), Q(0, timeout=2400)),
               T("TestC15Cluster", Q(400, timeout=300, shrinktime="20s"), Q(4000, timeout=900, shards=4, shrinktime="60s")),
               T("TestC15Worker", Q(2, timeout=300, shards=2, shrinktime="10s"), Q(12, timeout=900, shards=8, shrinktime="30s"))],
        rule="2-3 real table.Manager instances (distinct node ids) over one gated metadata store backed by the real kv.LFSM (real compare-and-set rule); each runs a generated program of 1-4 calls LeaseTable(+1h) / "
             "LeaseTable(-1h, already expired) / ReturnTable; a rapid-drawn schedule releases ONE parked store read/write at a time, so interleavings are at the granularity of individual metadata-store operations and executions are "
             "deterministic. Ghost state: a node holds from a successful LeaseTable(+1h) until its own successful ReturnTable or LeaseTable(-1h). Invariants: never two holders; a successful lease write found the record unclaimed / own / expired "
             "at the write point; a successful ReturnTable removed the caller's own record; a holder's record names it and is unexpired at the end. TestC15Exhaustive enumerates ALL schedules (each exactly once, DFS over choice points) for every pair of "
             "programs with up to 2 calls (quick) / 3 calls (thorough) on 2 nodes. Non-trivial iff a store operation of one call lies strictly between the first and last store operation of another node's call. Distinct = sha256 of (programs, schedule).",
        assumptions=["lease durations are +-1 hour so wall-clock time never decides an outcome", "clock skew between nodes is outside the statement",
                     "the gated store re-states kv.RaftStore's Set/Delete result decoding (version mismatch mapping) around the real LFSM",
                     "TestC15Worker depends on real time: its verdict is one-sided (a starved process can only turn a violation into 'inconclusive')"],
        technique="schedule exploration (random + exhaustive enumeration for small bounds) with a harness-owned scheduler over one store or over per-node replicas (stale reads, lag, snapshot installs), ghost-state invariants; real workers and a real 3-node cluster",
        level_text="Random schedules for 2-3 nodes x up to 4 calls, and complete enumeration of all interleavings for 2 nodes x up to 2 (quick) / 3 (thorough) calls.",
        level_note="Trusted: the gate scheduler (one runnable caller at a time); the real LFSM implements the CAS.",
    ),
    "C14": dict(
        pkg="c14", level="exploration", journal_cases=True,
        tests=[T("TestC14", Q(16, timeout=300, shards=4, shrinktime="30s"), Q(80, timeout=1500, shards=16, shrinktime="90s")),
               T("TestC14Odd", Q(10, timeout=400, shrinktime="10s"), Q(60, timeout=600, shards=2, shrinktime="30s")),
               T("TestC14Race", Q(10000), Q(100000, timeout=900, shards=4)),
               T("TestC14RaceReplicas", Q(20000), Q(200000, timeout=900, shards=4)),
               T("TestC14RaceExhaustive", Q(0, timeout=300), Q(0, timeout=1200)),
               T("TestC14Cluster", Q(300, timeout=300, shrinktime="20s"), Q(3000, timeout=900, shards=4, shrinktime="60s")),
               T("TestC14Diff", Q(30000), Q(200000, timeout=900, shards=2)),
               T("TestC14Reconcile", Q(30, timeout=900, shrinktime="20s"), Q(300, timeout=900, shards=4, shrinktime="60s"))],
        rule="TestC14: a fresh real engine per case; 3-20 actions over names {a,b,c}: create, delete, restore (generated 0-4 record stream through Manager.Restore), list, get, put, range, reconcile. Oracle: create succeeds iff the name is absent "
             "(sequentially: always then), every assigned id (create and restore) > all earlier ids, delete iff exists, list/get == model catalogue (name:id), new and re-created tables are empty, a put on one table never changes another, "
             "after VerifReconcile the NodeHost's running table shards == catalogued ids. Non-trivial iff a name that held data was deleted and re-created, or a restore happened between creates. "
             "TestC14Odd: same with names that look like metadata paths / globs (x/y, a/lease, sys/idseq, *, [a]); failures after such an action are attributed to the listed name-collision finding. "
             "TestC14Race: 2-3 real Managers over one gated LFSM store racing VerifCreateRecord / DeleteTable (1-3 calls each) under rapid-drawn schedules at store-operation granularity; oracle: ids never reused, never two successful creates of a live name, "
             "store catalogue only holds acknowledged tables (non-trivial iff two creators both passed the existence check before either wrote); in a third of the cases two writes parked at the same time are applied by ONE Update call of the metadata state machine. TestC14RaceExhaustive: ALL schedules (each exactly once, DFS over the scheduler's choice points; ~10^5) of two managers running every pair of programs of up to 2 calls over {create a, create b, delete a}, without and with batched application. TestC14Cluster: the same rules on a REAL 3-node cluster in one process (real kv.RaftStore proposals, real raft batching, stale local catalogue reads): 2-5 rounds of CreateTable / DeleteTable over two names issued concurrently, one call per node; "
             "every assigned id unique and greater than the id of every create that had finished before this one started; per round and name the outcomes must be explained by some sequential order of the calls (a call may have failed without effect; two racing deletes of one existing table may both succeed); "
             "afterwards every node's lookup converges to what that order leaves (non-trivial iff >=2 calls raced on one name). TestC14Diff: diffTables on generated catalogue (ids incl. 0, <=10000, recover ids) x running-shard sets; "
             "oracle: start == catalogued minus running, stop == running minus catalogued, ids > 10000 only (non-trivial iff both sets non-empty). Distinct = sha256 of case JSON.",
        assumptions=["single-node engine for the sequential part; concurrency is explored on the gated store only", "table names with '/' or glob syntax are a listed known finding"],
        technique="stateful model-based property testing on a real engine + schedule exploration on a gated store (single and per-node replicas) + concurrent catalogue changes on a real 3-node cluster and under running reconciliation + pure-function property test of the reconcile diff",
        level_text="Randomised exploration of catalogue histories against a catalogue model, racing catalogue changes under controlled schedules, and the diff function against its set definition.",
        level_note="Trusted: the catalogue model; gate scheduler.",
    ),
    "C11": dict(
        pkg="c11", level="exploration", journal_cases=True,
        tests=[T("TestC11", Q(4, timeout=300, shards=4, shrinktime="5s"), Q(40, timeout=1500, shards=16, shrinktime="20s")),
               T("TestC11RYW", Q(25, timeout=300, shards=2, shrinktime="20s"), Q(120, timeout=1500, shards=8, shrinktime="60s")),
               T("TestC11Order", Q(20000, timeout=300), Q(200000, timeout=900, shards=4)),
               T("TestC11Sweep", Q(4, timeout=300, shards=2, shrinktime="10s"), Q(40, timeout=900, shards=8, shrinktime="30s")),
               T("TestC11Open", Q(6000, timeout=300), Q(60000, timeout=900, shards=4))],
        rule="TestC11: timed scenarios on the real storage.IndexNotificationQueue (its own Run goroutine, hard-coded 1 s sweep): 2-12 events spread over 3.3 s on two tables - add(revision 0-6, optionally cancelled 1-2500 ms later), "
             "notify(revision 0-6), len - followed by one more sweep and a responsiveness probe; each rapid case runs 150 scenarios concurrently (evaluations = scenarios). Every waiter reads its channel once, like ForwardingKVServer. Oracle: exactly one "
             "answer; success only if a notification >= its revision for its table had started before; error only after its context ended; never a second answer; an unanswered waiter while Len(table)==0 is lost (timing-free); a waiter cancelled >2.5 s ago "
             "or notified (after its Add returned) >1 s ago must be answered; Add/Notify/Len must return within 8 s - if not, two goroutine dumps 1 s apart must show the same event-loop goroutine parked in 'chan send' (wedge witness), otherwise inconclusive. "
             "Non-trivial iff live and cancelled waiters coexist or a revision-0 waiter exists. TestC11RYW: real leader + follower engines, real ForwardingKVServer over gRPC, worker polls driven by a harness goroutine at a generated period; generated put / delete range / "
             "txn (incl. empty executed branch) sent to the follower API, each followed immediately by a serializable read on the follower that must observe it, with follower engine restarts (tables re-opened) between writes (non-trivial iff >=1 txn with an empty executed branch or >=3 forwarded writes). "
             "TestC11Order: the queue as an UNTIMED state machine - Add/Notify/Len are synchronous hand-overs to the single event loop and a returned Len() proves everything handed over before has been processed, so after every step the set of answered waiters is a function of the history: "
             "4-60 steps on two tables, add(revision 0..8/30/200 in arbitrary order), notify(non-decreasing per table), cancel(any waiter), len; oracle: a live waiter is acknowledged iff a notification >= its revision was delivered for its table, errors only for ended contexts, "
             "no second answer, live-unanswered <= Len <= unanswered (non-trivial iff >=2 waiters registered below an already waiting higher revision). "
             "TestC11Sweep: the same state machine and oracle with the queue's 1 s sweep of ended contexts in the middle (3-14 waiters in arbitrary order, 1..n/2 of them cancelled anywhere in the priority queue, wait for the sweep, more waiters, notifications walking up): "
             "nothing is asserted about when the sweep runs, it only perturbs the queue's state; 200 scenarios side by side per case (evaluations = scenarios; non-trivial iff >=1 cancelled and >=2 live waiters).",
        assumptions=["real time is unavoidable (the sweep interval is hard-coded): every time-based judgement is one-sided and generous, a slow machine can only turn a violation into 'inconclusive'"],
        technique="property-based testing over timed event schedules with a history oracle; untimed state-machine tests of the queue (alone and fed by a real table state machine); end-to-end read-your-writes on real engines",
        level_text="Randomised exploration of waiter/notification/cancellation schedules across >=4 sweeps; thousands of scenarios per quick run.",
        level_note="Trusted: wall-clock ordering of harness-side stamps within the stated margins.",
    ),
    "C18": dict(
        pkg="c18", level="exploration", needs_binary=True,
        tests=[T("TestC18Codec", Q(40000), Q(250000, timeout=900, shards=8)),
               T("TestC18Comp", Q(1200, timeout=300), Q(6000, timeout=1500, shards=6)),
               T("TestC18Frame", Q(500, timeout=300), Q(4000, timeout=1500, shards=8)),
               T("TestC18Wire", Q(80, timeout=300, shrinktime="20s"), Q(500, timeout=1500, shards=4, shrinktime="60s"))],
        fuzz=[dict(target="FuzzC18", seconds=180)],
        rule="TestC18Codec: a message of any API type (all 60+ message types of regatta.v1 / mvcc.v1 / replication.v1 / maintenance.v1, hot-path types favoured) is generated generically over the protobuf descriptors: every oneof arm or none, "
             "absent vs present optional fields, unknown enum numbers, byte fields at varint length boundaries (127/128, 16383/16384, 70000), nested messages to depth 4, maps; encoded with the registered gRPC codec, decoded into a fresh object "
             "(proto.Equal with the canonically decoded original, bytes also decodable by the canonical implementation), into a pooled SnapshotChunk recycled via ReturnToVTPool and via ResetVT after holding another generated message (the stream readers' pattern), "
             "and Commands built on recycled pooled objects the way fsm.writeCommand / worker.proposeBatch do. Non-trivial iff a oneof arm is set or a pooled object is involved. TestC18Comp: gzip / snappy / zstd from the gRPC registry, 1-6 payloads "
             "(empty, literals, zeros/random/text of sizes around 4 KiB / 64 KiB boundaries, up to 1 MiB quick / 8 MiB thorough) round-tripped 3x by 1/4/16 goroutines sharing the pooled (de)compressors, drained with one read-to-EOF like gRPC; non-trivial iff "
             ">1 worker and >=2 payloads. TestC18Frame: 0-12 messages (1 B .. 1 MiB) -> snapshot file -> snapshot.Writer over a codec-backed chunk pipe with generated read sizes {1,2,3,7,8,9,15..1 MiB} -> snapshot.Reader -> file -> message-wise read; same "
             "sequence, same boundaries, EOF after the last; non-trivial iff a chunk size < 8 (boundary inside a length prefix) with >=2 messages. TestC18Wire: codec, compressors and framing between real gRPC clients and a REAL regatta leader process "
             "(production server options): 2-12 clients put / transact pairs of one size class at the same moment, each request naming its own table, key and value, optionally compressed - afterwards every table holds exactly what its writers sent; and backup / change / restore of a table "
             "(long name + tiny content, or several MiB of incompressible values) through the real Maintenance API with the stock backup client - same content, no other table. Thorough adds native fuzzing (FuzzC18: arbitrary bytes through the codec for every type).",
        assumptions=["in-process codec tests do not modify input buffers after decoding (aliasing the input is within the codec's contract as long as the server does not recycle receive buffers; that combination is what TestC18Wire exercises on the real server)",
                     "compressed readers are drained with a single read-to-EOF as gRPC does", "decoding arbitrary messages into a recycled pooled Command is not done by any regatta code path and is not asserted"],
        technique="round-trip property-based testing over descriptor-driven generated messages, concurrent compressor round trips, framing round trip with generated chunk boundaries, end-to-end round trips through a real server process (concurrent writers, backup/restore), native fuzzing",
        level_text="Randomised exploration of message values (all types), payloads and chunkings with exact round-trip oracles.",
        level_note="Trusted: google.golang.org/protobuf as the reference decoder and proto.Equal as equality.",
    ),
    "C16": dict(
        pkg="c16", level="exploration", needs_binary=True,
        tests=[T("TestC16", Q(500, timeout=300, shrinktime="20s"), Q(2500, timeout=1800, shards=4, shrinktime="60s"))],
        fuzz=[dict(target="FuzzC16", seconds=240)],
        rule="A real `regatta leader` process and a real `regatta follower` process replicating from it (production wiring, loopback gRPC, data in a scratch dir) serve every case. A case is 3-25 requests "
             "(Range, IterateRange, Put, DeleteRange, Txn, Tables Create/Delete/List) to the leader or the follower, sent as exact wire bytes through a pass-through codec. Each request is built valid and then 0, 1 or several documented defects are injected: "
             "missing table, unknown table, missing key, key of 1025+ bytes, value of 2 MiB+1.., negative limit, keys_only+count_only, a revision filter, missing table name, table mutation on the follower, and - nested in both branches of a txn - a put with missing key / "
             "over-long key / over-sized value; plus 'hostile' shapes (empty oneof, nested reads with odd options, unknown enum numbers, random bytes) for which only liveness is asserted. Keys and values exactly AT the limits are generated as valid. "
             "Oracle: an invalid request gets a non-OK status - exactly the documented code when it carries exactly one defect - and a full read of every table before == after; valid requests behave like the model (responses and content); after every request both "
             "processes are still running (Wait has not returned). Non-trivial iff a request with exactly one defect nested in a txn branch, or a defective request sent to the follower, occurred. Distinct = sha256 of case JSON. "
             "Thorough adds FuzzC16 (native, coverage-guided, in-process): arbitrary bytes -> registered codec -> request of the KV / Tables API -> the real KVServer / TablesServer handlers in front of a real in-process storage.Engine (raft apply loop included); "
             "no panic anywhere (a panic on the apply goroutine kills the fuzz worker and is reported with the input), requests violating a documented rule are refused without effect, the engine keeps serving.",
        assumptions=["the status-code table is the one in the property statement", "process death is observed through os/exec Wait (timing-free)"],
        technique="grammar-based request generation with defect injection against the real server binaries, model-based state comparison; native coverage-guided fuzzing of the handlers in-process (thorough)",
        level_text="Randomised exploration of request shapes against the production binaries with an exact refusal/no-effect oracle.",
        level_note="Trusted: model; gRPC client library.",
    ),
    "C17": dict(
        pkg="c17", level="exploration", needs_binary=True,
        tests=[T("TestC17", Q(110, timeout=300, shrinktime="15s"), Q(500, timeout=1500, shards=4, shrinktime="60s")),
               T("TestC17TLS", Q(6000, timeout=300), Q(40000, timeout=900, shards=8)),
               T("TestC17Wire", Q(600, timeout=300, shrinktime="15s"), Q(5000, timeout=1200, shards=4, shrinktime="60s"))],
        rule="TestC17: six real processes started by the production wiring - leaders with token config {tables only, maintenance only, both, none} and followers {both, none}; a case is 3-20 calls, each to a drawn process and method "
             "(Tables Create/Delete/List, Maintenance Backup (server stream) / Restore (client stream) / Reset, plus KV Range and Cluster Status as unprotected controls) carrying a generated authorization header: right token, no header, empty token, "
             "strict prefix / suffix, extended by one character, one letter case-flipped, extra leading / trailing space, the OTHER service's token, wrong scheme, missing space, random token; scheme spelled Bearer/bearer/BEARER/bEaReR. "
             "Oracle: a service with a configured token lets the call through iff scheme equals 'bearer' case-insensitively and the token is byte-identical; otherwise the status is exactly Unauthenticated and the table set (listed with the right token) "
             "is unchanged; services without a configured token and unprotected services are unaffected. Non-trivial iff a near-miss credential (one edit away from valid) was refused. "
             "TestC17TLS: security.TLSInfo.ServerConfig() with trusted CA + generated {allowed CN | allowed hostname | neither, client-cert-auth flag}; freshly minted ECDSA client certificates: issuer trusted / rogue CA with the SAME subject name / self-signed / "
             "via trusted or rogue intermediate (chain sent or not) / none; CN exact / truncated / extended / prefixed / case-flipped / empty / unrelated; SAN DNS / IP / wildcard / mutated / absent; valid / expired / not yet valid; EKU client / both / server-only / none. "
             "Real handshakes over net.Pipe, the server-side result is the verdict. Oracle: accepted iff x509 verification against the configured CA for client auth succeeds AND CN == allowed CN resp. VerifyHostname(allowed hostname) succeeds. "
             "Non-trivial iff a certificate right in all aspects but one (or rogue CA with the right CN) was refused. "
             "TestC17Wire: the same certificate generator and reference predicate against the REAL wiring: three `regatta leader` processes with https:// client-API and replication endpoints configured through "
             "--api.cert-filename/--api.ca-filename/--api.allowed-cn/--api.allowed-hostname/--api.client-cert-auth and the replication.* settings (allowed-cn / allowed-hostname of the replication endpoint have no flag and are given in config.yaml); "
             "each case dials one of the six endpoints with a freshly minted client certificate and performs one RPC (Cluster.Status / Metadata.Get); served iff the predicate accepts; the process must stay alive. Distinct = sha256 of case JSON.",
        assumptions=["crypto/x509 verification is the definition of 'chains to that CA'", "header values are restricted to what the gRPC client library transmits (printable ASCII)"],
        technique="property-based testing of the authentication decision against an independent reference predicate, on the real binaries (tokens, and certificates on https endpoints configured by flags/config file) and on the real TLS configuration object (certificates)",
        level_text="Randomised exploration biased to near-miss credentials with an exact accept/refuse oracle.",
        level_note="Trusted: Go's crypto/tls and crypto/x509; go-grpc-middleware's header parsing is part of the system under test.",
    ),
}

# Session 5: what was added to the generated domains / oracles (appended to the rule text each evidence file carries)
RULE_ADDENDA = {
    "C02": "TestC02Table (session 5): an eighth of the transactions lose their acknowledgement from the raft stand-in (entry committed and applied, the table layer is told 'timeout'); oracle: one call puts at most one entry into the log, the model follows the log.",
    "C05": "TestC05SnapshotLag (session 5): the table dump a follower recovers from, requested through table.ActiveTable.Snapshot on a leader node whose own copy lags behind the acknowledged writes (raft stand-in with two replicas): the declared index must cover every write acknowledged before the request, otherwise a follower that had replicated them would move backwards. The key alphabet holds the keys at the very end of the key space (1019 / 1024 bytes of 0xFF).",
    "C06": "Session 5: a replicate call may be served by a node whose OWN copy lags 1-4 entries behind the table's applied index (a consensus read catches it up, a local read does not) and whose first consensus read is refused with the raft library's transient busy error; no answer is fine then, an answer must be right with respect to the table's applied index.",
    "C07": "Session 5: TestC07Cluster in quiet mode (half of the cases) runs no reconcile round between the moment a restore returns and the moment every node has been judged - every node must look the table up as the new shard by catalogue propagation alone; records of 64-200 KiB also in the quick tier.",
    "C09": "Session 5: 'the maximum value size' of the large-value generators is table.MaxValueLen read from the code under test.",
    "C10": "Session 5: in half of the concurrent cases the clients call their node's KV API handlers (one regattaserver.KVServer per node, shared by that node's clients) instead of the engine; all clients issue the same linearizable range read.",
    "C11": "TestC11RYW (session 5): another client writes to the leader directly between forwarded writes, forwarded deletes carry count / prev_kv; a quarter of the cases start with an aimed prefix in which the forwarded write is a no-op on the leader (delete of a key another client just deleted there, transaction with an empty executed branch) while the follower still holds the old state.",
    "C13": "Session 5: list / listdir answers for well-formed paths are also compared with an independent reading of 'directory listing' (next path element of every key below the path); relative keys differing from the queue keys in their first element only.",
    "C14": "Session 5: TestC14 action cleanup (the delayed removal of stopped shards' data falls due, grace period 1 ns through the hook): every catalogued table holds its model content right afterwards and after the next engine restart. TestC14Reconcile also restores small streams into existing and NEW names while rounds run; a restore that runs into its one-minute deadline is decided by a control (same restore with the reconciler held still, then with rounds again).",
    "C15": "Session 5: a fifth of the TestC15 / TestC15Replicas cases mix create-table / delete-table calls on the leased table's name into the programs; judged by the two-holders invariant.",
    "C17": "Session 5: one leader process is configured with tokens made of metacharacters ($VAR, ${..}, %verbs, templates, quotes, back-ticks).",
    "C18": "TestC18Wire (session 5): in half of the backup cases the restore stream is cut by the harness (piece sizes 1 B - 3 MiB, empty chunks in the middle and at the end) instead of by the stock client.",
    "C19": "TestC19Engine (session 5): a third of the cases also drain streamed range reads of several messages one message at a time across leadership transfers; every message's header takes part in the per-node term monotonicity check.",
}
for _k, _v in RULE_ADDENDA.items():
    PROPS[_k]["rule"] = PROPS[_k]["rule"].rstrip() + " " + _v

# Quick-tier deadlines are upper bounds that cost nothing on a quiet machine (a quick check takes 10-110 s there); on a machine that runs many
# checks at once a test can take several times longer - a floor of 10 minutes keeps such a run from ending as INCONCLUSIVE.
for _p in PROPS.values():
    for _t in _p["tests"]:
        if _t["quick"] is not _t["thorough"]:
            _t["quick"]["timeout"] = max(_t["quick"]["timeout"], 600)
        else:
            _t["quick"] = dict(_t["quick"], timeout=max(_t["quick"]["timeout"], 600))
