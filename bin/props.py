"""Per-property configuration of the driver: which test functions make up a check, how many cases per tier."""

FSM_ASSUME = [
    "entries are handed to FSM.Update directly in the way dragonboat's IOnDiskStateMachine contract documents (raft itself is not in the loop)",
    "pebble on a strict in-memory vfs behaves like pebble on disk for everything but durability timing",
]


def T(name, quick, thorough=None, **kw):
    d = dict(name=name, quick=quick)
    d["thorough"] = thorough or quick
    d.update(kw)
    return d


def Q(checks, timeout=240, shards=1, **kw):
    d = dict(checks=checks, timeout=timeout, shards=shards)
    d.update(kw)
    return d


HOOK_COMMITS = []

NOT_APPLICABLE = {}

PROPS = {
    "C01": dict(
        pkg="c01", level="exploration",
        tests=[T("TestC01", Q(2500), Q(12000, timeout=900, shards=16, shrinktime="60s"))],
        rule="rapid generates command histories (apply batches of 1-6 entries of PUT/DELETE/range DELETE/PUT_BATCH/DELETE_BATCH/TXN/SEQUENCE/DUMMY, "
             "sync, reopen, reads) over a small key pool biased to 0x00/0xFF bytes, prefixes, bookkeeping look-alikes and 1018-1024 byte keys; "
             "every result, read and the applied index is compared with an independent sorted-map model. A case is non-trivial iff its history contains "
             ">=1 range delete that removed >=1 key AND >=1 command that read (prev_kv/count/compare/range) a key written earlier in the same apply call "
             "(TestC01Large: a range delete / read whose answer exceeds the ~4 MiB internal chunk). Distinct = sha256 of the case JSON (exact command bytes).",
        assumptions=FSM_ASSUME,
        technique="stateful property-based testing (rapid) against a reference sorted-map model",
        level_text="Randomised exploration of command histories on the real table state machine, every response and read compared with an "
                   "independent model; thousands of distinct non-trivial histories per run, shrunk replay files on failure. No exhaustiveness is claimed.",
        level_note="Trusted: the reference model (internal/model), dragonboat's apply contract as emulated by the harness, pebble on MemFS.",
    ),
}
