"""Per-property configuration of the driver: which test functions make up a check, how many cases per tier."""

FSM_ASSUME = [
    "entries are handed to FSM.Update directly in the way dragonboat's IOnDiskStateMachine contract documents (raft itself is not in the loop)",
    "pebble on a strict in-memory vfs behaves like pebble on disk for everything but durability timing",
]


def T(name, quick, thorough=None, **kw):
    d = dict(name=name, quick=quick)
    d["thorough"] = thorough or quick
    d.update(kw)
    return d


def Q(checks, timeout=240, shards=1, **kw):
    d = dict(checks=checks, timeout=timeout, shards=shards)
    d.update(kw)
    return d


HOOK_COMMITS = []

NOT_APPLICABLE = {}

PROPS = {
    "C01": dict(
        pkg="c01", level="exploration",
        tests=[T("TestC01", Q(2500), Q(12000, timeout=900, shards=16, shrinktime="60s"))],
        rule="rapid generates command histories (apply batches of 1-6 entries of PUT/DELETE/range DELETE/PUT_BATCH/DELETE_BATCH/TXN/SEQUENCE/DUMMY, "
             "sync, reopen, reads) over a small key pool biased to 0x00/0xFF bytes, prefixes, bookkeeping look-alikes and 1018-1024 byte keys; "
             "every result, read and the applied index is compared with an independent sorted-map model. A case is non-trivial iff its history contains "
             ">=1 range delete that removed >=1 key AND >=1 command that read (prev_kv/count/compare/range) a key written earlier in the same apply call "
             "(TestC01Large: a range delete / read whose answer exceeds the ~4 MiB internal chunk). Distinct = sha256 of the case JSON (exact command bytes).",
        assumptions=FSM_ASSUME,
        technique="stateful property-based testing (rapid) against a reference sorted-map model",
        level_text="Randomised exploration of command histories on the real table state machine, every response and read compared with an "
                   "independent model; thousands of distinct non-trivial histories per run, shrunk replay files on failure. No exhaustiveness is claimed.",
        level_note="Trusted: the reference model (internal/model), dragonboat's apply contract as emulated by the harness, pebble on MemFS.",
    ),
    "C02": dict(
        pkg="c02", level="exploration",
        tests=[T("TestC02", Q(2500), Q(12000, timeout=900, shards=12, shrinktime="60s")),
               T("TestC02Atomic", Q(1500), Q(6000, timeout=900, shards=4, shrinktime="60s"))],
        rule="TestC02: rapid histories dominated by TXN commands (0-3 predicates EQUAL/GREATER/LESS/NOT_EQUAL/existence on single keys and ranges, 0-4 ops per branch mixing "
             "range reads, puts, (range) deletes on overlapping keys) placed anywhere in apply batches of 1-4 entries, plus read-only transactions through Lookup which are "
             "additionally compared with the same ops issued individually and with the same txn sent through the log (metamorphic). Non-trivial iff some txn had >=1 predicate and "
             ">=2 ops in the executed branch and touched a key written earlier in the same txn/batch. TestC02Atomic: stamp commands rewrite a key group together while 1-4 reader goroutines "
             "range-read the group; non-trivial iff readers observed >=2 distinct stamps. Distinct = sha256 of the case JSON.",
        assumptions=FSM_ASSUME + ["atomic-visibility readers run on real goroutines: the oracle is timing-free, only coverage depends on scheduling"],
        technique="stateful property-based testing against a transaction model + metamorphic relations + concurrent readers",
        level_text="Randomised exploration: transaction semantics compared with an independent evaluator on thousands of histories; read-only txn path cross-checked "
                   "metamorphically; atomic visibility probed with concurrent readers. Crash atomicity is C04's job.",
        level_note="Trusted: internal/model transaction evaluator; scheduling of reader goroutines is not controlled.",
    ),
    "C03": dict(
        pkg="c03", level="exploration",
        tests=[T("TestC03", Q(1200), Q(6000, timeout=900, shards=16, shrinktime="60s"))],
        rule="rapid generates one log (2-40 entries, quick; commands of every type, each with or without leader_index) and two independent partitions of it into Update calls "
             "(1-7 entries each) interleaved with reopen / sync / snapshot-save + recover-into-a-fresh-replica events (saver and receiver format drawn independently). "
             "Oracle: per-entry results byte-identical between the two replicas, equal content, applied index, leader index and store hash, all equal to the model. "
             "Non-trivial iff the partitions differ AND some Update call mixes entries with and without leader_index AND >=1 snapshot transfer happened. Distinct = sha256 of case JSON.",
        assumptions=FSM_ASSUME + ["both replicas run in one process on separate in-memory file systems"],
        technique="differential / metamorphic property-based testing (same log, two generated schedules) plus model comparison",
        level_text="Randomised exploration of (log, partition A, partition B) triples; the implementation is compared with itself under a different batching/restart/snapshot schedule and with the model.",
        level_note="Trusted: internal/model; raft is replaced by direct Update calls that follow dragonboat's contract.",
    ),
}
